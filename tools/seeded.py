#!/usr/bin/env python3
"""Bookkeeping for the seeded changes under /verif/seeded.

  seeded.py import   copy verified sub-agent deliverables from /tmp/seed-*/ into /verif/seeded/<id>/
  seeded.py matrix [id...]   run the listed checks against each seeded change (scratch worktree, /repo untouched)
                     and record which checks raise a VIOLATION in meta.json
"""
import json, os, re, shutil, subprocess, sys

VERIF = os.path.dirname(os.path.dirname(os.path.abspath(__file__)))
SEEDED = os.path.join(VERIF, "seeded")

# id: (property, source dir, what it needs in order to manifest, checks expected to be relevant)
TABLE = {
    "C01a": ("C01", "/tmp/seed-C01/a", "lock commit applied but checkpoint upload lost (fault or crash), restart, then a stalled or stepped-back clock at the next round: LoadLog takes the tree-head time from the published instead of the lock checkpoint", ["C01"]),
    "C01b": ("C01", "/tmp/seed-C01/b", "CreateLog publishes the checkpoint before Lock.Create: needs a failing Lock.Create or a racing/retried creation", ["C01", "C06"]),
    "C02a": ("C02", "/tmp/seed-C02/a", "cache written right after the lock commit: needs a non-fatal checkpoint-upload failure followed by a resubmission before the next publication", ["C02", "C07"]),
    "C02b": ("C02", "/tmp/seed-C02/b", "wrong leaf index handed to a high-priority submission that evicted a low-priority one: needs PoolSize>0, a full pool with a low-priority entry", ["C17", "C07", "C02"]),
    "C03a": ("C03", "/tmp/seed-C03/a", "staging bundle discarded before the checkpoint upload: needs a crash or non-fatal failure in that one window, then a restart", ["C03", "C02"]),
    "C03b": ("C03", "/tmp/seed-C03/b", "LocalBackend.compareFile compares the file size with the 16 KiB chunk size: identical re-upload of an immutable object >16 KiB is refused (recovery re-upload fails); patch rebased onto the F1 fix", ["C13"]),
    "C04a": ("C04", "/tmp/seed-C04/a", "issuer marked as stored before its upload completes: needs two concurrent submissions sharing a new issuer, a slow issuer upload and a round inside that window", ["C04"]),
    "C04b": ("C04", "/tmp/seed-C04/b", "clock-progress guard skipped for empty pools: needs the clock to step back while the log is idle", ["C04", "C01"]),
    "C05a": ("C05", "/tmp/seed-C05/a", "SQLite Replace reports success when new == old although the row changed meanwhile: needs A fetch, B replace, A write-back of the fetched value", ["C05"]),
    "C05b": ("C05", "/tmp/seed-C05/b", "DynamoDB Fetch without ConsistentRead: needs a service that answers non-consistent reads from a lagging replica", ["C05"]),
    "C06a": ("C06", "/tmp/seed-C06/a", "CreateLog uploads the size-0 checkpoint before the atomic Lock.Create: needs two creations interleaved around the existence checks", ["C06", "C01"]),
    "C06b": ("C06", "/tmp/seed-C06/b", "LoadLog no longer refuses a published checkpoint ahead of the lock store: needs a rolled-back lock store at start-up", ["C06"]),
    "C07a": ("C07", "/tmp/seed-C07/a", "in-sequencing map cleared before the cache write: needs a duplicate submission while the sequencer is inside cachePut", ["C07"]),
    "C07b": ("C07", "/tmp/seed-C07/b", "shadowed slot index on eviction: acknowledgement names firstLeafIndex+PoolSize; needs a full bounded pool with a low-priority entry and a high-priority submission", ["C17", "C07"]),
    "C08a": ("C08", "/tmp/seed-C08/a", "LoadLog accepts a right-edge data tile holding only a prefix of the committed entries (rolled-back partial tile); no hash-level fork results", ["C08"]),
    "C08b": ("C08", "/tmp/seed-C08/b", "issuer cached as known before the stored object is compared: second submission through a tampered issuer object is accepted; no checkpoint is affected", ["C08"]),
    "C09a": ("C09", "/tmp/seed-C09/a", "issuer key hash taken from the precertificate signing certificate instead of its issuer: needs a precertificate issued through a signing certificate", ["C09"]),
    "C09b": ("C09", "/tmp/seed-C09/b", "rootsPEM updated before the fallible upload: needs a failed roots upload followed by a retry with the same PEM", ["C09"]),
    "C10a": ("C10", "/tmp/seed-C10/a", "leaf reader delegates to the lenient ParseExtensions: needs a leaf with an unknown, second or trailing extension", ["C10"]),
    "C10b": ("C10", "/tmp/seed-C10/b", "leaf_index upper bound off by one: needs exactly 2^40", ["C10"]),
    "C11a": ("C11", "/tmp/seed-C11/a", "verifier ignores bytes after the signature blob: needs trailing bytes appended to a valid signature", ["C11"]),
    "C11b": ("C11", "/tmp/seed-C11/b", "tree heads signed with randomized ECDSA: needs signing the same tree head twice", ["C11"]),
    "C12a": ("C12", "/tmp/seed-C12/a", "Entry skips the index check whenever AllowRFC6962ArchivalLeafs is on: needs that option and a tree committing a leaf at a position other than its leaf_index", ["C12"]),
    "C12b": ("C12", "/tmp/seed-C12/b", "verifier accepts checkpoints with extension lines: needs lines inserted before the signature block of a signed checkpoint", ["C12", "C11"]),
    "C13a": ("C13", "/tmp/seed-C13/a", "durable.WriteFile renames before the file fsync (defer order): only a power loss between rename and fsync exposes it", ["C13"]),
    "C13b": ("C13", "/tmp/seed-C13/b", "compareFile returns nil on EOF without checking the remaining data: needs a second upload that extends the stored immutable object", ["C13"]),
    "C14a": ("C14", "/tmp/seed-C14/a", "same-size submissions skip the root comparison: needs a fork at exactly the recorded size", ["C14"]),
    "C14b": ("C14", "/tmp/seed-C14/b", "cosigned checkpoint uploaded to the public bucket before the lock CAS: needs a failing CAS or crash between the two", ["C14"]),
    "C15a": ("C15", "/tmp/seed-C15/a", "cut tiles uploaded hash-first: needs a ticket commit of an older mid-tile size after the frontier moved on, one transient failure of the entries-tile upload and a retry", ["C15"]),
    "C15b": ("C15", "/tmp/seed-C15/b", "mirror checkpoint published before it is recorded: needs a failing lock Replace at commit", ["C15"]),
    "C16a": ("C16", "/tmp/seed-C16/a", "whole-tree fast path skips the hash comparison: needs [0,size) with a wrong hash and an empty proof", ["C16"]),
    "C16b": ("C16", "/tmp/seed-C16/b", "empty-proof fast path skips the range binding: needs a proper subrange with the checkpoint root as hash and no proof", ["C16"]),
    "C18a": ("C18", "/tmp/seed-C18/a", "right-edge guard off by one (>= to >): needs storage ahead of the published checkpoint (crashed/unpublished next tree that crossed a tile boundary) so that the full sibling of the published right-edge partial exists", ["C18"]),
    "C18b": ("C18", "/tmp/seed-C18/b", "overrideImmutable stats the partial instead of the full tile: needs an empty or directory-typed NNN entry next to NNN.p (leftover of an interrupted upload)", ["C18"]),
    "C19a": ("C19", "/tmp/seed-C19/a", "file servers built on os.DirFS instead of the os.Root: needs a symbolic link inside a served directory whose target lies outside it", ["C19"]),
    "C19b": ("C19", "/tmp/seed-C19/b", "partial names tiles lose their content type: needs a request for tile/names/N.p/W of a log whose size is not a multiple of 256", ["C19"]),
    "C20a": ("C20", "/tmp/seed-C20/a", "final-tree mismatch errors wrap the read-only sentinel, the handler classifies them as success: needs a log past its read-only date whose checkpoint differs from final_tree_head", ["C20"]),
    "C20b": ("C20", "/tmp/seed-C20/b", "mirror right-edge read skipped when the edge is a single hash: needs a mirror checkpoint at a power-of-two size with missing or corrupted tiles", ["C20"]),
}

# round 2 (three per property, /tmp/seed2/<prop>/{c,d,e})
TABLE.update({
    "C14c": ("C14", "/tmp/seed2/C14/c", "failed checkpoint Lock.Replace is retried against a re-fetched lock value: needs two witness instances on one lock store (overlapping restart), the stale one is sent old=3 -> a fork at 4 after the other recorded 5", ["C14"]),
    "C14d": ("C14", "/tmp/seed2/C14/d", "'no growth' fast path (new size == recorded size != 0) only requires an empty proof: needs a log-signed checkpoint at exactly the recorded size with another root", ["C14"]),
    "C14e": ("C14", "/tmp/seed2/C14/e", "per-origin verifier lists accumulate the keys of logs visited earlier (scratch slice never reset): needs >= 2 configured logs and a checkpoint for origin A signed only by log B's key", ["C14"]),
    "C15c": ("C15", "/tmp/seed2/C15/c", "packages at or below the next entry skip proof verification after their hashes went into the overlay: needs a re-sent tile [256,512) with wrong entries followed by a genuine new full tile; level-1 tile then holds unverified hashes", ["C15"]),
    "C15d": ("C15", "/tmp/seed2/C15/d", "ensureCutTiles uploads the cut hash tile before the cut data tile: needs a ticket commit behind the frontier, a failed upload of the cut data tile and a client retry", ["C15"]),
    "C15e": ("C15", "/tmp/seed2/C15/e", "failed mirror-checkpoint Lock.Replace retried with a re-fetched lock without re-checking sizes: needs an old process holding a request between packages and commit while a new process mirrors further; mirror size goes back", ["C15"]),
    "C01c": ("C01", "/tmp/seed2/C01/c", "LoadLog 'recovers' from a missing staging bundle by resuming from the published tree while keeping the lock token: needs a crash after the lock commit, the bundle lost, a restart and one round; the next commit does not extend the committed tree", ["C06", "C08", "C01"]),
    "C01d": ("C01", "/tmp/seed2/C01/d", "LoadLog takes the tree-head time from the published checkpoint: needs the published checkpoint behind the lock at restart and a clock not past the lock checkpoint's millisecond", ["C01"]),
    "C01e": ("C01", "/tmp/seed2/C01/e", "CreateLog uploads _roots.pem and checkpoint before Lock.Create: needs a Lock.Create failure or two racing creations", ["C01", "C06"]),
    "C02c": ("C02", "/tmp/seed2/C02/c", "clock-progress error turned into a clamp of the tree-head time while leaves keep the unclamped time: needs a non-empty round with the clock at or before the previous tree head", ["C02", "C01", "C04"]),
    "C02d": ("C02", "/tmp/seed2/C02/d", "cachePut moved right after the lock commit: needs a failed checkpoint upload (or fatal tile upload + restart) followed by a resubmission before the next publication", ["C02", "C07"]),
    "C02e": ("C02", "/tmp/seed2/C02/e", "issuer_key_hash from chain[1] also behind a precertificate signing certificate: needs add-pre-chain with a CT-EKU signing certificate", ["C09", "C02"]),
    "C03c": ("C03", "/tmp/seed2/C03/c", "staging bundle discarded right after the tile uploads, before the checkpoint upload: needs a crash / failed upload in that window and a restart", ["C03"]),
    "C03d": ("C03", "/tmp/seed2/C03/d", "LoadLog discards the staging bundle after applying it: needs two deaths in a row (after the lock commit; then after recovery, before the next publication)", ["C03"]),
    "C03e": ("C03", "/tmp/seed2/C03/e", "compareFile uses io.ReadFull without tolerating a short last chunk: identical re-upload of an immutable file > 16 KiB and not a multiple of it is refused; needs LocalBackend recovery with large tiles", ["C13", "C03"]),
    "C06c": ("C06", "/tmp/seed2/C06/c", "SQLite Replace split into SELECT + Go-side compare + unconditional UPDATE: needs two connections whose SELECTs both land before either UPDATE", ["C05", "C06"]),
    "C06d": ("C06", "/tmp/seed2/C06/d", "CreateLog publishes the checkpoint before Lock.Create: needs instance B past the existence checks while A creates, loads and sequences", ["C06", "C01"]),
    "C06e": ("C06", "/tmp/seed2/C06/e", "LoadLog folds 'same size, different root' into staging recovery (c1.Tree != c.Tree): needs a validly signed same-size fork published AND the lock checkpoint's staging bundle still present", ["C06"]),
    "C17c": ("C17", "/tmp/seed2/C17/c", "RunSequencer returns nil on context cancellation: pending waiters panic ('result is missing'), later submissions are queued into the dead pool", ["C17"]),
    "C17d": ("C17", "/tmp/seed2/C17/d", "deduplication lookups answered before the 'sequencer stopped' check: needs sequence, stop, resubmit the same entry", ["C17"]),
    "C17e": ("C17", "/tmp/seed2/C17/e", "503 decision keyed on source == ratelimit: an evicted pending submitter gets 500 over HTTP; needs a full pool, a pending low-priority chain and a high-priority arrival", ["C17"]),
    "C04c": ("C04", "/tmp/seed2/C04/c", "issuer fingerprint marked known before the fetch/upload, lock released during the call: needs two concurrent submissions sharing a new issuer, a slow or failing issuer upload and a sequencer tick in between", ["C04"]),
    "C04d": ("C04", "/tmp/seed2/C04/d", "after the lock commit a tile-upload error wrapping context.DeadlineExceeded is made non-fatal: needs a TIMEOUT-kind error on a tile upload, then one more round publishing a checkpoint whose tiles exist only in the staging bundle", ["C04", "C01"]),
    "C04e": ("C04", "/tmp/seed2/C04/e", "partial-aftersun edge guard t.N*tileSize >= size: deletes the right-edge partial when the next tree's full tile is on disk but the checkpoint is still the old one", ["C18"]),
    "C05c": ("C05", "/tmp/seed2/C05/c", "SQLite Replace = SELECT, Go compare, UPDATE without the body guard: needs two connections/processes replacing concurrently", ["C05"]),
    "C05d": ("C05", "/tmp/seed2/C05/d", "ETag Create drops the empty If-Match (helper skips empty header values): needs a second Create of an existing log ID", ["C05"]),
    "C05e": ("C05", "/tmp/seed2/C05/e", "DynamoDB Fetch without ConsistentRead: needs a lagging replica", ["C05"]),
    "C07c": ("C07", "/tmp/seed2/C07/c", "duplicate check and pool insertion split by the issuer upload (lock released): needs submission A stuck on a slow issuer upload while B (same certificate) is admitted, sequenced and acknowledged", ["C07", "C04"]),
    "C07d": ("C07", "/tmp/seed2/C07/d", "legacy-cache hits queued for promotion and written with the round's cachePut in one savepoint: a duplicate key rolls the whole batch back; needs a legacy-only entry resubmitted twice plus a new entry", ["C07"]),
    "C07e": ("C07", "/tmp/seed2/C07/e", "eviction refactor shadows the slot index: the waiter returns firstLeafIndex+PoolSize; needs a full bounded pool with a low-priority entry and a high-priority arrival", ["C17", "C07"]),
    "C08c": ("C08", "/tmp/seed2/C08/c", "LoadLog resumes from the published checkpoint when the lock checkpoint's staging bundle is missing: needs a rolled-back bucket / deleted bundle, restart, one round; commits a fork at the lock store", ["C08", "C06"]),
    "C08d": ("C08", "/tmp/seed2/C08/d", "verify-then-load refactor re-fetches right-edge hash tiles unverified: needs a level>=1 tile changed between the two reads during start-up (tree >= 257)", ["C08"]),
    "C08e": ("C08", "/tmp/seed2/C08/e", "level-0 edge rebuilt from the unauthenticated right-most data tile: needs one entry of that tile altered so it still parses, restart, one round", ["C08"]),
    "C08f": ("C08", "/tmp/seed2/C08/f", "(bonus, acknowledgement level only) issuer marked known before comparison with the stored object: second submission through an altered issuer object is accepted; signed checkpoints stay consistent", ["C08"]),
    "C09c": ("C09", "/tmp/seed2/C09/c", "issuer key hash of the precertificate signing certificate instead of its issuer: needs add-pre-chain through a CT-EKU signing certificate", ["C09"]),
    "C09d": ("C09", "/tmp/seed2/C09/d", "NotAfter window check moved out of ValidateChain and made inclusive at the limit: needs NotAfter == NotAfterLimit to the second", ["C09"]),
    "C09e": ("C09", "/tmp/seed2/C09/e", "issuer marked stored before its upload succeeded: needs a failed issuer upload (refused) followed by a resubmission, accepted with the issuer object missing", ["C09", "C04"]),
    "C10c": ("C10", "/tmp/seed2/C10/c", "tile-leaf reader uses the lenient ParseExtensions: unknown / duplicate / trailing extensions accepted", ["C10"]),
    "C10d": ("C10", "/tmp/seed2/C10/d", "40-bit leaf index decoded with a uint32 shift: needs a leaf index >= 2^32", ["C10"]),
    "C10e": ("C10", "/tmp/seed2/C10/e", "ParseTilePath also accepts tile/entries/...: two spellings for one data tile", ["C10"]),
    "C11c": ("C11", "/tmp/seed2/C11/c", "shared signature parser drops the !s.Empty() check: trailing bytes after the TreeHeadSignature accepted", ["C11"]),
    "C11d": ("C11", "/tmp/seed2/C11/d", "signTreeHead signs with a randomised nonce (digitallySign stays deterministic): needs signing the same tree head twice", ["C11"]),
    "C11e": ("C11", "/tmp/seed2/C11/e", "origin comparison removed from the verifier: a genuine signature line verifies under a foreign origin line", ["C11", "C12"]),
    "C12c": ("C12", "/tmp/seed2/C12/c", "entry type chosen by IsPrecert && len(PreCertificate) > 0 when hashing: an x509 leaf served as precert_entry with forged issuer key hash and empty pre_certificate is yielded", ["C12"]),
    "C12d": ("C12", "/tmp/seed2/C12/d", "CheckInclusion no longer compares the SCT timestamp with the leaf: needs a genuine SCT with an altered timestamp", ["C12"]),
    "C12e": ("C12", "/tmp/seed2/C12/e", "checkpoint verifier loses the extension-line rejection: needs a signed checkpoint served with extension lines", ["C12", "C11"]),
    "C13c": ("C13", "/tmp/seed2/C13/c", "compareFile (io.ReadFull) never compares the last size%16384 bytes: needs an immutable object > 16 KiB, not a multiple of it, differing only in the tail", ["C13"]),
    "C13d": ("C13", "/tmp/seed2/C13/d", "iterative MkdirAll fsyncs the parent of the deepest new directory only: with >= 2 new levels the existing ancestor's entry is never synced; needs power loss", ["C13"]),
    "C13e": ("C13", "/tmp/seed2/C13/e", "fsyncAndClose resets an earlier error when the fsync succeeds: needs a failing write (ENOSPC/EIO) or rename; the truncated temp file is published and Upload returns nil", ["C13"]),
    "C16c": ("C16", "/tmp/seed2/C16/c", "signers chosen by signature-line name, one combined re-verification: a mirror-only checkpoint plus any line bearing the witness name yields a witness ML-DSA subtree signature", ["C16"]),
    "C16d": ("C16", "/tmp/seed2/C16/d", "whole-tree fast path lacks end == N: [0,end) with the root hash of the size-N tree and no proof is signed", ["C16"]),
    "C16e": ("C16", "/tmp/seed2/C16/e", "cache of verified ML-DSA cosignatures shared by witness and mirror verifiers without the verifier in the key: needs one genuine request, then the signature relabelled with the other key's name/hash", ["C16"]),
    "C18c": ("C18", "/tmp/seed2/C18/c", "right edge for data/names/entries levels computed at level -1 (edge = size): needs storage ahead of the published checkpoint so that the right-edge bundle exists as partial and full", ["C18"]),
    "C18d": ("C18", "/tmp/seed2/C18/d", "names index shared across directories + Info() from it instead of Stat(full): a partial whose full tile is missing is deleted when the same 3-digit name was seen elsewhere", ["C18"]),
    "C18e": ("C18", "/tmp/seed2/C18/e", "dot-files in a superseded NNN.p directory skipped and the directory removed with RemoveAll: stray temp files deleted", ["C18"]),
    "C19c": ("C19", "/tmp/seed2/C19/c", "log file handler on os.DirFS(root.Name()): symlinks inside a log directory leading out are followed", ["C19"]),
    "C19d": ("C19", "/tmp/seed2/C19/d", "missing tile/....p/W answered with the full tile: needs partial served, tree grown, partial deleted, partial requested again", ["C19"]),
    "C19e": ("C19", "/tmp/seed2/C19/e", "content headers dropped on every non-200 status behind the rate limiter: 206 answers to Range requests lose gzip / immutable", ["C19"]),
    "C20c": ("C20", "/tmp/seed2/C20/c", "final-tree mismatch errors wrap errLogSunset: a sunset log whose checkpoint differs from final_tree_head is reported read-only (200)", ["C20"]),
    "C20d": ("C20", "/tmp/seed2/C20/d", "witness/mirror verifier keys loaded once at start-up: rewriting or removing witness.v0.json / mirror.v0.json under the running server stays green", ["C20"]),
    "C20e": ("C20", "/tmp/seed2/C20/e", "right-edge verification cached per (directory, origin, tree): a tile damaged after one green probe goes unnoticed", ["C20"]),
    # round 3 (changes in cmd/sunlight, the HTTP layer and the storage backends; /tmp/seed3/<prop>/{g,h})
    "C06g": ("C06", "/tmp/seed3/C06/g", "Inception gate becomes strings.HasPrefix(today, inception): a missing/empty/year-month Inception makes every day the Inception day, so an instance on stores lacking the log creates a second log under the same key", ["C06"]),
    "C06h": ("C06", "/tmp/seed3/C06/h", "lock-backend ambiguity check counts ETagS3 by its endpoint while the selection keys on the bucket: checkpoints + etags3 without endpoint silently runs on SQLite instead of refusing", ["C06"]),
    "C03g": ("C03", "/tmp/seed3/C03/g", "S3Backend hedging 'simplified': a failed hedge PUT makes Upload return nil with nothing stored; needs the main PUT stuck > 75 ms while the hedge fails", ["C03", "C04"]),
    "C03h": ("C03", "/tmp/seed3/C03/h", "cmd/sunlight prunes every staging bundle right after LoadLog succeeds: needs a crash between lock commit and publication, a restart that recovers and prunes, and a second death before the first round", ["C03"]),
    "C17g": ("C17", "/tmp/seed3/C17/g", "HTTP status mapping switched to the source label: the second submitter (source pool) of an evicted chain gets 500 without Retry-After", ["C17"]),
    "C17h": ("C17", "/tmp/seed3/C17/h", "a log whose stored log.v3.json already has the final tree no longer runs the sequencer once at start-up: after a restart submissions to it hang instead of getting 410", ["C17"]),
    "C02g": ("C02", "/tmp/seed3/C02/g", "cachePut batches of 256 advance the entries but not the keys: in a pool > 256 the first entries' cache rows point at later leaves; a resubmission is acknowledged with another certificate's index", ["C02", "C07"]),
    "C02h": ("C02", "/tmp/seed3/C02/h", "issuer key hash of the precertificate signing certificate (chain[1]) instead of its issuer", ["C09", "C02"]),
    "C14g": ("C14", "/tmp/seed3/C14/g", "SQLite Replace = SELECT + Go compare + unconditional UPDATE: two witness processes on one file both get 200 for inconsistent trees", ["C05", "C14"]),
    "C14h": ("C14", "/tmp/seed3/C14/h", "ETagBackend.Fetch reads exactly ContentLength bytes: a streamed (chunked) GET yields an empty body with the real ETag, the witness takes the record for size 0 and overwrites it", ["C05", "C14"]),
    # round 4 (/tmp/seed4/<prop>/{i,j})
    "C07i": ("C07", "/tmp/seed4/C07/i", "recompute-cache upserts the smaller leaf_index but keeps the old row's timestamp: needs duplicate leaves (cache lost between two submissions) and the tool run on the live, non-empty cache", ["C07"]),
    "C07j": ("C07", "/tmp/seed4/C07/j", "recompute-cache wraps its whole run in one transaction: run in parallel with production for more than the 10 s busy timeout, cachePut of the running log fails (only logged) and an acknowledged entry is sequenced again on resubmission", ["C07"]),
    "C13i": ("C13", "/tmp/seed4/C13/i", "key confinement checked with strings.HasPrefix(path, dir) without a separator: ../<dir>-backup/x escapes into a sibling whose name extends the directory's name", ["C13"]),
    "C13j": ("C13", "/tmp/seed4/C13/j", "Fetch stats the file, then opens and reads exactly that many bytes: an overwrite of a mutable key with another length in between yields a truncated object or unexpected EOF", ["C13"]),
    "C15i": ("C15", "/tmp/seed4/C15/i", "packages at or below the next entry return early after their hashes went into the overlay: a resent package with wrong entries followed by a correct one poisons the parent hash tile", ["C15"]),
    "C15j": ("C15", "/tmp/seed4/C15/j", "parsed mirror checkpoint cached and not cleared on a failed Lock.Replace: after an ambiguous write (or an overlapping restart) a request at an older size rewinds the mirror checkpoint", ["C15"]),
    "C20i": ("C20", "/tmp/seed4/C20/i", "health treats os.ErrNotExist of a mirror as 'not mirrored yet': a deleted right-edge tile (or a missing pending checkpoint) stays green", ["C20"]),
    "C20j": ("C20", "/tmp/seed4/C20/j", "verifier keys cached per file path for the process lifetime: after witness.v0.json / mirror.v0.json is rewritten, a checkpoint cosigned only by the old key is still OK", ["C20"]),
})


def do_import():
    for mid, (prop, src, needs, checks) in sorted(TABLE.items()):
        if not os.path.isdir(src) or not os.path.exists(os.path.join(src, "patch.diff")):
            continue
        vlog = os.path.join(src, "verify.log")
        verified = ""
        if os.path.exists(vlog):
            lines = [l.strip() for l in open(vlog, errors="replace") if l.startswith(src)]
            verified = " | ".join(lines[-3:])
        dst = os.path.join(SEEDED, mid)
        os.makedirs(dst, exist_ok=True)
        shutil.copy(os.path.join(src, "patch.diff"), os.path.join(dst, "patch.diff"))
        for fn in os.listdir(src):
            if fn.endswith("_test.go") or fn.endswith(".sh") or fn == "pkgdir":
                shutil.copy(os.path.join(src, fn), os.path.join(dst, fn if not fn.endswith("_test.go") else fn + ".txt"))
            if fn == "notes.md":
                shutil.copy(os.path.join(src, fn), os.path.join(dst, "agent-notes.md"))
        metap = os.path.join(dst, "meta.json")
        meta = json.load(open(metap)) if os.path.exists(metap) else {}
        if not needs and os.path.exists(os.path.join(src, "notes.md")):
            needs = "see agent-notes.md"
        meta.update(property=prop, needs_to_manifest=needs or meta.get("needs_to_manifest", ""),
                    origin="independent sub-agent given only the property text and a scratch worktree",
                    verification=verified or meta.get("verification", "not yet re-verified"),
                    verify_cmd="tools/verify-mutant.sh <dir> (scratch worktree of /repo HEAD: demo passes without the patch, fails with it, the affected packages' existing tests pass with it)",
                    demo_package_dir=(open(os.path.join(src, "pkgdir")).read().strip() if os.path.exists(os.path.join(src, "pkgdir")) else "internal/ctlog"),
                    relevant_checks=checks)
        json.dump(meta, open(metap, "w"), indent=1)
        print("imported", mid, "|", verified[:100])


def do_matrix(ids):
    for mid in ids or sorted(os.listdir(SEEDED)):
        d = os.path.join(SEEDED, mid)
        metap = os.path.join(d, "meta.json")
        if not os.path.exists(metap):
            continue
        meta = json.load(open(metap))
        checks = meta.get("relevant_checks") or [meta["property"]]
        out = subprocess.run([os.path.join(VERIF, "tools", "run-mutant.sh"), os.path.join(d, "patch.diff")] + checks,
                             capture_output=True, text=True, env=dict(os.environ, LINES_MAX="40")).stdout
        res = {}
        cur = None
        for line in out.splitlines():
            m = re.match(r"--- (C\d+) rc=(\d+)", line)
            if m:
                cur = m.group(1)
                res[cur] = dict(rc=int(m.group(2)), violation_ids=[])
            m = re.match(r"\s+id=(\S+)", line)
            if m and cur:
                res[cur]["violation_ids"].append(m.group(1))
        meta["detected_by"] = {c: r["violation_ids"] for c, r in res.items() if r["rc"] == 1 and r["violation_ids"]}
        meta["not_detected_by"] = [c for c, r in res.items() if not (r["rc"] == 1 and r["violation_ids"])]
        meta["matrix_cmd"] = "tools/run-mutant.sh seeded/%s/patch.diff %s" % (mid, " ".join(checks))
        json.dump(meta, open(metap, "w"), indent=1)
        print(mid, "detected_by", meta["detected_by"], "missed_by", meta["not_detected_by"])


if __name__ == "__main__":
    if len(sys.argv) > 1 and sys.argv[1] == "import":
        do_import()
    elif len(sys.argv) > 1 and sys.argv[1] == "matrix":
        do_matrix(sys.argv[2:])
    else:
        print(__doc__)


def do_table():
    rows = ["| id | property | needs | caught by (violation ids) | not caught by |", "|---|---|---|---|---|"]
    for mid in sorted(os.listdir(SEEDED)):
        metap = os.path.join(SEEDED, mid, "meta.json")
        if not os.path.exists(metap):
            continue
        m = json.load(open(metap))
        db, nd, tag = m.get("detected_by"), m.get("not_detected_by", []), ""
        if db is None and "detected_by_lite" in m:
            db, nd, tag = m["detected_by_lite"], m.get("not_detected_by_lite", []), " (one-process run)"
        det = "; ".join("%s: %s" % (c, ", ".join(sorted(set(v))[:3])) for c, v in sorted((db or {}).items())) or ("-" if db is not None else "not run")
        rows.append("| %s | %s | %s | %s | %s |" % (mid, m["property"], m.get("needs_to_manifest", "").replace("|", "/")[:160], det + tag, ", ".join(nd) or "-"))
    p = os.path.join(VERIF, "DESIGN.md")
    s = open(p).read()
    a = s.index("<!-- SEEDED-TABLE-BEGIN -->") + len("<!-- SEEDED-TABLE-BEGIN -->")
    b = s.index("<!-- SEEDED-TABLE-END -->")
    open(p, "w").write(s[:a] + "\n" + "\n".join(rows) + "\n" + s[b:])
    print("\n".join(rows))


if __name__ == "__main__" and len(sys.argv) > 1 and sys.argv[1] == "table":
    do_table()
