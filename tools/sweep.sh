#!/bin/bash
# sweep.sh [tier] [seed...] : runs every registered check once per seed and prints one line each.
cd "$(dirname "$(readlink -f "$0")")/.."
tier=${1:-quick}; shift
seeds=${@:-1}
for seed in $seeds; do
  for id in ${SWEEP_IDS:-$(python3 -c "import json;print(' '.join(c['property_id'] for c in json.load(open('MANIFEST.json'))['checks']))")}; do
    start=$(date +%s)
    out=$(VERIF_SEED=$seed ${SWEEP_ENV:-} ./check $id $tier 2>&1); rc=$?
    echo "seed=$seed $id rc=$rc $(( $(date +%s) - start ))s :: $(echo "$out" | grep -E 'VIOLATION|INCONCLUSIVE|  id=' | head -3 | tr '\n' ' ' | cut -c1-300)"
  done
done
