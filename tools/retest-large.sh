#!/bin/bash
# retest-large.sh <seed-dir>... : re-runs internal/ctlog TestSequenceLargeLog alone with each patch
# (it has a 1 s strict timeout inside and fails spuriously on a loaded machine).
export GOFLAGS=-mod=mod GOPROXY=off
for D in "$@"; do
  WT=$(mktemp -d /tmp/vw-XXXXXX)
  git -C /repo worktree add -q --detach "$WT" HEAD
  (cd "$WT" && git apply "$D/patch.diff" && for try in 1 2 3; do if timeout 1500 go test -count=1 -vet=off -run 'TestSequenceLargeLog' ./internal/ctlog/ >> "$D/verify.log" 2>&1; then echo "$D: TestSequenceLargeLog passes alone with the patch (try $try)" | tee -a "$D/verify.log"; break; else echo "$D: TestSequenceLargeLog failed (try $try)"; fi; done)
  git -C /repo worktree remove --force "$WT"; rm -rf "$WT"
done
