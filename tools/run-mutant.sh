#!/bin/bash
# run-mutant.sh <patch.diff> <ID> [<ID>...] : runs the named quick checks
# against a scratch worktree of /repo with the seeded change applied (via
# VERIF_REPO, so /repo itself stays untouched and other work can go on).
# MODE=inplace applies the patch to /repo itself and undoes it afterwards.
set -u
P=$(readlink -f "$1"); shift
cd "$(dirname "$(readlink -f "$0")")/.."
if [ "${MODE:-worktree}" = inplace ]; then
  git -C /repo diff --quiet || { echo "/repo is dirty"; exit 2; }
  git -C /repo apply "$P" || { echo "patch does not apply"; exit 2; }
  trap 'git -C /repo checkout -- . ; git -C /repo clean -fdq' EXIT
else
  WT=$(mktemp -d /tmp/mw-XXXXXX)
  git -C /repo worktree add -q --detach "$WT" HEAD || exit 2
  trap 'git -C /repo worktree remove --force "$WT"; rm -rf "$WT"' EXIT
  git -C "$WT" apply "$P" || { echo "patch does not apply"; exit 2; }
  export VERIF_REPO=$WT
fi
for id in "$@"; do
  out=$(VERIF_EVIDENCE_DIR=${MUTANT_EVIDENCE:-/tmp/mutant-evidence} ./check "$id" ${TIER:-quick} 2>&1); rc=$?
  echo "--- $id rc=$rc"; echo "$out" | grep -E "VIOLATION|id=|KNOWN|INCONCLUSIVE|evaluations=" | cut -c1-400 | head -${LINES_MAX:-12}
done
