#!/bin/sh
# Creates <verif>/harness/_third_party/sqlite (next to this script's parent): a copy of the crawshaw.io/sqlite
# module (from the offline module cache) whose GC finalizer closes a leaked
# connection instead of panicking. LoadLog leaks its two cache connections when
# it fails after opening them; the real server exits at that point, but a
# harness process that calls LoadLog thousands of times would be killed by the
# finalizer's panic. Only the harness build uses this copy; /repo is untouched.
set -e
SRC=/root/go/pkg/mod/crawshaw.io/sqlite@v0.3.3-0.20220618202545-d1964889ea3c
DST="$(cd "$(dirname "$0")/.." && pwd)/harness/_third_party/sqlite"
if [ -f "$DST/.verif-patched" ]; then exit 0; fi
rm -rf "$DST"; mkdir -p "$(dirname "$DST")"
cp -r "$SRC" "$DST"; chmod -R u+w "$DST"
python3 - "$DST/sqlite.go" <<'PY'
import sys
p=sys.argv[1]
s=open(p).read()
old='''		if !conn.closed {
			var buf [20]byte
			panic(file + ":" + string(itoa(buf[:], int64(line))) + ": *sqlite.Conn for " + path + " garbage collected, call Close method")
		}'''
new='''		if !conn.closed {
			// verif: close the leaked handle instead of panicking (see
			// /verif/tools/patch-sqlite.sh).
			_, _ = file, line
			conn.Close()
		}'''
assert old in s
open(p,'w').write(s.replace(old,new))
PY
touch "$DST/.verif-patched"
