#!/usr/bin/env python3
"""matrix-lite.py [id...]: for each seeded change without matrix results, run the workloads of its
relevant checks in ONE process each (tools/dev-mutant.sh: scratch worktree, same tests, same seed,
no sharding, no known-finding filter) and record the violation ids in meta.json as detected_by_lite."""
import json, os, re, subprocess, sys
V = os.path.dirname(os.path.dirname(os.path.abspath(__file__)))
exec(open(os.path.join(V, "check")).read().split("CHECKS = {}")[0].split("def P(")[0])  # imports only
def P(name, test, race=False, shards=(8, 16), timeout=(900, 14400), bins=(), tiers=("quick", "thorough"), strace=False, env=None):
    return dict(name=name, test=test, race=race, bins=bins, tiers=tiers, env=env or {})
CHECKS = {}
exec(open(os.path.join(V, "checks.py")).read())
known = set()
for line in open(os.path.join(V, "known_findings.txt")):
    m = re.match(r"known:\s+property=(\S+)\s+id=(\S+)", line)
    if m: known.add(m.group(2))
ids = sys.argv[1:] or sorted(os.listdir(os.path.join(V, "seeded")))
for mid in ids:
    mp = os.path.join(V, "seeded", mid, "meta.json")
    if not os.path.exists(mp): continue
    meta = json.load(open(mp))
    if "detected_by" in meta or "detected_by_lite" in meta: continue
    res = {}
    for cid in meta.get("relevant_checks") or [meta["property"]]:
        parts = [p for p in CHECKS[cid]["parts"] if "quick" in p["tiers"] and not p["race"] and "VERIF_SYS_RACE" not in p["env"]]
        tests = sorted({p["test"].strip("^$") for p in parts})
        bins = sorted({b for p in parts for b in p["bins"]})
        env = dict(os.environ, DEV_BINS=" ".join(bins), DEV_TAIL="40", VERIF_SYS_PROPERTY=cid)
        out = subprocess.run([os.path.join(V, "tools", "dev-mutant.sh"), os.path.join(V, "seeded", mid, "patch.diff"), "^(" + "|".join(tests) + ")$"],
                             capture_output=True, text=True, env=env).stdout
        vids = sorted({m.group(1) for m in re.finditer(r"VIOLATION (\S+?):? ", out)} - known)
        vids = [v.rstrip(":") for v in vids if v.rstrip(":") not in known]
        res[cid] = vids
    meta["detected_by_lite"] = {c: v for c, v in res.items() if v}
    meta["not_detected_by_lite"] = [c for c, v in res.items() if not v]
    meta["lite_cmd"] = "tools/matrix-lite.py %s  (tools/dev-mutant.sh: the quick workloads of the check in one process, seed 1)" % mid
    json.dump(meta, open(mp, "w"), indent=1)
    print(mid, "lite detected_by", meta["detected_by_lite"], "missed_by", meta["not_detected_by_lite"], flush=True)
