#!/bin/bash
# dev.sh <test-regex> [race] : build the harness once and run one workload in-process (development loop).
# Env: VERIF_TIER, VERIF_SEED, VERIF_SHARD(S), VERIF_REPO.
cd "$(dirname "$(readlink -f "$0")")/.."
. ./goenv.sh
T=${DEV_TMP:-/var/tmp/verif-dev}
mkdir -p $T/scratch $T/bin $T/replays
RACE=""; BIN=$T/h.test
if [ "${2:-}" = race ]; then RACE=-race; BIN=$T/h.race.test; fi
(cd harness && $GO test -c $RACE -tags verif -o $BIN .) || exit 2
rm -f $T/out.jsonl
VERIF_TIER=${VERIF_TIER:-quick} VERIF_OUT=$T/out.jsonl VERIF_TMP=${VERIF_TMP:-/dev/shm/verif-dev} VERIF_BIN=$T/bin VERIF_HARNESS_BIN=$T/h.test VERIF_REPLAY_DIR=$T/replays \
  $BIN -test.run "$1" -test.timeout 0 -test.count 1 -test.v 2>&1 | tail -${DEV_TAIL:-15}
python3 - <<PY
import json
for l in open("$T/out.jsonl"):
    d=json.loads(l)
    print("evals",d["evaluations"],"distinct",len(d.get("distinct_keys") or []),"viol",[ (v["id"],v["msg"][:200]) for v in d["violations"]][:8],"inconcl",d["inconclusive"][:3])
    print({k:v for k,v in sorted(d["counters"].items())})
PY
