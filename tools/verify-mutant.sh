#!/bin/bash
# verify-mutant.sh <seed-dir> : confirms in a scratch worktree that the patch
# compiles, passes the existing suite of the affected packages, and that the
# demonstration fails with the patch and passes without it.
# Writes <seed-dir>/verify.log and prints a one-line summary.
set -u
D=$(readlink -f "$1")
LOG=$D/verify.log
: > "$LOG"
export GOFLAGS=-mod=mod GOPROXY=off
WT=$(mktemp -d /tmp/vw-XXXXXX)
git -C /repo worktree add -q --detach "$WT" HEAD >>"$LOG" 2>&1
cleanup() { chattr -R -i "$WT" 2>/dev/null; git -C /repo worktree remove --force "$WT" >>"$LOG" 2>&1; rm -rf "$WT"; }
trap cleanup EXIT
cd "$WT"
demo=$(ls "$D"/*_test.go 2>/dev/null | head -1)
pkgdir=${2:-internal/ctlog}
if [ -f "$D/pkgdir" ]; then pkgdir=$(cat "$D/pkgdir"); fi
run_demo() { # name
  cp "$demo" "$WT/$pkgdir/zz_demo_test.go"
  tests=$(grep -o '^func Test[A-Za-z0-9_]*' "$demo" | sed 's/func //' | paste -sd'|')
  (cd "$WT" && timeout 900 go test -count=1 -run "^($tests)\$" "./$pkgdir/" ) >>"$LOG" 2>&1
  rc=$?
  rm -f "$WT/$pkgdir/zz_demo_test.go"
  return $rc
}
echo "== demo without patch" >>"$LOG"
run_demo; without=$?
echo "== apply patch" >>"$LOG"
if ! git apply "$D/patch.diff" >>"$LOG" 2>&1; then echo "$D: PATCH DOES NOT APPLY"; exit 1; fi
echo "== build" >>"$LOG"
go build ./... >>"$LOG" 2>&1; build=$?
echo "== demo with patch" >>"$LOG"
run_demo; with=$?
echo "== suite with patch" >>"$LOG"
# cmd/skylight's TestScripts starts the server with `go run` under a 10 s limit: link it once beforehand
if git diff --name-only | grep -q '^cmd/skylight/'; then (cd cmd/skylight && timeout 300 go run . -c /nonexistent >/dev/null 2>&1); fi
pk=$(git diff --name-only | xargs -n1 dirname | sort -u | sed 's|^|./|' | paste -sd' ')
timeout 3000 go test -count=1 -vet=off -skip "^(TestSequenceLargeLog|TestCCADBRoots)\$" $pk >>"$LOG" 2>&1; suite=$?
# TestSequenceLargeLog (1 s internal timeout, load sensitive) and TestCCADBRoots (needs network) are excluded here; tools/retest-large.sh re-runs the former alone
echo "$D: build=$build demo_without=$without(want 0) demo_with=$with(want !=0) suite=$suite(want 0) pkgs=$pk" | tee -a "$LOG"
