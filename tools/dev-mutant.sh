#!/bin/bash
# dev-mutant.sh <patch.diff> <test-regex> [race] : dev.sh against a scratch worktree of /repo with the patch applied.
P=$(readlink -f "$1"); shift
cd "$(dirname "$(readlink -f "$0")")/.."
WT=$(mktemp -d /tmp/dm-XXXXXX)
git -C /repo worktree add -q --detach "$WT" HEAD || exit 2
T=$(mktemp -d /var/tmp/verif-dev-m-XXXXXX); S=/dev/shm/$(basename $T)
trap 'git -C /repo worktree remove --force "$WT"; chattr -R -i "$S" 2>/dev/null; rm -rf "$WT" "$T" "$S"' EXIT
git -C "$WT" apply "$P" || { echo "patch does not apply"; exit 2; }
. ./goenv.sh
mkdir -p $T/bin $T/replays
sed "s|=> /repo|=> $WT|; s|=> ./_third_party|=> $PWD/harness/_third_party|" harness/go.mod > $T/go.mod; cp harness/go.sum $T/go.sum
RACE=""; [ "${2:-}" = race ] && RACE=-race
(cd harness && $GO test -c $RACE -modfile=$T/go.mod -tags verif -o $T/h.test .) || exit 2
for b in ${DEV_BINS:-}; do n=${b%.race}; r=""; [ "$n" != "$b" ] && r=-race; (cd $WT && $GO build $r -o $T/bin/$b ./cmd/$n); done
rm -f $T/out.jsonl; mkdir -p $S
VERIF_TIER=${VERIF_TIER:-quick} VERIF_OUT=$T/out.jsonl VERIF_TMP=$S VERIF_BIN=$T/bin VERIF_HARNESS_BIN=$T/h.test VERIF_REPLAY_DIR=$T/replays \
  $T/h.test -test.run "$1" -test.timeout 0 -test.count 1 -test.v 2>&1 | grep -E "VIOLATION|^---|PASS|FAIL|panic" | cut -c1-300 | head -${DEV_TAIL:-12}
