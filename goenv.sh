# Sourced by ./check and setup: selects the Go toolchain the repository needs
# (go >= 1.25) and the offline module settings.
TC=/root/go/pkg/mod/golang.org/toolchain@v0.0.1-go1.25.0.linux-amd64/bin/go
if [ -x "$TC" ]; then
  export GO="$TC" GOTOOLCHAIN=local GOSUMDB=off
else
  export GO=go
  unset GOTOOLCHAIN GOSUMDB
fi
export GOFLAGS=-mod=mod GOPROXY=off
export AWS_ACCESS_KEY_ID=verif AWS_SECRET_ACCESS_KEY=verif AWS_EC2_METADATA_DISABLED=true AWS_REGION=us-east-1
