#!/usr/bin/env python3
"""Regenerates MANIFEST.json from checks.py (single source of truth)."""
import json, os
VERIF = os.path.dirname(os.path.abspath(__file__))
CHECKS = {}
def P(name, test, race=False, shards=(8, 16), timeout=(900, 14400), bins=(), tiers=("quick", "thorough"), strace=False, env=None):
    return dict(name=name, test=test, race=race, shards=shards, timeout=timeout, bins=bins, tiers=tiers)
NOT_APPLICABLE = {}
exec(open(os.path.join(VERIF, "checks.py")).read())
props = [json.loads(l)["id"] for l in open(os.path.join(VERIF, "properties.jsonl"))]
checks = []
for pid in props:
    if pid not in CHECKS:
        continue
    c = CHECKS[pid]
    checks.append(dict(
        property_id=pid,
        quick_cmd="./check %s quick" % pid,
        thorough_cmd="./check %s thorough" % pid,
        evidence_file="/verif/evidence/%s.json" % pid,
        replay_cmd_template="./check %s quick --replay {path}" % pid,
        engine="harness",
        level_claimed=dict(category=c["level"], text=c["text"], design_ref=c["design_ref"]),
        level_note=c["note"],
        technique=c["technique"],
    ))
na = [dict(property_id=p, reason=NOT_APPLICABLE.get(p, "check not built yet in this session; no claim is made for this property")) for p in props if p not in CHECKS]
hooks_commits = [l.strip() for l in open(os.path.join(VERIF, "MANIFEST.hooks")) if l.strip() and not l.startswith("#")]
m = dict(
    version=1,
    setup_cmd="./setup.sh",
    hooks=dict(
        guard="verif",
        enable="go build tag: the harness is built with `go test -c -tags verif` (module /verif/harness, replace filippo.io/sunlight => /repo)",
        baseline_off_cmd="cd /repo && GOFLAGS=-mod=mod GOPROXY=off go test -json -vet=off -count=1 -timeout 25m ./...",
        source_commits=[c.split()[0] for c in hooks_commits],
        add_only=True,
    ),
    engines=[dict(name="harness", path="/verif/harness", serves_properties=[c["property_id"] for c in checks],
                  kind_free_text="Go test binary (runtime monitors, recorded-history checkers, fault/crash/schedule wrappers at the Backend/LockBackend boundary, Go race detector) driven by /verif/check")],
    checks=checks,
    notes="Runtime monitoring and sanitizers only; see DESIGN.md. Verdicts: held on the executions observed / VIOLATION / INCONCLUSIVE (fails closed).",
    not_applicable=na,
)
json.dump(m, open(os.path.join(VERIF, "MANIFEST.json"), "w"), indent=1)
print("MANIFEST.json: %d checks, %d not claimed" % (len(checks), len(na)))
