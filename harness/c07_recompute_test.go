package verifharness

import (
	"bytes"
	"context"
	"crypto/ecdsa"
	"crypto/elliptic"
	"crypto/sha256"
	"fmt"
	"io"
	"net/http"
	"net/http/httptest"
	"os"
	"os/exec"
	"path/filepath"
	"strings"
	"sync"
	"testing"
	"time"

	"crawshaw.io/sqlite"
	"crawshaw.io/sqlite/sqlitex"
	"filippo.io/keygen"
	"filippo.io/sunlight/internal/ctlog"
	"golang.org/x/crypto/hkdf"
)

// refCacheKey is the deduplication key as the property states it: a 256-bit
// hash over entry type, issuer key hash (precertificates) and certificate, in
// the TLS presentation layout of the RFC 6962 entry.
func refCacheKey(e *RefEntry) [32]byte {
	var b []byte
	if !e.IsPrecert {
		b = putU16(b, 0)
	} else {
		b = putU16(b, 1)
		b = append(b, e.IssuerKeyHash[:]...)
	}
	b = putU24(b, len(e.Cert))
	b = append(b, e.Cert...)
	return sha256.Sum256(b)
}

func logKeyFromSeed(seed []byte) *ecdsa.PrivateKey {
	secret := make([]byte, 32)
	if _, err := io.ReadFull(hkdf.New(sha256.New, seed, []byte("sunlight"), []byte("ECDSA P-256 log key")), secret); err != nil {
		panic(err)
	}
	k, err := keygen.ECDSA(elliptic.P256(), secret)
	if err != nil {
		panic(err)
	}
	return k
}

func verifBin(name string) string {
	return filepath.Join(os.Getenv("VERIF_BIN"), name)
}

// TestC07Recompute: the real recompute-cache binary rebuilds the cache of a log
// on a LocalBackend directory; every row must be the independent key of the
// leaf it points at, and acknowledgements served from it must name their leaf.
func TestC07Recompute(t *testing.T) {
	r := NewRun(t, "C07", "recompute")
	r.Rule = "logs of seeded sizes on a real LocalBackend directory, cache deleted, rebuilt by the built cmd/recompute-cache binary; every cache row is compared with an independent key derivation and the leaf it names, then every entry is resubmitted and the acknowledgement (from the rebuilt cache, or a new leaf for entries in the partial tile) checked against storage; distinct = (tree size, entry index mod 256, source)"
	if _, err := os.Stat(verifBin("recompute-cache")); err != nil {
		r.Inconcl("recompute-cache binary not built: %v", err)
		return
	}
	rng := NewRng(r.Seed, "c07r")
	sizes := []int{256, 300, 513}
	if thorough() {
		sizes = []int{1, 255, 256, 257, 511, 512, 600, 1025}
	}
	for i, size := range sizes {
		if !mine(i) {
			continue
		}
		runRecompute(r, rng.Fork(fmt.Sprint(size)), size)
	}
	if mine(len(sizes)) {
		runRecomputeDuplicates(r, rng.Fork("duplicates"))
	}
	if mine(len(sizes) + 1) {
		runRecomputeParallel(r, rng.Fork("parallel"))
	}
}

func runRecompute(r *Run, rng *Rng, size int) {
	dir, _ := os.MkdirTemp(scratchRoot(), "recompute-")
	logDir := filepath.Join(dir, "log")
	os.MkdirAll(logDir, 0o755)
	seed := rng.Bytes(32)
	seedPath := filepath.Join(dir, "seed.bin")
	os.WriteFile(seedPath, seed, 0o600)
	cache := filepath.Join(dir, "cache.db")
	info := map[string]any{"workload": "recompute-cache", "size": size}
	viol := func(id, f string, a ...any) { r.Violate(id, info, f, a...) }
	w := NewWorld()
	in := NewInst(w, "local")
	backend, err := ctlog.NewLocalBackend(context.Background(), logDir, discardLogger)
	if err != nil {
		panic(err)
	}
	cfg := &ctlog.Config{
		Name: "verif.example/recompute", Key: logKeyFromSeed(seed), WitnessKey: detMLDSA(rng), Cache: cache,
		Backend: backend, Lock: &LockBackend{In: in}, Log: discardLogger,
		NotAfterStart: NewLogEnv(r, rng).NotAfterStart, NotAfterLimit: NewLogEnv(r, rng).NotAfterLimit,
	}
	simAuto.Store(true)
	defer simAuto.Store(false)
	if err := ctlog.CreateLog(context.Background(), cfg); err != nil {
		panic(err)
	}
	l, err := ctlog.LoadLog(context.Background(), cfg)
	if err != nil {
		panic(err)
	}
	var entries []*ctlog.PendingLogEntry
	var truth []*RefEntry
	left := size
	for left > 0 {
		k := min(left, 1+rng.Intn(200))
		var waits []ctlog.VerifWaitEntryFunc
		var pes []*ctlog.PendingLogEntry
		for i := 0; i < k; i++ {
			e := genEntry(rng, cheapShape(rng))
			f, _ := l.VerifAddLeafToPool(context.Background(), e, false)
			waits = append(waits, f)
			pes = append(pes, e)
		}
		if err := l.VerifSequence(context.Background()); err != nil {
			panic(err)
		}
		for i, f := range waits {
			le, err := f(context.Background())
			if err != nil {
				panic(err)
			}
			entries = append(entries, pes[i])
			truth = append(truth, pendingToRef(pes[i], le.LeafIndex, le.Timestamp))
		}
		left -= k
	}
	l.CloseCache()
	os.Remove(cache)
	// run the real tool
	yml := fmt.Sprintf("logs:\n  - shortname: t\n    secret: %s\n    cache: %s\n    localdirectory: %s\n", seedPath, cache, logDir)
	cfgPath := filepath.Join(dir, "sunlight.yaml")
	os.WriteFile(cfgPath, []byte(yml), 0o644)
	cmd := exec.Command(verifBin("recompute-cache"), "-c", cfgPath, "-log", "t")
	out, err := cmd.CombinedOutput()
	if err != nil {
		viol("recompute-cache-failed", "recompute-cache exited with %v: %s", err, lastBytes(out, 400))
		return
	}
	r.Eval(1)
	// inspect the rebuilt cache
	conn, err := sqlite.OpenConn(cache, 0)
	if err != nil {
		viol("recompute-cache-no-db", "cannot open the rebuilt cache: %v", err)
		return
	}
	rows := map[[32]byte][2]int64{}
	sqlitex.Exec(conn, "SELECT key, timestamp, leaf_index FROM cache256", func(stmt *sqlite.Stmt) error {
		var k [32]byte
		stmt.GetBytes("key", k[:])
		rows[k] = [2]int64{stmt.GetInt64("timestamp"), stmt.GetInt64("leaf_index")}
		return nil
	})
	conn.Close()
	full := (size / 256) * 256
	byKey := map[[32]byte]*RefEntry{}
	for _, e := range truth {
		byKey[refCacheKey(e)] = e
	}
	for k, v := range rows {
		e := byKey[k]
		if e == nil {
			viol("recomputed-row-unknown-key", "rebuilt cache holds a key that is not the key of any logged entry (points at index %d)", v[1])
			continue
		}
		if v[0] != e.Timestamp || v[1] != e.LeafIndex {
			viol("recomputed-row-wrong-leaf", "rebuilt cache maps an entry to (index %d, timestamp %d) but it was logged at (index %d, timestamp %d)", v[1], v[0], e.LeafIndex, e.Timestamp)
		}
		r.DistinctKey(fmt.Sprintf("%d/%d/row", size, e.LeafIndex%256))
	}
	for i := 0; i < full; i++ {
		if _, ok := rows[refCacheKey(truth[i])]; !ok {
			viol("recomputed-row-missing", "entry %d (in a full tile) is missing from the rebuilt cache", i)
			break
		}
	}
	r.Count("cache_rows_checked", int64(len(rows)))
	// resubmit everything through a log that uses the rebuilt cache
	l2, err := ctlog.LoadLog(context.Background(), cfg)
	if err != nil {
		viol("restart-failed", "LoadLog with the rebuilt cache failed: %v", err)
		return
	}
	defer l2.CloseCache()
	type pend struct {
		i int
		f ctlog.VerifWaitEntryFunc
	}
	var pending []pend
	for i, e := range entries {
		f, src := l2.VerifAddLeafToPool(context.Background(), cloneEntry(e), false)
		r.Count("resubmit_"+src, 1)
		if src == "cache" {
			le, err := f(context.Background())
			if err != nil {
				viol("recomputed-ack-error", "resubmission served from the rebuilt cache failed: %v", err)
				continue
			}
			if le.LeafIndex != truth[i].LeafIndex || le.Timestamp != truth[i].Timestamp {
				viol("recomputed-ack-wrong", "resubmission of entry %d acknowledged from the rebuilt cache as (index %d, timestamp %d), logged at (index %d, timestamp %d)", i, le.LeafIndex, le.Timestamp, truth[i].LeafIndex, truth[i].Timestamp)
			}
			r.DistinctKey(fmt.Sprintf("%d/%d/cache", size, i%256))
		} else {
			if i < full {
				viol("recomputed-miss", "entry %d is in a full tile but was not served from the rebuilt cache (source %s)", i, src)
			}
			pending = append(pending, pend{i, f})
		}
	}
	l2.VerifSequence(context.Background())
	for _, p := range pending {
		p.f(context.Background())
	}
}

func lastBytes(b []byte, n int) string {
	if len(b) > n {
		b = b[len(b)-n:]
	}
	return string(b)
}

// recomputeFixture builds a log on a LocalBackend directory with the real
// sequencer and keeps the instance open.
type recomputeFixture struct {
	dir, logDir, cache, cfgPath string
	cfg                         *ctlog.Config
	l                           *ctlog.Log
	occ                         map[[32]byte][]*RefEntry // identity key -> leaves holding it
}

func newRecomputeFixture(r *Run, rng *Rng) *recomputeFixture {
	f := &recomputeFixture{occ: map[[32]byte][]*RefEntry{}}
	f.dir, _ = os.MkdirTemp(scratchRoot(), "recompute-")
	f.logDir = filepath.Join(f.dir, "log")
	os.MkdirAll(f.logDir, 0o755)
	seed := rng.Bytes(32)
	seedPath := filepath.Join(f.dir, "seed.bin")
	os.WriteFile(seedPath, seed, 0o600)
	f.cache = filepath.Join(f.dir, "cache.db")
	backend, err := ctlog.NewLocalBackend(context.Background(), f.logDir, discardLogger)
	if err != nil {
		panic(err)
	}
	env := NewLogEnv(r, rng)
	defer env.Cleanup()
	f.cfg = &ctlog.Config{
		Name: "verif.example/recompute", Key: logKeyFromSeed(seed), WitnessKey: detMLDSA(rng), Cache: f.cache,
		Backend: backend, Lock: &LockBackend{In: NewInst(NewWorld(), "local")}, Log: discardLogger,
		NotAfterStart: env.NotAfterStart, NotAfterLimit: env.NotAfterLimit,
	}
	if err := ctlog.CreateLog(context.Background(), f.cfg); err != nil {
		panic(err)
	}
	f.reload()
	yml := fmt.Sprintf("logs:\n  - shortname: t\n    secret: %s\n    cache: %s\n    localdirectory: %s\n", seedPath, f.cache, f.logDir)
	f.cfgPath = filepath.Join(f.dir, "sunlight.yaml")
	os.WriteFile(f.cfgPath, []byte(yml), 0o644)
	return f
}

func (f *recomputeFixture) reload() {
	if f.l != nil {
		f.l.CloseCache()
	}
	l, err := ctlog.LoadLog(context.Background(), f.cfg)
	if err != nil {
		panic(err)
	}
	f.l = l
}

func (f *recomputeFixture) close() {
	if f.l != nil {
		f.l.CloseCache()
	}
	unlockTree(f.dir)
	os.RemoveAll(f.dir)
}

// round submits the entries and sequences them; returns (source, leaf) per entry.
func (f *recomputeFixture) round(es []*ctlog.PendingLogEntry) ([]string, []*RefEntry) {
	var waits []ctlog.VerifWaitEntryFunc
	var srcs []string
	for _, e := range es {
		w, src := f.l.VerifAddLeafToPool(context.Background(), cloneEntry(e), false)
		waits, srcs = append(waits, w), append(srcs, src)
	}
	if err := f.l.VerifSequence(context.Background()); err != nil {
		panic(err)
	}
	out := make([]*RefEntry, len(es))
	for i, w := range waits {
		le, err := w(context.Background())
		if err != nil {
			continue
		}
		out[i] = pendingToRef(es[i], le.LeafIndex, le.Timestamp)
		if srcs[i] == "sequencer" {
			k := refCacheKey(out[i])
			f.occ[k] = append(f.occ[k], out[i])
		}
	}
	return srcs, out
}

func (f *recomputeFixture) rows() map[[32]byte][2]int64 {
	rows := map[[32]byte][2]int64{}
	conn, err := sqlite.OpenConn(f.cache, 0)
	if err != nil {
		return rows
	}
	defer conn.Close()
	sqlitex.Exec(conn, "SELECT key, timestamp, leaf_index FROM cache256", func(stmt *sqlite.Stmt) error {
		var k [32]byte
		stmt.GetBytes("key", k[:])
		rows[k] = [2]int64{stmt.GetInt64("timestamp"), stmt.GetInt64("leaf_index")}
		return nil
	})
	return rows
}

// runRecomputeDuplicates: the log holds duplicate leaves (the cache was lost
// between two submissions of the same entries) and the tool runs on the LIVE,
// non-empty cache: every row must still name one leaf that holds that entry
// with that timestamp.
func runRecomputeDuplicates(r *Run, rng *Rng) {
	f := newRecomputeFixture(r, rng)
	defer f.close()
	info := map[string]any{"workload": "recompute-cache-duplicates-live-cache"}
	viol := func(id, format string, a ...any) { r.Violate(id, info, format, a...) }
	simAuto.Store(true)
	defer simAuto.Store(false)
	var first []*ctlog.PendingLogEntry
	for i := 0; i < 300; i++ {
		first = append(first, genEntry(rng, cheapShape(rng)))
	}
	f.round(first[:200])
	f.round(first[200:])
	// cache loss, then some of them again (tolerated duplicates), plus new ones
	f.l.CloseCache()
	f.l = nil
	os.Remove(f.cache)
	f.reload()
	var again []*ctlog.PendingLogEntry
	for i := 0; i < 40; i++ {
		again = append(again, first[rng.Intn(len(first))])
	}
	for i := 0; i < 30; i++ {
		again = append(again, genEntry(rng, cheapShape(rng)))
	}
	f.round(again)
	f.l.CloseCache()
	f.l = nil
	out, err := exec.Command(verifBin("recompute-cache"), "-c", f.cfgPath, "-log", "t").CombinedOutput()
	if err != nil {
		viol("recompute-cache-failed", "recompute-cache exited with %v: %s", err, lastBytes(out, 400))
		return
	}
	r.Eval(1)
	dups := 0
	for k, v := range f.rows() {
		occ := f.occ[k]
		if len(occ) > 1 {
			dups++
		}
		ok := false
		for _, e := range occ {
			ok = ok || (e.Timestamp == v[0] && e.LeafIndex == v[1])
		}
		if !ok {
			viol("recomputed-row-wrong-leaf", "after the tool ran on a live cache, a row maps an entry to (index %d, timestamp %d), which is none of the %d leaves holding that entry", v[1], v[0], len(occ))
		}
	}
	r.DistinctKey(fmt.Sprintf("recompute-duplicates/dups>0=%v", dups > 0))
	r.Count("recompute_rows_with_duplicate_leaves", int64(dups))
	// acknowledgements from that cache name a real leaf
	f.reload()
	for _, e := range append(append([]*ctlog.PendingLogEntry{}, first[:40]...), again...) {
		w, src := f.l.VerifAddLeafToPool(context.Background(), cloneEntry(e), false)
		if src != "cache" {
			continue
		}
		le, err := w(context.Background())
		if err != nil {
			continue
		}
		ok := false
		for _, o := range f.occ[refCacheKey(pendingToRef(e, 0, 0))] {
			ok = ok || (o.LeafIndex == le.LeafIndex && o.Timestamp == le.Timestamp)
		}
		if !ok {
			viol("recomputed-ack-wrong", "a resubmission was acknowledged from the cache as (index %d, timestamp %d), which is no leaf holding that entry", le.LeafIndex, le.Timestamp)
		}
		r.Count("resubmit_cache_after_duplicates", 1)
	}
}

// runRecomputeParallel: the tool runs IN PARALLEL with production (its
// documented use) against the live cache, reading the log through a monitoring
// prefix served by the harness, which holds the request for the 51st data tile
// (the client fetches tiles in batches of 50): the tool sits in the middle of
// its run, rows of the first batch written, for as long as a sequencing round
// of the running log needs. An entry acknowledged meanwhile must be answered
// from the cache when resubmitted.
func runRecomputeParallel(r *Run, rng *Rng) {
	f := newRecomputeFixture(r, rng)
	defer f.close()
	info := map[string]any{"workload": "recompute-cache-in-parallel-with-production"}
	viol := func(id, format string, a ...any) { r.Violate(id, info, format, a...) }
	simAuto.Store(true)
	defer simAuto.Store(false)
	total := 51*256 + 44
	for done := 0; done < total; {
		k := min(total-done, 2000+rng.Intn(1500))
		es := make([]*ctlog.PendingLogEntry, k)
		for i := range es {
			es[i] = genEntry(rng, ShapeBlobX509)
		}
		f.round(es)
		done += k
	}
	held, release := make(chan struct{}, 1), make(chan struct{})
	var once sync.Once
	fs := http.FileServer(http.Dir(f.logDir))
	srv := httptest.NewServer(http.HandlerFunc(func(w http.ResponseWriter, q *http.Request) {
		if strings.HasSuffix(q.URL.Path, "/tile/data/050") {
			once.Do(func() { held <- struct{}{} })
			select {
			case <-release:
			case <-q.Context().Done():
				return
			}
		}
		if strings.Contains(q.URL.Path, "/tile/data/") || strings.Contains(q.URL.Path, "/tile/names/") {
			w.Header().Set("Content-Encoding", "gzip")
		}
		fs.ServeHTTP(w, q)
	}))
	defer srv.Close()
	seedPath := filepath.Join(f.dir, "seed.bin")
	yml := fmt.Sprintf("logs:\n  - shortname: t\n    secret: %s\n    cache: %s\n    monitoringprefix: %s\n", seedPath, f.cache, srv.URL)
	cfgPath := filepath.Join(f.dir, "sunlight-http.yaml")
	os.WriteFile(cfgPath, []byte(yml), 0o644)
	tool := exec.Command(verifBin("recompute-cache"), "-c", cfgPath, "-log", "t")
	var toolOut bytes.Buffer
	tool.Stdout, tool.Stderr = &toolOut, &toolOut
	if err := tool.Start(); err != nil {
		r.Inconcl("cannot start the tool: %v", err)
		return
	}
	toolDone := make(chan error, 1)
	go func() { toolDone <- tool.Wait() }()
	select {
	case <-held:
	case err := <-toolDone:
		viol("recompute-cache-failed", "recompute-cache (over the monitoring prefix) ended before reaching the 51st data tile: %v: %s", err, lastBytes(toolOut.Bytes(), 400))
		return
	case <-time.After(120 * time.Second):
		tool.Process.Kill()
		r.Inconcl("the tool did not reach the 51st data tile")
		return
	}
	time.Sleep(300 * time.Millisecond) // the rows of the first batch are being written
	y := genEntry(rng, ShapeBlobX509)
	t0 := time.Now()
	_, leaves := f.round([]*ctlog.PendingLogEntry{y})
	info["round_next_to_tool_ms"] = time.Since(t0).Milliseconds()
	r.Eval(1)
	close(release)
	select {
	case err := <-toolDone:
		if err != nil {
			viol("recompute-cache-failed", "recompute-cache (in parallel with production) exited with %v: %s", err, lastBytes(toolOut.Bytes(), 400))
			return
		}
	case <-time.After(180 * time.Second):
		tool.Process.Kill()
		r.Inconcl("the tool did not finish")
		return
	}
	if leaves[0] == nil {
		viol("production-round-failed-next-to-tool", "a submission sequenced while the tool was running was not acknowledged")
		return
	}
	w, src := f.l.VerifAddLeafToPool(context.Background(), cloneEntry(y), false)
	r.DistinctKey("recompute-parallel/resubmission-source=" + src)
	if src == "sequencer" {
		viol("acked-entry-readmitted", "an entry acknowledged while recompute-cache was running in parallel was admitted as a new leaf when resubmitted (no cache loss occurred; its round took %d ms)", info["round_next_to_tool_ms"])
		f.l.VerifSequence(context.Background())
	}
	if le, err := w(context.Background()); err == nil && (le.LeafIndex != leaves[0].LeafIndex || le.Timestamp != leaves[0].Timestamp) {
		viol("different-acks-for-one-entry", "an entry acknowledged while recompute-cache was running got (index %d, timestamp %d) first and (index %d, timestamp %d) on resubmission", leaves[0].LeafIndex, leaves[0].Timestamp, le.LeafIndex, le.Timestamp)
	}
	r.Count("recompute_parallel_runs", 1)
}
