package verifharness

import (
	"context"
	"crypto/ecdsa"
	"crypto/elliptic"
	"crypto/sha256"
	"fmt"
	"io"
	"os"
	"os/exec"
	"path/filepath"
	"testing"

	"crawshaw.io/sqlite"
	"crawshaw.io/sqlite/sqlitex"
	"filippo.io/keygen"
	"filippo.io/sunlight/internal/ctlog"
	"golang.org/x/crypto/hkdf"
)

// refCacheKey is the deduplication key as the property states it: a 256-bit
// hash over entry type, issuer key hash (precertificates) and certificate, in
// the TLS presentation layout of the RFC 6962 entry.
func refCacheKey(e *RefEntry) [32]byte {
	var b []byte
	if !e.IsPrecert {
		b = putU16(b, 0)
	} else {
		b = putU16(b, 1)
		b = append(b, e.IssuerKeyHash[:]...)
	}
	b = putU24(b, len(e.Cert))
	b = append(b, e.Cert...)
	return sha256.Sum256(b)
}

func logKeyFromSeed(seed []byte) *ecdsa.PrivateKey {
	secret := make([]byte, 32)
	if _, err := io.ReadFull(hkdf.New(sha256.New, seed, []byte("sunlight"), []byte("ECDSA P-256 log key")), secret); err != nil {
		panic(err)
	}
	k, err := keygen.ECDSA(elliptic.P256(), secret)
	if err != nil {
		panic(err)
	}
	return k
}

func verifBin(name string) string {
	return filepath.Join(os.Getenv("VERIF_BIN"), name)
}

// TestC07Recompute: the real recompute-cache binary rebuilds the cache of a log
// on a LocalBackend directory; every row must be the independent key of the
// leaf it points at, and acknowledgements served from it must name their leaf.
func TestC07Recompute(t *testing.T) {
	r := NewRun(t, "C07", "recompute")
	r.Rule = "logs of seeded sizes on a real LocalBackend directory, cache deleted, rebuilt by the built cmd/recompute-cache binary; every cache row is compared with an independent key derivation and the leaf it names, then every entry is resubmitted and the acknowledgement (from the rebuilt cache, or a new leaf for entries in the partial tile) checked against storage; distinct = (tree size, entry index mod 256, source)"
	if _, err := os.Stat(verifBin("recompute-cache")); err != nil {
		r.Inconcl("recompute-cache binary not built: %v", err)
		return
	}
	rng := NewRng(r.Seed, "c07r")
	sizes := []int{256, 300, 513}
	if thorough() {
		sizes = []int{1, 255, 256, 257, 511, 512, 600, 1025}
	}
	for i, size := range sizes {
		if !mine(i) {
			continue
		}
		runRecompute(r, rng.Fork(fmt.Sprint(size)), size)
	}
}

func runRecompute(r *Run, rng *Rng, size int) {
	dir, _ := os.MkdirTemp(scratchRoot(), "recompute-")
	logDir := filepath.Join(dir, "log")
	os.MkdirAll(logDir, 0o755)
	seed := rng.Bytes(32)
	seedPath := filepath.Join(dir, "seed.bin")
	os.WriteFile(seedPath, seed, 0o600)
	cache := filepath.Join(dir, "cache.db")
	info := map[string]any{"workload": "recompute-cache", "size": size}
	viol := func(id, f string, a ...any) { r.Violate(id, info, f, a...) }
	w := NewWorld()
	in := NewInst(w, "local")
	backend, err := ctlog.NewLocalBackend(context.Background(), logDir, discardLogger)
	if err != nil {
		panic(err)
	}
	cfg := &ctlog.Config{
		Name: "verif.example/recompute", Key: logKeyFromSeed(seed), WitnessKey: detMLDSA(rng), Cache: cache,
		Backend: backend, Lock: &LockBackend{In: in}, Log: discardLogger,
		NotAfterStart: NewLogEnv(r, rng).NotAfterStart, NotAfterLimit: NewLogEnv(r, rng).NotAfterLimit,
	}
	simAuto.Store(true)
	defer simAuto.Store(false)
	if err := ctlog.CreateLog(context.Background(), cfg); err != nil {
		panic(err)
	}
	l, err := ctlog.LoadLog(context.Background(), cfg)
	if err != nil {
		panic(err)
	}
	var entries []*ctlog.PendingLogEntry
	var truth []*RefEntry
	left := size
	for left > 0 {
		k := min(left, 1+rng.Intn(200))
		var waits []ctlog.VerifWaitEntryFunc
		var pes []*ctlog.PendingLogEntry
		for i := 0; i < k; i++ {
			e := genEntry(rng, cheapShape(rng))
			f, _ := l.VerifAddLeafToPool(context.Background(), e, false)
			waits = append(waits, f)
			pes = append(pes, e)
		}
		if err := l.VerifSequence(context.Background()); err != nil {
			panic(err)
		}
		for i, f := range waits {
			le, err := f(context.Background())
			if err != nil {
				panic(err)
			}
			entries = append(entries, pes[i])
			truth = append(truth, pendingToRef(pes[i], le.LeafIndex, le.Timestamp))
		}
		left -= k
	}
	l.CloseCache()
	os.Remove(cache)
	// run the real tool
	yml := fmt.Sprintf("logs:\n  - shortname: t\n    secret: %s\n    cache: %s\n    localdirectory: %s\n", seedPath, cache, logDir)
	cfgPath := filepath.Join(dir, "sunlight.yaml")
	os.WriteFile(cfgPath, []byte(yml), 0o644)
	cmd := exec.Command(verifBin("recompute-cache"), "-c", cfgPath, "-log", "t")
	out, err := cmd.CombinedOutput()
	if err != nil {
		viol("recompute-cache-failed", "recompute-cache exited with %v: %s", err, lastBytes(out, 400))
		return
	}
	r.Eval(1)
	// inspect the rebuilt cache
	conn, err := sqlite.OpenConn(cache, 0)
	if err != nil {
		viol("recompute-cache-no-db", "cannot open the rebuilt cache: %v", err)
		return
	}
	rows := map[[32]byte][2]int64{}
	sqlitex.Exec(conn, "SELECT key, timestamp, leaf_index FROM cache256", func(stmt *sqlite.Stmt) error {
		var k [32]byte
		stmt.GetBytes("key", k[:])
		rows[k] = [2]int64{stmt.GetInt64("timestamp"), stmt.GetInt64("leaf_index")}
		return nil
	})
	conn.Close()
	full := (size / 256) * 256
	byKey := map[[32]byte]*RefEntry{}
	for _, e := range truth {
		byKey[refCacheKey(e)] = e
	}
	for k, v := range rows {
		e := byKey[k]
		if e == nil {
			viol("recomputed-row-unknown-key", "rebuilt cache holds a key that is not the key of any logged entry (points at index %d)", v[1])
			continue
		}
		if v[0] != e.Timestamp || v[1] != e.LeafIndex {
			viol("recomputed-row-wrong-leaf", "rebuilt cache maps an entry to (index %d, timestamp %d) but it was logged at (index %d, timestamp %d)", v[1], v[0], e.LeafIndex, e.Timestamp)
		}
		r.DistinctKey(fmt.Sprintf("%d/%d/row", size, e.LeafIndex%256))
	}
	for i := 0; i < full; i++ {
		if _, ok := rows[refCacheKey(truth[i])]; !ok {
			viol("recomputed-row-missing", "entry %d (in a full tile) is missing from the rebuilt cache", i)
			break
		}
	}
	r.Count("cache_rows_checked", int64(len(rows)))
	// resubmit everything through a log that uses the rebuilt cache
	l2, err := ctlog.LoadLog(context.Background(), cfg)
	if err != nil {
		viol("restart-failed", "LoadLog with the rebuilt cache failed: %v", err)
		return
	}
	defer l2.CloseCache()
	type pend struct {
		i int
		f ctlog.VerifWaitEntryFunc
	}
	var pending []pend
	for i, e := range entries {
		f, src := l2.VerifAddLeafToPool(context.Background(), cloneEntry(e), false)
		r.Count("resubmit_"+src, 1)
		if src == "cache" {
			le, err := f(context.Background())
			if err != nil {
				viol("recomputed-ack-error", "resubmission served from the rebuilt cache failed: %v", err)
				continue
			}
			if le.LeafIndex != truth[i].LeafIndex || le.Timestamp != truth[i].Timestamp {
				viol("recomputed-ack-wrong", "resubmission of entry %d acknowledged from the rebuilt cache as (index %d, timestamp %d), logged at (index %d, timestamp %d)", i, le.LeafIndex, le.Timestamp, truth[i].LeafIndex, truth[i].Timestamp)
			}
			r.DistinctKey(fmt.Sprintf("%d/%d/cache", size, i%256))
		} else {
			if i < full {
				viol("recomputed-miss", "entry %d is in a full tile but was not served from the rebuilt cache (source %s)", i, src)
			}
			pending = append(pending, pend{i, f})
		}
	}
	l2.VerifSequence(context.Background())
	for _, p := range pending {
		p.f(context.Background())
	}
}

func lastBytes(b []byte, n int) string {
	if len(b) > n {
		b = b[len(b)-n:]
	}
	return string(b)
}
