package verifharness

// A central scheduler for interleaving several instances at storage/lock
// operation granularity: every backend call of a scheduled instance waits at
// the gate until the scheduler lets exactly that call proceed, and the
// scheduler waits for the call to complete before taking its next step.

import (
	"sort"
	"sync"
	"time"
)

type gateCall struct {
	c    *Call
	inst int
	go_  chan struct{}
}

type Scheduler struct {
	mu      sync.Mutex
	cond    *sync.Cond
	waiting []*gateCall
	done    map[int]bool // instance finished its activity
	active  int          // calls released and not yet completed
	Trace   []string
}

func NewScheduler() *Scheduler {
	s := &Scheduler{done: map[int]bool{}}
	s.cond = sync.NewCond(&s.mu)
	return s
}

// Attach wraps the instance's plan so that its calls pass through the gate.
func (s *Scheduler) Attach(in *Inst, id int) {
	prev := in.Plan
	in.Plan = func(c *Call) Decision {
		d := decideOK
		if prev != nil {
			d = prev(c)
		}
		g := &gateCall{c: c, inst: id, go_: make(chan struct{})}
		d.Gate = func() {
			s.mu.Lock()
			s.waiting = append(s.waiting, g)
			s.cond.Broadcast()
			s.mu.Unlock()
			<-g.go_
		}
		return d
	}
	prevTrace := in.Trace
	in.Trace = func(c *Call) {
		if prevTrace != nil {
			prevTrace(c)
		}
		s.mu.Lock()
		s.active--
		s.cond.Broadcast()
		s.mu.Unlock()
	}
}

func (s *Scheduler) Finished(id int) {
	s.mu.Lock()
	s.done[id] = true
	s.cond.Broadcast()
	s.mu.Unlock()
}

// Step lets one waiting call of instance id proceed (the one with the smallest
// key, for determinism) and waits until it completed. It returns false if the
// instance finished without issuing another call. settle is how long the
// instance is given to either arrive at the gate or finish.
func (s *Scheduler) Step(id int, settle time.Duration) (string, bool) {
	deadline := time.Now().Add(settle)
	s.mu.Lock()
	defer s.mu.Unlock()
	for {
		var mine []*gateCall
		for _, g := range s.waiting {
			if g.inst == id {
				mine = append(mine, g)
			}
		}
		if len(mine) > 0 && s.active == 0 {
			// Let a parallel batch assemble fully before choosing: wait a
			// moment for stragglers only if the instance is not finished.
			sort.Slice(mine, func(i, j int) bool {
				return opKey(mine[i].c)+mine[i].c.Kind.String() < opKey(mine[j].c)+mine[j].c.Kind.String()
			})
			g := mine[0]
			for i, x := range s.waiting {
				if x == g {
					s.waiting = append(s.waiting[:i], s.waiting[i+1:]...)
					break
				}
			}
			s.active++
			close(g.go_)
			desc := g.c.Kind.String() + ":" + keyClass(opKey(g.c))
			s.Trace = append(s.Trace, string(rune('A'+id))+":"+desc)
			for s.active > 0 {
				s.cond.Wait()
			}
			return desc, true
		}
		if s.done[id] && len(mine) == 0 {
			return "", false
		}
		if time.Now().After(deadline) {
			return "", false
		}
		// wait for an arrival / completion, with a periodic wake-up
		t := time.AfterFunc(5*time.Millisecond, func() { s.mu.Lock(); s.cond.Broadcast(); s.mu.Unlock() })
		s.cond.Wait()
		t.Stop()
	}
}

// Drain releases everything still waiting (end of a case).
func (s *Scheduler) Drain() {
	s.mu.Lock()
	for _, g := range s.waiting {
		close(g.go_)
	}
	s.waiting = nil
	s.mu.Unlock()
}
