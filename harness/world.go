package verifharness

// Ground-truth stores and the recording / fault / crash / gate wrappers that
// implement ctlog.Backend and ctlog.LockBackend. All monitors run under the
// World mutex, at the instant an effect is applied, so the monitor state is
// updated atomically with the state it shadows.

import (
	"bytes"
	"context"
	"crypto/sha256"
	"errors"
	"fmt"
	"runtime"
	"strings"
	"sync"
	"sync/atomic"
	"time"

	"filippo.io/sunlight/internal/ctlog"
	"github.com/prometheus/client_golang/prometheus"
)

type OpKind int

const (
	OpUpload OpKind = iota
	OpFetch
	OpDiscard
	OpLockFetch
	OpLockReplace
	OpLockCreate
)

func (k OpKind) String() string {
	return [...]string{"upload", "fetch", "discard", "lock-fetch", "lock-replace", "lock-create"}[k]
}

type ObjVersion struct {
	Data     []byte
	Opts     ctlog.UploadOptions
	IssueSeq int64 // sequence number when the upload was issued
	Seq      int64 // sequence number when the effect was applied
	DoneSeq  int64 // sequence number when the call returned to the caller (0: never)
	Deleted  bool
	By       string
}

type LockVersion struct {
	Data []byte
	Seq  int64
	By   string
}

// Call describes one backend call, as seen by plans and monitors.
type Call struct {
	Inst     *Inst
	Idx      int // per-instance call index, in issue order
	Kind     OpKind
	Key      string   // object key
	NS       string   // object-store namespace of the calling instance ("" = the log's bucket)
	LogID    [32]byte // lock key
	Data     []byte
	Old      []byte // Replace: expected old value
	Opts     ctlog.UploadOptions
	IssueSeq int64
	// Filled at completion:
	Applied bool
	Seq     int64
	Err     error
}

func (c *Call) String() string {
	switch c.Kind {
	case OpUpload, OpFetch, OpDiscard:
		return fmt.Sprintf("%s#%d %s %s", c.Inst.Name, c.Idx, c.Kind, c.Key)
	default:
		return fmt.Sprintf("%s#%d %s %x", c.Inst.Name, c.Idx, c.Kind, c.LogID[:4])
	}
}

// Decision is what a plan wants to happen to a call.
type Decision struct {
	Apply bool  // apply the effect to the store
	Err   error // returned to the caller (after the effect, if Apply)
	Park  bool  // the process dies here: (maybe) apply, then never return
	// FetchData, if HasFetchData, is what a Fetch returns instead of the stored
	// object (storage that answers differently from one read to the next).
	FetchData    []byte
	HasFetchData bool
	// Gate, if set, is called outside the world mutex before anything else.
	Gate func()

	zombie bool
}

var decideOK = Decision{Apply: true}

type World struct {
	mu    sync.Mutex
	seq   int64
	Objs  map[string][]ObjVersion
	Locks map[[32]byte][]LockVersion
	// Monitors are called under mu after every applied or failed call.
	Monitors []func(w *World, c *Call)
	// strictImmutable makes the store refuse differing immutable rewrites like
	// LocalBackend does (default: S3-like blind overwrite, monitor flags it).
	StrictImmutable bool
	ops             atomic.Int64
}

func NewWorld() *World {
	return &World{Objs: make(map[string][]ObjVersion), Locks: make(map[[32]byte][]LockVersion)}
}

// Clone forks the persisted state (not the monitors).
func (w *World) Clone() *World {
	w.mu.Lock()
	defer w.mu.Unlock()
	n := NewWorld()
	n.seq = w.seq
	n.StrictImmutable = w.StrictImmutable
	for k, v := range w.Objs {
		n.Objs[k] = append([]ObjVersion(nil), v...)
	}
	for k, v := range w.Locks {
		n.Locks[k] = append([]LockVersion(nil), v...)
	}
	return n
}

func (w *World) Seq() int64 {
	w.mu.Lock()
	defer w.mu.Unlock()
	return w.seq
}

func (w *World) Ops() int64 { return w.ops.Load() }

// cur returns the live version of key, or nil. Caller holds mu.
func (w *World) cur(key string) *ObjVersion {
	v := w.Objs[key]
	if len(v) == 0 || v[len(v)-1].Deleted {
		return nil
	}
	return &v[len(v)-1]
}

// Get reads the live object outside of any instance (harness inspection).
func (w *World) Get(key string) ([]byte, bool) {
	w.mu.Lock()
	defer w.mu.Unlock()
	if v := w.cur(key); v != nil {
		return v.Data, true
	}
	return nil, false
}

// GetAsOf returns the version of key that was readable at sequence number seq.
func (w *World) GetAsOf(key string, seq int64) ([]byte, bool) {
	w.mu.Lock()
	defer w.mu.Unlock()
	vs := w.Objs[key]
	for i := len(vs) - 1; i >= 0; i-- {
		if vs[i].Seq <= seq {
			if vs[i].Deleted {
				return nil, false
			}
			return vs[i].Data, true
		}
	}
	return nil, false
}

func (w *World) Keys() []string {
	w.mu.Lock()
	defer w.mu.Unlock()
	var out []string
	for k := range w.Objs {
		if w.cur(k) != nil {
			out = append(out, k)
		}
	}
	return out
}

// Tamper primitives (harness side, not through an instance).
func (w *World) Put(key string, data []byte) {
	w.mu.Lock()
	defer w.mu.Unlock()
	w.seq++
	var opts ctlog.UploadOptions
	if v := w.cur(key); v != nil {
		opts = v.Opts
	}
	w.Objs[key] = append(w.Objs[key], ObjVersion{Data: data, Opts: opts, IssueSeq: w.seq, Seq: w.seq, DoneSeq: w.seq, By: "tamper"})
}

func (w *World) Delete(key string) {
	w.mu.Lock()
	defer w.mu.Unlock()
	w.seq++
	w.Objs[key] = append(w.Objs[key], ObjVersion{Deleted: true, IssueSeq: w.seq, Seq: w.seq, By: "tamper"})
}

// CopyBucket copies the live objects of bucket from (a key prefix, "" = the
// log's own bucket, which must not contain other buckets' keys with prefix
// skip) into bucket to, as a backup/restore or bucket migration would.
func (w *World) CopyBucket(from, to string, keep func(key string) bool) int {
	w.mu.Lock()
	defer w.mu.Unlock()
	n := 0
	for k := range w.Objs {
		if !strings.HasPrefix(k, from) || (from == "" && strings.Contains(k, "!/")) {
			continue
		}
		v := w.cur(k)
		if v == nil || (keep != nil && !keep(k[len(from):])) {
			continue
		}
		w.seq++
		w.Objs[to+k[len(from):]] = append(w.Objs[to+k[len(from):]], ObjVersion{Data: v.Data, Opts: v.Opts, IssueSeq: w.seq, Seq: w.seq, DoneSeq: w.seq, By: "copy"})
		n++
	}
	return n
}

func (w *World) Versions(key string) []ObjVersion {
	w.mu.Lock()
	defer w.mu.Unlock()
	return append([]ObjVersion(nil), w.Objs[key]...)
}

func (w *World) LockGet(id [32]byte) ([]byte, bool) {
	w.mu.Lock()
	defer w.mu.Unlock()
	v := w.Locks[id]
	if len(v) == 0 {
		return nil, false
	}
	return v[len(v)-1].Data, true
}

func (w *World) LockSet(id [32]byte, data []byte) {
	w.mu.Lock()
	defer w.mu.Unlock()
	w.seq++
	w.Locks[id] = append(w.Locks[id], LockVersion{Data: data, Seq: w.seq, By: "tamper"})
}

func (w *World) LockHistory(id [32]byte) []LockVersion {
	w.mu.Lock()
	defer w.mu.Unlock()
	return append([]LockVersion(nil), w.Locks[id]...)
}

// ---- instances -------------------------------------------------------------

// Inst is one simulated process attached to a World: its backends share a plan,
// a call counter and a life.
type Inst struct {
	W    *World
	Name string
	// Plan decides each call; nil means everything succeeds. Called under W.mu.
	Plan func(c *Call) Decision
	// Trace, if non-nil, receives every completed call (under W.mu).
	Trace func(c *Call)

	idx      int
	dead     bool
	deadSeq  int64
	parked   int
	release  chan struct{}
	parkedCh chan struct{} // signalled on every park
	delay    func(c *Call) // optional, outside mutex (for -race stress)
	// HonorCtx makes calls fail with ctx.Err() when the caller's context is
	// done. Off by default: the stores are instantaneous and the sequencer's
	// one-second strict timeouts would otherwise inject wall-clock-dependent
	// faults on a loaded machine.
	HonorCtx bool
	cache    string // private cache path override (LogEnv.LoadCache)
	// NS is prefixed to every object key of this instance: a second bucket
	// (misconfigured or restored object storage) next to the shared lock store.
	NS string
}

func NewInst(w *World, name string) *Inst {
	return &Inst{W: w, Name: name, release: make(chan struct{}), parkedCh: make(chan struct{}, 1024)}
}

func (in *Inst) Dead() bool {
	in.W.mu.Lock()
	defer in.W.mu.Unlock()
	return in.dead
}

func (in *Inst) DeadSeq() int64 {
	in.W.mu.Lock()
	defer in.W.mu.Unlock()
	return in.deadSeq
}

func (in *Inst) Parked() int {
	in.W.mu.Lock()
	defer in.W.mu.Unlock()
	return in.parked
}

// Kill marks the instance dead without parking anything (crash between calls).
func (in *Inst) Kill() {
	in.W.mu.Lock()
	defer in.W.mu.Unlock()
	if !in.dead {
		in.dead = true
		in.deadSeq = in.W.seq
	}
}

// WaitParked waits until n calls of this instance are parked.
func (in *Inst) WaitParked(n int, d time.Duration) bool {
	deadline := time.After(d)
	for {
		if in.Parked() >= n {
			return true
		}
		select {
		case <-in.parkedCh:
		case <-deadline:
			return in.Parked() >= n
		case <-time.After(10 * time.Millisecond):
		}
	}
}

// Release lets every parked goroutine of a dead instance unwind with
// runtime.Goexit (deferred functions run, nothing else does; every further
// backend call of the instance exits its goroutine immediately, with no effect).
func (in *Inst) Release() {
	in.W.mu.Lock()
	if !in.dead {
		in.dead = true
		in.deadSeq = in.W.seq
	}
	in.W.mu.Unlock()
	select {
	case <-in.release:
	default:
		close(in.release)
	}
}

var errZombie = errors.New("verif: call of a dead instance released")

// park blocks until the instance is released. A released call normally ends
// its goroutine with runtime.Goexit (deferred functions run, nothing else of
// the dead process does). Tile uploads run in errgroup children, whose parent
// would otherwise see a clean Wait() and carry on (opening cache connections,
// for instance): those return an error instead, which makes the parent return
// through its error path; every further call it attempts ends it.
func (in *Inst) park(c *Call) error {
	select {
	case in.parkedCh <- struct{}{}:
	default:
	}
	<-in.release
	if c != nil && c.Kind == OpUpload && strings.HasPrefix(c.Key, "tile/") {
		return errZombie
	}
	runtime.Goexit()
	return nil
}

// begin registers the call, consults the plan. Returns the decision.
func (in *Inst) begin(c *Call) Decision {
	w := in.W
	w.ops.Add(1)
	w.mu.Lock()
	c.Inst = in
	c.Idx = in.idx
	in.idx++
	w.seq++
	c.IssueSeq = w.seq
	if in.dead {
		in.parked++
		w.mu.Unlock()
		in.park(c)
		return Decision{Err: errZombie, zombie: true}
	}
	d := decideOK
	if in.Plan != nil {
		d = in.Plan(c)
	}
	w.mu.Unlock()
	if d.Gate != nil {
		d.Gate()
	}
	if in.delay != nil {
		in.delay(c)
	}
	return d
}

// lateDead handles a call that passed begin() while the instance was alive but
// reaches its effect after the instance died: a dead process applies nothing.
// Called with w.mu held; does not return if the instance is dead.
func (in *Inst) lateDead(c *Call, d Decision) bool {
	if d.zombie {
		in.W.mu.Unlock()
		return true
	}
	if in.dead && !d.Park {
		in.parked++
		in.W.mu.Unlock()
		in.park(c)
		return true
	}
	return false
}

// finish is called under w.mu after the effect was (not) applied.
func (in *Inst) finish(c *Call, d Decision) {
	w := in.W
	c.Err = d.Err
	if in.Trace != nil {
		in.Trace(c)
	}
	for _, m := range w.Monitors {
		m(w, c)
	}
	if d.Park {
		if !in.dead {
			in.dead = true
			in.deadSeq = w.seq
		}
		in.parked++
	}
}

var errNotFound = errors.New("verif store: key not found")

type ObjBackend struct {
	In *Inst
}

func (b *ObjBackend) Upload(ctx context.Context, key string, data []byte, opts *ctlog.UploadOptions) error {
	c := &Call{Kind: OpUpload, Key: key, NS: b.In.NS, Data: bytes.Clone(data)}
	key = b.In.NS + key
	if opts != nil {
		c.Opts = *opts
	}
	d := b.In.begin(c)
	w := b.In.W
	w.mu.Lock()
	if b.In.lateDead(c, d) {
		return errZombie
	}
	if err := ctx.Err(); b.In.HonorCtx && err != nil && !d.Park && d.Err == nil {
		d = Decision{Err: err}
	}
	if d.Apply && w.StrictImmutable {
		if v := w.cur(key); v != nil && v.Opts.Immutable && !bytes.Equal(v.Data, data) {
			d = Decision{Err: fmt.Errorf("immutable object %q exists with different content", key), Park: d.Park}
		}
	}
	if d.Apply {
		w.seq++
		c.Applied, c.Seq = true, w.seq
		w.Objs[key] = append(w.Objs[key], ObjVersion{Data: c.Data, Opts: c.Opts, IssueSeq: c.IssueSeq, Seq: w.seq, By: b.In.Name})
	}
	b.In.finish(c, d)
	w.mu.Unlock()
	if d.Park {
		b.In.park(c)
		return errZombie
	}
	if c.Applied {
		w.mu.Lock()
		w.seq++
		vs := w.Objs[key]
		for i := range vs {
			if vs[i].Seq == c.Seq {
				vs[i].DoneSeq = w.seq
			}
		}
		w.mu.Unlock()
	}
	return d.Err
}

func (b *ObjBackend) Fetch(ctx context.Context, key string) ([]byte, error) {
	c := &Call{Kind: OpFetch, Key: key, NS: b.In.NS}
	key = b.In.NS + key
	d := b.In.begin(c)
	w := b.In.W
	w.mu.Lock()
	if b.In.lateDead(c, d) {
		return nil, errZombie
	}
	var out []byte
	if d.Err == nil && !d.Park {
		if err := ctx.Err(); b.In.HonorCtx && err != nil {
			d.Err = err
		} else if d.HasFetchData {
			out = bytes.Clone(d.FetchData)
			c.Applied = true
		} else if v := w.cur(key); v != nil {
			out = bytes.Clone(v.Data)
			c.Applied = true
		} else {
			d.Err = fmt.Errorf("%w: %q", errNotFound, key)
		}
	}
	c.Seq = w.seq
	b.In.finish(c, d)
	w.mu.Unlock()
	if d.Park {
		b.In.park(c)
		return nil, errZombie
	}
	return out, d.Err
}

func (b *ObjBackend) Discard(ctx context.Context, key string) error {
	c := &Call{Kind: OpDiscard, Key: key, NS: b.In.NS}
	key = b.In.NS + key
	d := b.In.begin(c)
	w := b.In.W
	w.mu.Lock()
	if b.In.lateDead(c, d) {
		return errZombie
	}
	if d.Apply {
		if w.cur(key) != nil {
			w.seq++
			c.Applied, c.Seq = true, w.seq
			w.Objs[key] = append(w.Objs[key], ObjVersion{Deleted: true, IssueSeq: c.IssueSeq, Seq: w.seq, By: b.In.Name})
		} else if d.Err == nil {
			d.Err = fmt.Errorf("%w: %q", errNotFound, key)
		}
	}
	b.In.finish(c, d)
	w.mu.Unlock()
	if d.Park {
		b.In.park(c)
		return errZombie
	}
	return d.Err
}

func (b *ObjBackend) Metrics() []prometheus.Collector { return nil }

type lockedCheckpoint struct {
	id   [32]byte
	data []byte
}

func (l *lockedCheckpoint) Bytes() []byte { return l.data }

type LockBackend struct {
	In *Inst
}

func (b *LockBackend) Fetch(ctx context.Context, logID [sha256.Size]byte) (ctlog.LockedCheckpoint, error) {
	c := &Call{Kind: OpLockFetch, LogID: logID}
	d := b.In.begin(c)
	w := b.In.W
	w.mu.Lock()
	if b.In.lateDead(c, d) {
		return nil, errZombie
	}
	var out *lockedCheckpoint
	if d.Err == nil && !d.Park {
		if err := ctx.Err(); b.In.HonorCtx && err != nil {
			d.Err = err
		} else if v := w.Locks[logID]; len(v) > 0 {
			out = &lockedCheckpoint{id: logID, data: bytes.Clone(v[len(v)-1].Data)}
			c.Applied = true
		} else {
			d.Err = ctlog.ErrLogNotFound
		}
	}
	c.Seq = w.seq
	b.In.finish(c, d)
	w.mu.Unlock()
	if d.Park {
		b.In.park(c)
		return nil, errZombie
	}
	if d.Err != nil {
		return nil, d.Err
	}
	return out, nil
}

func (b *LockBackend) Replace(ctx context.Context, old ctlog.LockedCheckpoint, new []byte) (ctlog.LockedCheckpoint, error) {
	o, _ := old.(*lockedCheckpoint)
	if o == nil {
		return nil, errors.New("verif lock: Replace with a foreign or nil LockedCheckpoint")
	}
	c := &Call{Kind: OpLockReplace, LogID: o.id, Data: bytes.Clone(new), Old: o.data}
	d := b.In.begin(c)
	w := b.In.W
	w.mu.Lock()
	if b.In.lateDead(c, d) {
		return nil, errZombie
	}
	if err := ctx.Err(); b.In.HonorCtx && err != nil && !d.Park && d.Err == nil {
		d = Decision{Err: err}
	}
	if d.Apply {
		v := w.Locks[o.id]
		if len(v) == 0 || !bytes.Equal(v[len(v)-1].Data, o.data) {
			d.Apply = false
			if d.Err == nil {
				d.Err = errors.New("verif lock: compare-and-swap failed")
			}
		} else {
			w.seq++
			c.Applied, c.Seq = true, w.seq
			w.Locks[o.id] = append(v, LockVersion{Data: c.Data, Seq: w.seq, By: b.In.Name})
		}
	}
	b.In.finish(c, d)
	w.mu.Unlock()
	if d.Park {
		b.In.park(c)
		return nil, errZombie
	}
	if d.Err != nil {
		return nil, d.Err
	}
	return &lockedCheckpoint{id: o.id, data: c.Data}, nil
}

func (b *LockBackend) Create(ctx context.Context, logID [sha256.Size]byte, new []byte) error {
	c := &Call{Kind: OpLockCreate, LogID: logID, Data: bytes.Clone(new)}
	d := b.In.begin(c)
	w := b.In.W
	w.mu.Lock()
	if b.In.lateDead(c, d) {
		return errZombie
	}
	if d.Apply {
		if len(w.Locks[logID]) > 0 {
			d.Apply = false
			if d.Err == nil {
				d.Err = errors.New("verif lock: already exists")
			}
		} else {
			w.seq++
			c.Applied, c.Seq = true, w.seq
			w.Locks[logID] = append(w.Locks[logID], LockVersion{Data: c.Data, Seq: w.seq, By: b.In.Name})
		}
	}
	b.In.finish(c, d)
	w.mu.Unlock()
	if d.Park {
		b.In.park(c)
		return errZombie
	}
	return d.Err
}

var _ ctlog.Backend = &ObjBackend{}
var _ ctlog.LockBackend = &LockBackend{}

// ---- plan helpers ----------------------------------------------------------

var errInjected = errors.New("verif: injected fault")

// isMutating reports whether a call can change persisted state.
func (c *Call) isMutating() bool {
	switch c.Kind {
	case OpUpload, OpDiscard, OpLockReplace, OpLockCreate:
		return true
	}
	return false
}
