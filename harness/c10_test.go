package verifharness

import (
	"bytes"
	"fmt"
	"os"
	"path/filepath"
	"strings"
	"testing"

	"filippo.io/sunlight"
	"golang.org/x/mod/sumdb/tlog"
)

func refToLogEntry(e *RefEntry) *sunlight.LogEntry {
	le := &sunlight.LogEntry{Certificate: e.Cert, IsPrecert: e.IsPrecert, Timestamp: e.Timestamp, LeafIndex: e.LeafIndex, RFC6962ArchivalLeaf: e.Archival}
	if e.IsPrecert {
		le.IssuerKeyHash = e.IssuerKeyHash
		le.PreCertificate = e.PreCert
	}
	le.ChainFingerprints = append(le.ChainFingerprints, e.Fingerprints...)
	return le
}

// genRefEntry makes an entry within the documented limits, biased to boundaries.
func genRefEntry(rng *Rng, big bool) *RefEntry {
	e := &RefEntry{IsPrecert: rng.Bool()}
	lens := []int{0, 1, 2, 17, 255, 256, 1000, 65535, 65536}
	if big && rng.Intn(40) == 0 {
		lens = append(lens, 1<<24-1)
	}
	e.Cert = rng.Bytes(pickOne(rng, lens))
	if e.IsPrecert {
		copy(e.IssuerKeyHash[:], rng.Bytes(32))
		e.PreCert = rng.Bytes(pickOne(rng, lens[:len(lens)-1]))
	}
	e.Timestamp = pickOne(rng, []int64{0, 1, 1750000000000, 1<<63 - 1, int64(rng.U64() >> 1)})
	if rng.Intn(5) == 0 {
		e.Archival = true
	} else {
		e.LeafIndex = pickOne(rng, []int64{0, 1, 255, 256, 1<<32 - 1, 1 << 32, 1<<40 - 1, int64(rng.U64() >> 24)})
	}
	nfp := pickOne(rng, []int{0, 0, 1, 2, 3, 10, 2047})
	for i := 0; i < nfp; i++ {
		e.Fingerprints = append(e.Fingerprints, Hash(rng.Bytes(32)))
	}
	return e
}

// guard runs f under recover after writing the input to disk (sanitizer and
// checkptr reports are process-fatal, so the input must survive the process).
func guard(r *Run, what string, input []byte, f func()) (panicked bool) {
	if dir := os.Getenv("VERIF_REPLAY_DIR"); dir != "" && raceEnabled {
		os.WriteFile(filepath.Join(dir, "C10-last-input.bin"), input, 0o644)
	}
	defer func() {
		if p := recover(); p != nil {
			panicked = true
			r.Violate("panic:"+what, map[string]any{"what": what, "input_hex": fmt.Sprintf("%x", truncate(input, 4096))}, "%s panicked on a %d-byte input: %v", what, len(input), p)
		}
	}()
	f()
	return false
}

func truncate(b []byte, n int) []byte {
	if len(b) > n {
		return b[:n]
	}
	return b
}

func checkDecode(r *Run, b []byte, origin string) {
	r.Eval(1)
	var e *sunlight.LogEntry
	var rest []byte
	var err error
	if guard(r, "ReadTileLeafMaybeArchival", b, func() { e, rest, err = sunlight.ReadTileLeafMaybeArchival(b) }) {
		return
	}
	re, rrest, rerr := refDecodeTileLeaf(b)
	info := map[string]any{"origin": origin, "input_hex": fmt.Sprintf("%x", truncate(b, 2048)), "len": len(b)}
	if (err == nil) != (rerr == nil) {
		r.Violate("decode-accept-mismatch:"+origin, info, "ReadTileLeafMaybeArchival err=%v, reference decoder err=%v", err, rerr)
		return
	}
	if err != nil {
		r.Count("decode_rejected", 1)
		return
	}
	r.Count("decode_accepted", 1)
	if len(rest) > len(b) || !bytes.Equal(rest, b[len(b)-len(rest):]) {
		r.Violate("decode-rest-not-suffix", info, "returned rest is not a suffix of the input")
		return
	}
	consumed := b[:len(b)-len(rest)]
	var enc []byte
	if guard(r, "AppendTileLeaf", b, func() { enc = sunlight.AppendTileLeaf(nil, e) }) {
		return
	}
	if !bytes.Equal(enc, consumed) {
		r.Violate("decode-not-canonical:"+origin, info, "decoding consumed %d bytes that re-encode to %d different bytes", len(consumed), len(enc))
	}
	if len(rrest) != len(rest) || !logEntryToRef(e).Equal(re) {
		r.Violate("decode-differs-from-reference:"+origin, info, "decoded entry differs from the reference decoder's")
	}
	// the non-archival reader must refuse archival leaves and agree otherwise
	var e2 *sunlight.LogEntry
	var err2 error
	guard(r, "ReadTileLeaf", b, func() { e2, _, err2 = sunlight.ReadTileLeaf(b) })
	if e.RFC6962ArchivalLeaf && err2 == nil {
		r.Violate("archival-leaf-accepted", info, "ReadTileLeaf accepted a leaf without the leaf_index extension")
	}
	if !e.RFC6962ArchivalLeaf && (err2 != nil || !logEntryToRef(e2).Equal(re)) {
		r.Violate("readtileleaf-disagrees", info, "ReadTileLeaf disagrees with ReadTileLeafMaybeArchival on an indexed leaf: %v", err2)
	}
}

func mutateEncoding(rng *Rng, b []byte) []byte {
	m := bytes.Clone(b)
	switch rng.Intn(9) {
	case 0: // bit flip
		if len(m) > 0 {
			i := rng.Intn(len(m) * 8)
			m[i/8] ^= 1 << uint(i%8)
		}
	case 1: // truncate
		if len(m) > 0 {
			m = m[:rng.Intn(len(m))]
		}
	case 2: // trailing bytes
		m = append(m, rng.Bytes(1+rng.Intn(40))...)
	case 3: // byte +-1 in the first 60 bytes (where the length fields live for small entries)
		if len(m) > 0 {
			i := rng.Intn(min(len(m), 60))
			if rng.Bool() {
				m[i]++
			} else {
				m[i]--
			}
		}
	case 4: // tamper near the extensions of a small x509 entry: find the 00 08 00 00 05 pattern
		if i := bytes.Index(m, []byte{0, 8, 0, 0, 5}); i >= 0 {
			switch rng.Intn(5) {
			case 0: // two extensions
				ext := []byte{0, 16, 0, 0, 5, 0, 0, 0, 0, 1, 0, 0, 5, 0, 0, 0, 0, 2}
				m = append(append(bytes.Clone(m[:i]), ext...), m[i+10:]...)
			case 1: // unknown extension type first
				ext := []byte{0, 12, 7, 0, 1, 9, 0, 0, 5, 0, 0, 0, 0, 1}
				m = append(append(bytes.Clone(m[:i]), ext...), m[i+10:]...)
			case 2: // 6-byte index
				ext := []byte{0, 9, 0, 0, 6, 0, 0, 0, 0, 0, 1}
				m = append(append(bytes.Clone(m[:i]), ext...), m[i+10:]...)
			case 3: // trailing byte inside extensions
				ext := []byte{0, 9, 0, 0, 5, 0, 0, 0, 0, 1, 0}
				m = append(append(bytes.Clone(m[:i]), ext...), m[i+10:]...)
			case 4: // 4-byte index
				ext := []byte{0, 7, 0, 0, 4, 0, 0, 0, 1}
				m = append(append(bytes.Clone(m[:i]), ext...), m[i+10:]...)
			}
		}
	case 5: // entry type
		if len(m) > 9 {
			m[9] = byte(rng.Intn(4))
		}
	case 6: // timestamp high bit
		if len(m) > 0 {
			m[0] |= 0x80
		}
	case 7: // fingerprints length not a multiple of 32: change the last length field
		if len(m) >= 2 {
			m = append(m[:len(m)-2:len(m)-2], 0, byte(1+rng.Intn(31)))
			m = append(m, rng.Bytes(int(m[len(m)-1]))...)
		}
	case 8: // concatenation of two entries
		m = append(m, b...)
	}
	return m
}

func TestC10Codec(t *testing.T) {
	r := NewRun(t, "C10", "codec")
	r.Rule = "generated entries (both types, archival/indexed, 0..2047 fingerprints, boundary lengths incl. 2^24-1, boundary timestamps and indexes) round-tripped and compared bytewise with an independent TLS-presentation encoder; mutated encodings (bit flips, truncation, trailing bytes, length +-1, double/unknown/short/long extensions, entry type, timestamp overflow, odd fingerprint length, concatenation) and random strings decoded with the canonical-prefix oracle and differentially against an independent strict decoder; extension and tile-path round trips with an independent path renderer/parser; distinct = (generator class, accepted?)"
	rng := NewRng(r.Seed, "c10")
	shard, shards := shardInfo()
	rng = rng.Fork(fmt.Sprint("shard", shard))
	n := pick(150000, 1000000) / shards
	if raceEnabled {
		n /= 25 // checkptr/race pass: same generators, fewer cases
	}
	for i := 0; i < n; i++ {
		re := genRefEntry(rng, i%500 == 0)
		le := refToLogEntry(re)
		var enc, leaf []byte
		if guard(r, "AppendTileLeaf", nil, func() { enc = sunlight.AppendTileLeaf(nil, le) }) {
			continue
		}
		guard(r, "MerkleTreeLeaf", enc, func() { leaf = le.MerkleTreeLeaf() })
		r.Eval(1)
		info := func() any {
			return map[string]any{"entry": fmt.Sprintf("precert=%v archival=%v idx=%d ts=%d certlen=%d prelen=%d fps=%d", re.IsPrecert, re.Archival, re.LeafIndex, re.Timestamp, len(re.Cert), len(re.PreCert), len(re.Fingerprints))}
		}
		if want := refTileLeaf(nil, re); !bytes.Equal(enc, want) {
			r.Violate("tileleaf-encoding-differs", info(), "AppendTileLeaf differs from the reference TileLeaf encoding")
		}
		if want := refMerkleTreeLeaf(re); !bytes.Equal(leaf, want) {
			r.Violate("merkletreeleaf-differs", info(), "MerkleTreeLeaf differs from the reference RFC 6962 MerkleTreeLeaf")
		}
		// appending to an existing tile keeps the prefix
		if i%7 == 0 {
			pre := rng.Bytes(5)
			if got := sunlight.AppendTileLeaf(bytes.Clone(pre), le); !bytes.Equal(got, append(pre, enc...)) {
				r.Violate("append-disturbs-prefix", info(), "AppendTileLeaf to a non-empty tile is not prefix || encoding")
			}
		}
		dec, rest, err := sunlight.ReadTileLeafMaybeArchival(enc)
		if err != nil || len(rest) != 0 || !logEntryToRef(dec).Equal(re) {
			r.Violate("roundtrip", info(), "encode-then-decode changed the entry (err=%v, rest=%d)", err, len(rest))
		}
		r.DistinctKey(fmt.Sprintf("gen/pre=%v/arch=%v/fps=%d/cl=%d", re.IsPrecert, re.Archival, len(re.Fingerprints), len(re.Cert)))
		if len(enc) < 5000 {
			for k := 0; k < 3; k++ {
				m := mutateEncoding(rng, enc)
				checkDecode(r, m, "mutant")
			}
			if i%50 == 0 { // truncation at every offset
				for cut := 0; cut < len(enc); cut++ {
					checkDecode(r, enc[:cut], "prefix")
				}
			}
		}
		if i%3 == 0 {
			checkDecode(r, rng.Bytes(rng.Intn(120)), "random")
		}
	}
	r.DistinctKey(fmt.Sprintf("accepted>0=%v/rejected>0=%v", r.Counter("decode_accepted") > 0, r.Counter("decode_rejected") > 0))
	// extensions
	for _, idx := range []int64{0, 1, 255, 1<<8 + 1, 1<<16 - 1, 1 << 16, 1<<32 - 1, 1 << 32, 1<<40 - 2, 1<<40 - 1} {
		checkExt(r, idx, true)
	}
	scale := 1
	if raceEnabled {
		scale = 25
	}
	for i := 0; i < pick(20000, 400000)/shards/scale; i++ {
		checkExt(r, int64(rng.U64()>>24), true)
	}
	for _, idx := range []int64{-1, -1 << 40, 1 << 40, 1<<40 + 1, 1 << 41, 1<<63 - 1, -1 << 63} {
		checkExt(r, idx, false)
	}
	// tile paths
	for i := 0; i < pick(40000, 1000000)/shards/scale; i++ {
		checkTilePath(r, rng)
	}
}

func checkExt(r *Run, idx int64, valid bool) {
	r.Eval(1)
	info := map[string]any{"leaf_index": idx}
	var b []byte
	var err error
	if guard(r, "MarshalExtensions", nil, func() { b, err = sunlight.MarshalExtensions(sunlight.Extensions{LeafIndex: idx}) }) {
		return
	}
	if !valid {
		if err == nil {
			r.Violate("extension-out-of-range-accepted", info, "MarshalExtensions accepted leaf index %d (outside 0..2^40-1)", idx)
		}
		r.DistinctKey("ext/refused")
		return
	}
	if err != nil {
		r.Violate("extension-in-range-refused", info, "MarshalExtensions refused leaf index %d: %v", idx, err)
		return
	}
	want := refExtensions(&RefEntry{LeafIndex: idx})
	if !bytes.Equal(b, want) {
		r.Violate("extension-encoding", info, "MarshalExtensions(%d) = %x, reference %x", idx, b, want)
	}
	var e sunlight.Extensions
	guard(r, "ParseExtensions", b, func() { e, err = sunlight.ParseExtensions(b) })
	if err != nil || e.LeafIndex != idx {
		r.Violate("extension-roundtrip", info, "ParseExtensions(MarshalExtensions(%d)) = %d, %v", idx, e.LeafIndex, err)
	}
	r.DistinctKey(fmt.Sprintf("ext/bits=%d", bitsLen(idx)))
}

func bitsLen(v int64) int {
	n := 0
	for v > 0 {
		n++
		v >>= 1
	}
	return n
}

func checkTilePath(r *Run, rng *Rng) {
	r.Eval(1)
	// forward: valid coordinates
	t := TileCoord{L: pickOne(rng, []int{-2, -1, 0, 1, 2, 5, 63, rng.Intn(64)}), W: pickOne(rng, []int{1, 2, 255, 256, 1 + rng.Intn(256)})}
	t.N = pickOne(rng, []int64{0, 1, 999, 1000, 1001, 999999, 1000000, 123456789, 1e12, int64(rng.U64() >> 20)})
	tt := tlog.Tile{H: 8, L: t.L, N: t.N, W: t.W}
	var p string
	info := map[string]any{"tile": fmt.Sprintf("%+v", t)}
	if guard(r, "TilePath", nil, func() { p = sunlight.TilePath(tt) }) {
		return
	}
	if want := refTilePath(t); p != want {
		r.Violate("tilepath-differs", info, "TilePath = %q, reference %q", p, want)
	}
	var back tlog.Tile
	var err error
	guard(r, "ParseTilePath", []byte(p), func() { back, err = sunlight.ParseTilePath(p) })
	if err != nil || back != tt {
		r.Violate("tilepath-roundtrip", info, "ParseTilePath(TilePath(t)) = %+v, %v", back, err)
	}
	r.DistinctKey(fmt.Sprintf("path/L=%d/groups=%d/partial=%v", t.L, len(refTileIndexPath(t.N))/4, t.W != 256))
	// backward: mutated strings
	m := []byte(p)
	switch rng.Intn(14) {
	case 12:
		// another spelling of the level directory (tlog-tiles "entries", case,
		// plural/singular, numeric aliases of the data/names levels)
		alias := pickOne(rng, []string{"entries", "entry", "Data", "DATA", "Names", "name", "datas", "-1", "-2", "data/", "leaves", "e"})
		rest := p[len("tile/"):]
		if i := strings.Index(rest, "/"); i >= 0 {
			rest = rest[i:]
		}
		m = []byte("tile/" + alias + rest)
	case 13:
		// another top-level directory
		m = []byte(pickOne(rng, []string{"tiles/", "Tile/", "tile//", "/tile/", "./tile/", "tile\\"}) + p[len("tile/"):])
	case 0:
		m = append(m, '/')
	case 1:
		m = bytes.Replace(m, []byte("tile/"), []byte("tile/8/"), 1)
	case 2:
		m = bytes.Replace(m, []byte("/0"), []byte("/00"), 1)
	case 3:
		m = append(m, []byte(".p/0")...)
	case 4:
		m = append(bytes.TrimSuffix(m, []byte(fmt.Sprintf(".p/%d", t.W))), []byte(".p/256")...)
	case 5:
		m = bytes.Replace(m, []byte("x"), []byte("+"), 1)
	case 6:
		m = bytes.Replace(m, []byte("tile/"), []byte("tile/x"), 1)
	case 7:
		if len(m) > 6 {
			i := 5 + rng.Intn(len(m)-5)
			m[i] = byte(pickOne(rng, []int{'0', '9', 'x', '/', '.', 'p', '-', '+', ' ', 'a'}))
		}
	case 8:
		m = []byte("tile/names/" + fmt.Sprint(rng.Intn(3)) + "/000")
	case 9:
		m = bytes.Replace(m, []byte("tile/"), []byte("tile/0"), 1)
	case 10:
		m = []byte(fmt.Sprintf("tile/%d/x000/%03d", rng.Intn(3), rng.Intn(1000)))
	case 11:
		m = []byte(fmt.Sprintf("tile/%d/%03d.p/%03d", rng.Intn(3), rng.Intn(1000), rng.Intn(256)))
	}
	ms := string(m)
	var pt tlog.Tile
	var perr error
	if guard(r, "ParseTilePath", m, func() { pt, perr = sunlight.ParseTilePath(ms) }) {
		return
	}
	rt, rok := refParseTilePath(ms)
	minfo := map[string]any{"path": ms}
	if (perr == nil) != rok {
		r.Violate("tilepath-parse-accept-mismatch", minfo, "ParseTilePath(%q) err=%v, reference parser accepts=%v", ms, perr, rok)
		return
	}
	if perr == nil {
		if pt.L != rt.L || pt.N != rt.N || pt.W != rt.W || pt.H != 8 {
			r.Violate("tilepath-parse-differs", minfo, "ParseTilePath(%q) = %+v, reference %+v", ms, pt, rt)
		}
		var again string
		guard(r, "TilePath", m, func() { again = sunlight.TilePath(pt) })
		if again != ms {
			r.Violate("tilepath-not-canonical", minfo, "ParseTilePath accepted %q, which renders back as %q", ms, again)
		}
		r.Count("paths_accepted", 1)
	} else {
		r.Count("paths_rejected", 1)
	}
}
