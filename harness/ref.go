package verifharness

// Independent reference code, written from RFC 6962, c2sp.org/static-ct-api,
// c2sp.org/tlog-tiles, c2sp.org/signed-note and c2sp.org/tlog-checkpoint.
// Nothing in this file calls into filippo.io/sunlight, torchwood or
// golang.org/x/mod/sumdb: it is the oracle side of the differential checks.

import (
	"bytes"
	"compress/gzip"
	"crypto"
	"crypto/ecdsa"
	"crypto/rsa"
	"crypto/sha256"
	"crypto/x509"
	"encoding/base64"
	"encoding/binary"
	"errors"
	"fmt"
	"io"
	"strconv"
	"strings"

	ct "github.com/google/certificate-transparency-go"
	cttls "github.com/google/certificate-transparency-go/tls"
)

type Hash = [32]byte

func refSHA(b []byte) Hash { return sha256.Sum256(b) }

func refLeafHash(leaf []byte) Hash {
	h := sha256.New()
	h.Write([]byte{0})
	h.Write(leaf)
	return Hash(h.Sum(nil))
}

func refNodeHash(l, r Hash) Hash {
	h := sha256.New()
	h.Write([]byte{1})
	h.Write(l[:])
	h.Write(r[:])
	return Hash(h.Sum(nil))
}

// refMTH is RFC 6962 section 2.1 over leaf hashes.
func refMTH(lh []Hash) Hash {
	switch len(lh) {
	case 0:
		return sha256.Sum256(nil)
	case 1:
		return lh[0]
	}
	k := 1
	for k*2 < len(lh) {
		k *= 2
	}
	return refNodeHash(refMTH(lh[:k]), refMTH(lh[k:]))
}

// merkleCache computes roots of prefixes of a growing leaf-hash list in
// O(log n) per query after O(n) preprocessing, still straight from the RFC
// definition (perfect subtrees are memoised).
type merkleCache struct {
	lh    []Hash
	perfs map[[2]int]Hash // (start, size) of perfect subtrees
}

func newMerkleCache(lh []Hash) *merkleCache {
	return &merkleCache{lh: lh, perfs: make(map[[2]int]Hash)}
}

func (m *merkleCache) perfect(start, size int) Hash {
	if size == 1 {
		return m.lh[start]
	}
	k := [2]int{start, size}
	if h, ok := m.perfs[k]; ok {
		return h
	}
	h := refNodeHash(m.perfect(start, size/2), m.perfect(start+size/2, size/2))
	m.perfs[k] = h
	return h
}

func (m *merkleCache) rng(start, end int) Hash {
	n := end - start
	if n == 0 {
		return sha256.Sum256(nil)
	}
	if n&(n-1) == 0 && start%n == 0 {
		return m.perfect(start, n)
	}
	k := 1
	for k*2 < n {
		k *= 2
	}
	return refNodeHash(m.rng(start, start+k), m.rng(start+k, end))
}

func (m *merkleCache) Root(n int) Hash { return m.rng(0, n) }

// refSubtreeHash is the hash of the subtree [start,end) as defined by
// c2sp.org/tlog-cosignature subtrees: MTH over that leaf range.
func refSubtreeHash(lh []Hash, start, end int) Hash { return refMTH(lh[start:end]) }

// refValidSubtree: start is a multiple of the smallest power of two >= end-start.
func refValidSubtree(start, end int64) bool {
	if start < 0 || end <= start {
		return false
	}
	n := end - start
	p := int64(1)
	for p < n {
		p *= 2
	}
	return start%p == 0
}

// ---- entries -------------------------------------------------------------

// RefEntry is the harness's own representation of a log entry.
type RefEntry struct {
	Timestamp     int64
	IsPrecert     bool
	IssuerKeyHash [32]byte
	Cert          []byte // certificate, or defanged TBS for precerts
	PreCert       []byte
	Fingerprints  [][32]byte
	LeafIndex     int64
	Archival      bool // no leaf_index extension
}

func putU16(b []byte, v int) []byte { return append(b, byte(v>>8), byte(v)) }
func putU24(b []byte, v int) []byte { return append(b, byte(v>>16), byte(v>>8), byte(v)) }
func putU64(b []byte, v uint64) []byte {
	return binary.BigEndian.AppendUint64(b, v)
}

func refExtensions(e *RefEntry) []byte {
	if e.Archival {
		return nil
	}
	// Extension{ type(1)=0, opaque data<0..2^16-1> = uint40 }
	v := uint64(e.LeafIndex)
	return []byte{0, 0, 5, byte(v >> 32), byte(v >> 24), byte(v >> 16), byte(v >> 8), byte(v)}
}

func refTimestampedEntry(b []byte, e *RefEntry) []byte {
	b = putU64(b, uint64(e.Timestamp))
	if !e.IsPrecert {
		b = putU16(b, 0)
		b = putU24(b, len(e.Cert))
		b = append(b, e.Cert...)
	} else {
		b = putU16(b, 1)
		b = append(b, e.IssuerKeyHash[:]...)
		b = putU24(b, len(e.Cert))
		b = append(b, e.Cert...)
	}
	ext := refExtensions(e)
	b = putU16(b, len(ext))
	b = append(b, ext...)
	return b
}

// refMerkleTreeLeaf is RFC 6962 3.4 MerkleTreeLeaf (version v1, timestamped_entry).
func refMerkleTreeLeaf(e *RefEntry) []byte {
	return refTimestampedEntry([]byte{0, 0}, e)
}

// refTileLeaf is the static-ct-api TileLeaf.
func refTileLeaf(b []byte, e *RefEntry) []byte {
	b = refTimestampedEntry(b, e)
	if e.IsPrecert {
		b = putU24(b, len(e.PreCert))
		b = append(b, e.PreCert...)
	}
	b = putU16(b, 32*len(e.Fingerprints))
	for _, f := range e.Fingerprints {
		b = append(b, f[:]...)
	}
	return b
}

type rdr struct {
	b   []byte
	err error
}

func (r *rdr) take(n int) []byte {
	if r.err != nil {
		return nil
	}
	if n < 0 || len(r.b) < n {
		r.err = errors.New("short")
		return nil
	}
	x := r.b[:n]
	r.b = r.b[n:]
	return x
}
func (r *rdr) u(n int) int {
	x := r.take(n)
	v := 0
	for _, c := range x {
		v = v<<8 | int(c)
	}
	return v
}
func (r *rdr) vec(lenBytes int) []byte { return r.take(r.u(lenBytes)) }

// refDecodeTileLeaf strictly decodes one TileLeaf, returning the rest.
func refDecodeTileLeaf(b []byte) (*RefEntry, []byte, error) {
	r := &rdr{b: b}
	e := &RefEntry{}
	tsb := r.take(8)
	if r.err != nil {
		return nil, nil, r.err
	}
	ts := binary.BigEndian.Uint64(tsb)
	if ts > 1<<63-1 {
		return nil, nil, errors.New("timestamp overflow")
	}
	e.Timestamp = int64(ts)
	switch r.u(2) {
	case 0:
		e.Cert = r.vec(3)
	case 1:
		e.IsPrecert = true
		copy(e.IssuerKeyHash[:], r.take(32))
		e.Cert = r.vec(3)
	default:
		return nil, nil, errors.New("bad entry type")
	}
	ext := r.vec(2)
	if r.err != nil {
		return nil, nil, r.err
	}
	if len(ext) == 0 {
		e.Archival = true
	} else {
		if len(ext) != 8 || ext[0] != 0 || ext[1] != 0 || ext[2] != 5 {
			return nil, nil, errors.New("bad extensions")
		}
		e.LeafIndex = int64(ext[3])<<32 | int64(ext[4])<<24 | int64(ext[5])<<16 | int64(ext[6])<<8 | int64(ext[7])
	}
	if e.IsPrecert {
		e.PreCert = r.vec(3)
	}
	fps := r.vec(2)
	if r.err != nil {
		return nil, nil, r.err
	}
	if len(fps)%32 != 0 {
		return nil, nil, errors.New("bad fingerprints")
	}
	for i := 0; i < len(fps); i += 32 {
		e.Fingerprints = append(e.Fingerprints, Hash(fps[i:i+32]))
	}
	return e, r.b, nil
}

func refDecodeDataTile(b []byte, n int) ([]*RefEntry, error) {
	var out []*RefEntry
	for i := 0; i < n; i++ {
		e, rest, err := refDecodeTileLeaf(b)
		if err != nil {
			return nil, fmt.Errorf("leaf %d: %w", i, err)
		}
		out = append(out, e)
		b = rest
	}
	if len(b) != 0 {
		return nil, fmt.Errorf("%d trailing bytes after %d leaves", len(b), n)
	}
	return out, nil
}

func refGunzip(b []byte) ([]byte, error) {
	zr, err := gzip.NewReader(bytes.NewReader(b))
	if err != nil {
		return nil, err
	}
	return io.ReadAll(io.LimitReader(zr, 64<<20))
}

func refGzip(b []byte) []byte {
	var buf bytes.Buffer
	zw := gzip.NewWriter(&buf)
	zw.Write(b)
	zw.Close()
	return buf.Bytes()
}

func (e *RefEntry) Equal(o *RefEntry) bool {
	if e.Timestamp != o.Timestamp || e.IsPrecert != o.IsPrecert || e.IssuerKeyHash != o.IssuerKeyHash ||
		!bytes.Equal(e.Cert, o.Cert) || !bytes.Equal(e.PreCert, o.PreCert) || e.LeafIndex != o.LeafIndex ||
		e.Archival != o.Archival || len(e.Fingerprints) != len(o.Fingerprints) {
		return false
	}
	for i := range e.Fingerprints {
		if e.Fingerprints[i] != o.Fingerprints[i] {
			return false
		}
	}
	return true
}

// ---- tile layout -----------------------------------------------------------

// TileCoord: L >= 0 hash tile level, -1 data, -2 names. W in 1..256.
type TileCoord struct {
	L int
	N int64
	W int
}

func refTileIndexPath(n int64) string {
	s := fmt.Sprintf("%03d", n%1000)
	for n >= 1000 {
		n /= 1000
		s = fmt.Sprintf("x%03d/%s", n%1000, s)
	}
	return s
}

// refTilePath renders the static-ct-api path of a tile.
func refTilePath(t TileCoord) string {
	var lvl string
	switch t.L {
	case -1:
		lvl = "data"
	case -2:
		lvl = "names"
	default:
		lvl = strconv.Itoa(t.L)
	}
	p := "tile/" + lvl + "/" + refTileIndexPath(t.N)
	if t.W != 256 {
		p += ".p/" + strconv.Itoa(t.W)
	}
	return p
}

// refTlogTilePath renders the c2sp.org/tlog-tiles path (entries instead of data).
func refTlogTilePath(t TileCoord) string {
	lvl := strconv.Itoa(t.L)
	if t.L == -1 {
		lvl = "entries"
	}
	p := "tile/" + lvl + "/" + refTileIndexPath(t.N)
	if t.W != 256 {
		p += ".p/" + strconv.Itoa(t.W)
	}
	return p
}

// refParseTilePath parses a static-ct-api tile path strictly.
func refParseTilePath(p string) (TileCoord, bool) {
	rest, ok := strings.CutPrefix(p, "tile/")
	if !ok {
		return TileCoord{}, false
	}
	lvl, rest, ok := strings.Cut(rest, "/")
	if !ok {
		return TileCoord{}, false
	}
	var t TileCoord
	switch lvl {
	case "data":
		t.L = -1
	case "names":
		t.L = -2
	default:
		if lvl == "" || (len(lvl) > 1 && lvl[0] == '0') {
			return TileCoord{}, false
		}
		l, err := strconv.Atoi(lvl)
		// c2sp.org/tlog-tiles limits L to 0..63; the property only asks for
		// canonical round trips, so larger levels are not demanded to fail.
		if err != nil || l < 0 || strconv.Itoa(l) != lvl {
			return TileCoord{}, false
		}
		t.L = l
	}
	t.W = 256
	if i := strings.Index(rest, ".p/"); i >= 0 {
		ws := rest[i+3:]
		w, err := strconv.Atoi(ws)
		if err != nil || w < 1 || w > 255 || strconv.Itoa(w) != ws {
			return TileCoord{}, false
		}
		t.W = w
		rest = rest[:i]
	}
	parts := strings.Split(rest, "/")
	var n int64
	for i, part := range parts {
		last := i == len(parts)-1
		if !last {
			if !strings.HasPrefix(part, "x") {
				return TileCoord{}, false
			}
			part = part[1:]
		}
		if len(part) != 3 {
			return TileCoord{}, false
		}
		for _, c := range part {
			if c < '0' || c > '9' {
				return TileCoord{}, false
			}
		}
		v, _ := strconv.Atoi(part)
		if i == 0 && len(parts) > 1 && v == 0 {
			return TileCoord{}, false // non-canonical leading x000
		}
		if n > (1<<62)/1000 {
			return TileCoord{}, false
		}
		n = n*1000 + int64(v)
	}
	t.N = n
	return t, true
}

// refLayout returns every tile a tree of the given size requires: at each
// level all full tiles and the right-edge partial; data (and names when
// withNames) mirror level 0.
func refLayout(size int64, withNames bool) []TileCoord {
	var out []TileCoord
	for L := 0; ; L++ {
		cnt := size >> (8 * uint(L))
		if cnt == 0 {
			break
		}
		for n := int64(0); n < cnt/256; n++ {
			out = append(out, TileCoord{L, n, 256})
		}
		if w := int(cnt % 256); w > 0 {
			out = append(out, TileCoord{L, cnt / 256, w})
		}
		if L == 0 {
			for n := int64(0); n < cnt/256; n++ {
				out = append(out, TileCoord{-1, n, 256})
				if withNames {
					out = append(out, TileCoord{-2, n, 256})
				}
			}
			if w := int(cnt % 256); w > 0 {
				out = append(out, TileCoord{-1, cnt / 256, w})
				if withNames {
					out = append(out, TileCoord{-2, cnt / 256, w})
				}
			}
		}
	}
	return out
}

// refHashTile renders the bytes of hash tile t for the leaf hashes in m.
func refHashTile(m *merkleCache, t TileCoord) []byte {
	span := 1 << (8 * uint(t.L))
	out := make([]byte, 0, 32*t.W)
	for i := 0; i < t.W; i++ {
		idx := int(t.N)*256 + i
		h := m.rng(idx*span, (idx+1)*span)
		out = append(out, h[:]...)
	}
	return out
}

// ---- signed notes and checkpoints ----------------------------------------

type RefSig struct {
	Name    string
	KeyHash uint32
	Blob    []byte // signature bytes after the 4-byte key hash
	Line    string
}

type RefNote struct {
	Text string // including final newline
	Sigs []RefSig
}

func refParseNote(b []byte) (*RefNote, error) {
	i := bytes.LastIndex(b, []byte("\n\n"))
	if i < 0 {
		return nil, errors.New("no signature separator")
	}
	n := &RefNote{Text: string(b[:i+1])}
	sigs := string(b[i+2:])
	if sigs == "" || !strings.HasSuffix(sigs, "\n") {
		return nil, errors.New("malformed signature block")
	}
	for _, line := range strings.Split(strings.TrimSuffix(sigs, "\n"), "\n") {
		rest, ok := strings.CutPrefix(line, "— ")
		if !ok {
			return nil, fmt.Errorf("malformed signature line %q", line)
		}
		name, b64, ok := strings.Cut(rest, " ")
		if !ok || name == "" {
			return nil, fmt.Errorf("malformed signature line %q", line)
		}
		raw, err := base64.StdEncoding.DecodeString(b64)
		if err != nil || len(raw) < 5 {
			return nil, fmt.Errorf("malformed signature line %q", line)
		}
		n.Sigs = append(n.Sigs, RefSig{Name: name, KeyHash: binary.BigEndian.Uint32(raw), Blob: raw[4:], Line: line + "\n"})
	}
	return n, nil
}

type RefCheckpoint struct {
	Origin string
	Size   int64
	Root   Hash
	Ext    string
}

func refParseCheckpointText(text string) (*RefCheckpoint, error) {
	lines := strings.SplitN(text, "\n", 4)
	if len(lines) < 4 {
		return nil, errors.New("too few lines")
	}
	c := &RefCheckpoint{Origin: lines[0], Ext: lines[3]}
	if c.Origin == "" {
		return nil, errors.New("empty origin")
	}
	n, err := strconv.ParseInt(lines[1], 10, 64)
	if err != nil || n < 0 || strconv.FormatInt(n, 10) != lines[1] {
		return nil, errors.New("bad size")
	}
	c.Size = n
	h, err := base64.StdEncoding.DecodeString(lines[2])
	if err != nil || len(h) != 32 {
		return nil, errors.New("bad root")
	}
	c.Root = Hash(h)
	return c, nil
}

func refFormatCheckpoint(origin string, size int64, root Hash) string {
	return origin + "\n" + strconv.FormatInt(size, 10) + "\n" + base64.StdEncoding.EncodeToString(root[:]) + "\n"
}

// refNoteKeyHash is the signed-note key hash: first 4 bytes of
// SHA-256(name || "\n" || type byte || key material).
func refNoteKeyHash(name string, typ byte, key []byte) uint32 {
	h := sha256.New()
	h.Write([]byte(name))
	h.Write([]byte("\n"))
	h.Write([]byte{typ})
	h.Write(key)
	return binary.BigEndian.Uint32(h.Sum(nil))
}

// refRFC6962KeyHash: static-ct-api checkpoints use signature type 0x05 with
// the log ID (SHA-256 of the SPKI) as key material.
func refRFC6962KeyHash(name string, pub crypto.PublicKey) (uint32, Hash, error) {
	spki, err := x509.MarshalPKIXPublicKey(pub)
	if err != nil {
		return 0, Hash{}, err
	}
	id := sha256.Sum256(spki)
	return refNoteKeyHash(name, 0x05, id[:]), id, nil
}

// RefSTH is what an RFC6962NoteSignature plus the note text commit to.
type RefSTH struct {
	Origin    string
	Size      int64
	Root      Hash
	Timestamp int64
}

// refVerifyRFC6962Checkpoint verifies the RFC 6962 tree head signature carried
// by a static-ct-api checkpoint, independently of sunlight: note parsing by
// refParseNote, STH verification by certificate-transparency-go.
func refVerifyRFC6962Checkpoint(b []byte, name string, pub crypto.PublicKey) (*RefSTH, error) {
	n, err := refParseNote(b)
	if err != nil {
		return nil, err
	}
	return refVerifyRFC6962Note(n, name, pub)
}

func refVerifyRFC6962Note(n *RefNote, name string, pub crypto.PublicKey) (*RefSTH, error) {
	c, err := refParseCheckpointText(n.Text)
	if err != nil {
		return nil, err
	}
	kh, _, err := refRFC6962KeyHash(name, pub)
	if err != nil {
		return nil, err
	}
	sv, svErr := ct.NewSignatureVerifier(pub)
	var lastErr error = errors.New("no signature by the log key")
	for _, s := range n.Sigs {
		if s.Name != name || s.KeyHash != kh {
			continue
		}
		sth, err := refSTHFromBlob(c, s.Blob)
		if err != nil {
			lastErr = err
			continue
		}
		if svErr != nil {
			// certificate-transparency-go only supports P-256 and RSA keys; for
			// other curves verify the same STH structure with the standard library.
			if err := refVerifySTHDirect(pub, sth); err != nil {
				lastErr = err
				continue
			}
		} else if err := sv.VerifySTHSignature(*sth); err != nil {
			lastErr = err
			continue
		}
		return &RefSTH{Origin: c.Origin, Size: c.Size, Root: c.Root, Timestamp: int64(sth.Timestamp)}, nil
	}
	return nil, lastErr
}

func refSTHFromBlob(c *RefCheckpoint, blob []byte) (*ct.SignedTreeHead, error) {
	if len(blob) < 12 {
		return nil, errors.New("short RFC6962NoteSignature")
	}
	ts := binary.BigEndian.Uint64(blob[:8])
	hashAlg, sigAlg := blob[8], blob[9]
	l := int(blob[10])<<8 | int(blob[11])
	if len(blob) != 12+l {
		return nil, errors.New("RFC6962NoteSignature length mismatch")
	}
	if ts > 1<<63-1 {
		return nil, errors.New("timestamp overflow")
	}
	return &ct.SignedTreeHead{
		Version:        ct.V1,
		TreeSize:       uint64(c.Size),
		Timestamp:      ts,
		SHA256RootHash: ct.SHA256Hash(c.Root),
		TreeHeadSignature: ct.DigitallySigned{
			Algorithm: cttls.SignatureAndHashAlgorithm{Hash: cttls.HashAlgorithm(hashAlg), Signature: cttls.SignatureAlgorithm(sigAlg)},
			Signature: blob[12:],
		},
	}, nil
}

func refVerifySTHDirect(pub crypto.PublicKey, sth *ct.SignedTreeHead) error {
	var root Hash
	copy(root[:], sth.SHA256RootHash[:])
	msg := []byte{0, 1}
	msg = putU64(msg, sth.Timestamp)
	msg = putU64(msg, sth.TreeSize)
	msg = append(msg, root[:]...)
	d := sha256.Sum256(msg)
	ds := sth.TreeHeadSignature
	if ds.Algorithm.Hash != cttls.SHA256 {
		return errors.New("unsupported hash algorithm")
	}
	switch k := pub.(type) {
	case *ecdsa.PublicKey:
		if ds.Algorithm.Signature != cttls.ECDSA {
			return errors.New("signature algorithm does not match an ECDSA key")
		}
		if !ecdsa.VerifyASN1(k, d[:], ds.Signature) {
			return errors.New("ECDSA verification failed")
		}
		return nil
	case *rsa.PublicKey:
		if ds.Algorithm.Signature != cttls.RSA {
			return errors.New("signature algorithm does not match an RSA key")
		}
		return rsa.VerifyPKCS1v15(k, crypto.SHA256, d[:], ds.Signature)
	}
	return errors.New("unsupported key type")
}

// refVerifySCT verifies an SCT signature over the independently built leaf.
func refVerifySCT(pub crypto.PublicKey, e *RefEntry, sig []byte) error {
	var ds cttls.DigitallySigned
	rest, err := cttls.Unmarshal(sig, &ds)
	if err != nil {
		return err
	}
	if len(rest) != 0 {
		return errors.New("trailing bytes after DigitallySigned")
	}
	// The SCT signature input is identical to MerkleTreeLeaf but for the
	// second byte being signature_type = certificate_timestamp (0), same value.
	return cttls.VerifySignature(pub, refMerkleTreeLeaf(e), ds)
}
