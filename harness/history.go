package verifharness

// The shared log-history generator and runner (C01-C04, C08).

import (
	"context"
	"errors"
	"fmt"
	"os"
	"strings"

	"filippo.io/sunlight/internal/ctlog"
)

type Step struct {
	Op    string     `json:"op"` // submit | round | restart | cacheloss | dup
	K     int        `json:"k,omitempty"`
	Clock string     `json:"clock,omitempty"` // round: normal | stall | back | jump | plus1
	Plan  *RoundPlan `json:"plan,omitempty"`
}

func (s Step) String() string {
	switch s.Op {
	case "submit", "dup":
		return fmt.Sprintf("%s(%d)", s.Op, s.K)
	case "round":
		c := ""
		if s.Clock != "" && s.Clock != "normal" {
			c = "," + s.Clock
		}
		return fmt.Sprintf("round(%s%s)", s.Plan.String(), c)
	}
	return s.Op
}

type History struct {
	Start int    `json:"start"` // pre-built tree size
	Seed  int64  `json:"seed"`  // entry-content seed
	Steps []Step `json:"steps"`
}

func (h *History) String() string {
	var s []string
	for _, st := range h.Steps {
		s = append(s, st.String())
	}
	return fmt.Sprintf("start=%d %s", h.Start, strings.Join(s, " "))
}

var submitSizes = []int{0, 1, 1, 2, 3, 5, 254, 255, 256, 257, 258, 511, 513}

func genHistory(rng *Rng, starts []int, maxSteps int, faults bool) *History {
	h := &History{Start: pickOne(rng, starts), Seed: int64(rng.U64() >> 1)}
	n := 3 + rng.Intn(maxSteps-2)
	big := 0
	for len(h.Steps) < n {
		switch v := rng.Intn(100); {
		case v < 40:
			k := pickOne(rng, submitSizes)
			if k > 100 {
				big++
				if big > 2 {
					k = rng.Intn(6)
				}
			}
			h.Steps = append(h.Steps, Step{Op: "submit", K: k})
		case v < 46:
			h.Steps = append(h.Steps, Step{Op: "dup", K: 1 + rng.Intn(3)})
		case v < 88:
			st := Step{Op: "round", Clock: "normal"}
			if faults {
				switch f := rng.Intn(100); {
				case f < 45:
				case f < 65:
					st.Plan = &RoundPlan{Faults: []FaultSpec{{Idx: rng.Intn(8), Applied: rng.Bool(), Kind: pickOne(rng, faultKinds)}}}
				case f < 72:
					st.Plan = &RoundPlan{Faults: []FaultSpec{{Idx: rng.Intn(5), Applied: rng.Bool(), Kind: pickOne(rng, faultKinds)}, {Idx: rng.Intn(9), Applied: rng.Bool(), Kind: pickOne(rng, faultKinds)}}}
				case f < 86:
					st.Plan = &RoundPlan{Crash: &CrashSpec{Phase: "idx", Idx: rng.Intn(9), Applied: rng.Bool()}}
				default:
					st.Plan = &RoundPlan{Crash: &CrashSpec{Phase: "tiles", Mask: rng.U64()}}
				}
				switch c := rng.Intn(100); {
				case c < 78:
				case c < 84:
					st.Clock = "stall"
				case c < 90:
					st.Clock = "back"
				case c < 95:
					st.Clock = "jump"
				default:
					st.Clock = "plus1"
				}
			}
			h.Steps = append(h.Steps, st)
		case v < 95:
			h.Steps = append(h.Steps, Step{Op: "restart"})
		default:
			h.Steps = append(h.Steps, Step{Op: "cacheloss"})
		}
	}
	// always end with a clean round and a restart so that everything settles
	h.Steps = append(h.Steps, Step{Op: "submit", K: 1 + rng.Intn(3)}, Step{Op: "round", Clock: "normal"}, Step{Op: "restart"}, Step{Op: "submit", K: 1}, Step{Op: "round", Clock: "normal"})
	return h
}

// ---- pre-built states ------------------------------------------------------

type baseStates struct {
	envs map[int]*LogEnv
}

// buildBases renders logs of the given sizes with the real sequencer (two or
// three rounds each, so that stale partial tiles exist), to be forked.
func buildBases(r *Run, rng *Rng, sizes []int) *baseStates {
	bs := &baseStates{envs: map[int]*LogEnv{}}
	for _, sz := range sizes {
		env := NewLogEnv(r, rng.Fork("base"))
		env.AuditPub = true
		simNow.Add(1000)
		if err := env.Create(nil); err != nil {
			panic(fmt.Sprintf("CreateLog: %v", err))
		}
		li, err := env.Load("base", nil)
		if err != nil {
			panic(fmt.Sprintf("LoadLog: %v", err))
		}
		left := sz
		erng := rng.Fork("entries")
		for left > 0 {
			k := left
			if left > 3 {
				k = 1 + erng.Intn(left)
			}
			var subs []*Sub
			for i := 0; i < k; i++ {
				subs = append(subs, li.Submit(genEntry(erng, cheapShape(erng)), false))
			}
			simNow.Add(1000)
			if err, _ := li.Sequence(func() int { return 1 }); err != nil {
				panic(fmt.Sprintf("base round: %v", err))
			}
			for _, s := range subs {
				li.WaitAck(context.Background(), s)
			}
			left -= k
		}
		li.Abandon()
		env.mu.Lock()
		env.insts = nil
		env.mu.Unlock()
		env.CheckAcks()
		bs.envs[sz] = env
	}
	return bs
}

func (bs *baseStates) Cleanup() {
	for _, e := range bs.envs {
		e.Cleanup()
	}
}

func cheapShape(rng *Rng) int {
	if rng.Intn(10) == 0 {
		return ShapeRealX509
	}
	if rng.Bool() {
		return ShapeBlobX509
	}
	return ShapeBlobPrecert
}

// ---- runner ----------------------------------------------------------------

type histRunner struct {
	env      *LogEnv
	rng      *Rng
	li       *LogInst
	pending  []*Sub
	all      []*ctlog.PendingLogEntry
	maxClock int64
	instN    int
	// stats
	Rounds, Commits, Crashes, Fatal, NonFatal, Restarts, LoadFailures int
	trace                                                             []string
}

func (hr *histRunner) note(f string, a ...any) {
	if len(hr.trace) < 200 {
		hr.trace = append(hr.trace, fmt.Sprintf(f, a...))
	}
}

func (hr *histRunner) ensure() bool {
	if hr.li != nil {
		return true
	}
	// sane clock for the restart
	if simNow.Load() <= hr.maxClock {
		simNow.Store(hr.maxClock + 7)
	}
	hr.instN++
	li, err := hr.env.Load(fmt.Sprintf("i%d", hr.instN), nil)
	hr.Restarts++
	if err != nil {
		hr.LoadFailures++
		hr.env.violate("restart-failed", "LoadLog failed on a clean restart: %v", err)
		hr.note("load failed: %v", err)
		return false
	}
	hr.li = li
	return true
}

func (hr *histRunner) drop() {
	if hr.li != nil {
		hr.li.Abandon()
		hr.li = nil
	}
	hr.pending = nil
}

func (hr *histRunner) run(h *History) {
	for _, st := range h.Steps {
		if hr.env.R.NumViolations() > 0 && hr.LoadFailures > 0 {
			return
		}
		switch st.Op {
		case "submit":
			if !hr.ensure() {
				return
			}
			for i := 0; i < st.K; i++ {
				e := genEntry(hr.rng, genShapeCheap(hr.rng, st.K))
				hr.all = append(hr.all, e)
				hr.pending = append(hr.pending, hr.li.Submit(e, false))
			}
		case "dup":
			if !hr.ensure() || len(hr.all) == 0 {
				continue
			}
			for i := 0; i < st.K; i++ {
				e := cloneEntry(hr.all[hr.rng.Intn(len(hr.all))])
				hr.pending = append(hr.pending, hr.li.Submit(e, false))
			}
		case "round":
			if !hr.ensure() {
				return
			}
			hr.round(st)
		case "restart":
			hr.drop()
			if !hr.ensure() {
				return
			}
		case "cacheloss":
			hr.drop()
			os.Remove(hr.env.Cache)
			os.Remove(hr.env.Cache + "-wal")
			os.Remove(hr.env.Cache + "-shm")
			hr.env.NoDedup = true
		}
	}
}

func genShapeCheap(rng *Rng, k int) int {
	if k > 20 {
		return cheapShape(rng)
	}
	return genShape(rng)
}

func (hr *histRunner) round(st Step) {
	prev := simNow.Load()
	if prev > hr.maxClock {
		hr.maxClock = prev
	}
	lastTs := prev
	if sth := hr.env.LockSTH(); sth != nil {
		lastTs = sth.Timestamp
	}
	switch st.Clock {
	case "stall":
		simNow.Store(lastTs)
	case "back":
		simNow.Store(lastTs - int64(1+hr.rng.Intn(5000)))
	case "jump":
		simNow.Store(prev + 3_600_000)
	case "plus1":
		simNow.Store(prev + 1)
	default:
		simNow.Store(prev + int64(2+hr.rng.Intn(2000)))
	}
	if now := simNow.Load(); now > hr.maxClock {
		hr.maxClock = now
	}
	ps, want := st.Plan.Install(hr.li.In)
	hr.Rounds++
	before := len(hr.env.lockObsSnapshot())
	err, crashed := hr.li.Sequence(want)
	hr.li.In.Plan = nil
	committed := len(hr.env.lockObsSnapshot()) > before
	if committed {
		hr.Commits++
	}
	hr.env.R.DistinctKey("ops:" + opsShape(ps.Recorded()))
	switch {
	case crashed:
		hr.Crashes++
		hr.note("round crashed: %s", opsShape(ps.Recorded()))
		hr.drop()
	case err != nil:
		hr.Fatal++
		if !errors.Is(err, ctlog.VerifErrFatal) {
			hr.env.violate("round-error-not-fatal-class", "sequencing returned a non-fatal-class error to the loop: %v", err)
		}
		hr.note("round fatal: %v", err)
		// A real sequencer loop returns here; pending and future submissions fail.
		for _, s := range hr.pending {
			a := hr.li.WaitAck(context.Background(), s)
			if a.OK && a.Sub.Source == "sequencer" && a.Sub.Round == hr.li.Round-1 {
				hr.env.violate("ack-from-fatal-round", "submission %d acknowledged by a round that ended with a fatal error", s.ID)
			}
		}
		hr.drop()
	default:
		okAcks := 0
		for _, s := range hr.pending {
			if a := hr.li.WaitAck(context.Background(), s); a.OK {
				okAcks++
			}
		}
		if okAcks == 0 && len(hr.pending) > 0 {
			hr.NonFatal++
		}
		hr.pending = nil
	}
	if st.Clock == "stall" || st.Clock == "back" {
		// The clock is at or before the last committed tree head's timestamp.
		if committed {
			hr.env.violate("commit-without-clock-progress", "a round committed a checkpoint although the clock (%s) was not past the last committed tree head", st.Clock)
		} else {
			hr.env.R.Count("clock_anomaly_rounds_refused", 1)
		}
		simNow.Store(hr.maxClock + 11)
	}
}

func (e *LogEnv) lockObsSnapshot() []CpObs {
	e.mu.Lock()
	defer e.mu.Unlock()
	return e.LockObs
}
