package verifharness

import (
	"context"
	"fmt"
	"runtime"
	"sync"
	"testing"
	"time"
)

// TestC04Audit: StorageAudit at every checkpoint publication (restricted to
// uploads that had returned before the checkpoint upload was issued), the
// Immutable and DiscardOnlyStaging monitors on every call, over histories with
// the full entry-shape mix and fault/crash plans.
func TestC04Audit(t *testing.T) {
	r := NewRun(t, "C04", "audit")
	r.Rule = "seeded histories (all entry shapes: blob/real certificates and precertificates, 0-3 issuers, 60 KB entries; faults, crashes, restarts) with a byte-exact audit of every required object (hash, data, names tiles, issuers) at each checkpoint publication against uploads completed before it; distinct = (start size, op-sequence shape of a round)"
	rng := NewRng(r.Seed, "c04")
	bases := buildBases(r, rng, c01Starts)
	defer bases.Cleanup()
	var h History
	if replayCase("C04", "audit", &h) {
		runOneHistory(r, bases, &h, true)
		return
	}
	n := pick(500, 5000)
	for i := 0; i < n; i++ {
		hg := genHistory(rng.Fork(fmt.Sprint("h", i)), c01Starts, 12, i%3 != 0)
		if !mine(i) {
			continue
		}
		hr := runOneHistory(r, bases, hg, true)
		if i < 30 {
			r.Sample(map[string]any{"history": hg.String(), "rounds": hr.Rounds, "commits": hr.Commits})
		}
		r.DistinctKey(fmt.Sprintf("start:%d", hg.Start))
	}
	if r.Counter("publication_audits") == 0 {
		r.Inconcl("no publication was audited")
	}
}

// TestC04Growth: one log grown through many small rounds across tile
// boundaries, audited at every publication (every stale partial and every
// level-1 tile transition is passed through).
func TestC04Growth(t *testing.T) {
	r := NewRun(t, "C04", "growth")
	r.Rule = "one log grown by rounds of seeded sizes through every size in a window around tile boundaries; every publication audited; distinct = tree size at publication"
	rng := NewRng(r.Seed, "c04g")
	bases := buildBases(r, rng, []int{0, 250, 505, 760})
	defer bases.Cleanup()
	starts := []int{0, 250, 505, 760}
	for si, start := range starts {
		if !mine(si) {
			continue
		}
		h := &History{Start: start, Seed: int64(start)}
		steps := pick(40, 400)
		for i := 0; i < steps; i++ {
			k := pickOne(rng, []int{1, 1, 2, 3, 4, 7})
			h.Steps = append(h.Steps, Step{Op: "submit", K: k}, Step{Op: "round", Clock: "normal"})
			if rng.Intn(9) == 0 {
				h.Steps = append(h.Steps, Step{Op: "restart"})
			}
		}
		env := bases.envs[start].Fork()
		env.CaseInfo = func() any { return h }
		hr := &histRunner{env: env, rng: NewRng(h.Seed, "entries")}
		hr.run(h)
		hr.drop()
		env.FinalChecks()
		env.CheckAcks()
		for _, o := range env.PubObs {
			r.DistinctKey(fmt.Sprint("size:", o.STH.Size))
		}
		r.Eval(int64(hr.Rounds))
		r.Sample(map[string]any{"start": start, "rounds": hr.Rounds, "final_size": env.TruthLen()})
		env.Cleanup()
	}
}

// TestC04IssuerRace: concurrent submissions share a brand-new issuer whose
// upload is held inside the backend call while a sequencing round runs. An
// entry may only be pooled once its issuers are stored, so the round must not
// publish a tree that references a missing issuer (audited at publication
// against the stored leaves).
func TestC04IssuerRace(t *testing.T) {
	r := NewRun(t, "C04", "issuerrace")
	r.Rule = "2-4 concurrent submissions sharing a new issuer, issuer upload gated inside the backend call (optionally failing, applied or not) while 1-2 sequencing rounds run, then released; every publication audited against the stored leaves (issuer objects must exist before the checkpoint upload is issued); distinct = (submitters, rounds while held, fault kind)"
	rng := NewRng(r.Seed, "c04i")
	n := pick(60, 1200)
	for i := 0; i < n; i++ {
		crng := rng.Fork(fmt.Sprint(i))
		if !mine(i) {
			continue
		}
		subs := 2 + crng.Intn(3)
		rounds := 1 + crng.Intn(2)
		fault := crng.Intn(4) // 0,1: none; 2: fail not applied; 3: fail applied
		runIssuerRace(r, crng, subs, rounds, fault)
		r.DistinctKey(fmt.Sprintf("%d/%d/%d", subs, rounds, fault))
	}
}

func runIssuerRace(r *Run, rng *Rng, nsubs, rounds, fault int) {
	env := NewLogEnv(r, rng.Fork("env"))
	env.NoTruth = true
	env.AuditPub = true
	info := map[string]any{"workload": "issuer-race", "submitters": nsubs, "rounds_while_held": rounds, "fault": fault}
	env.CaseInfo = func() any { return info }
	defer env.Cleanup()
	simAuto.Store(true)
	defer simAuto.Store(false)
	if err := env.Create(nil); err != nil {
		panic(err)
	}
	li, err := env.Load("I", nil)
	if err != nil {
		panic(err)
	}
	r.Eval(1)
	hold := make(chan struct{})
	held := make(chan struct{}, 16)
	li.In.Plan = func(c *Call) Decision {
		d := decideOK
		if c.Kind == OpUpload && len(c.Key) > 7 && c.Key[:7] == "issuer/" {
			switch fault {
			case 2:
				d = Decision{Apply: false, Err: rotatingInjectedErr()}
			case 3:
				d = Decision{Apply: true, Err: rotatingInjectedErr()}
			}
			d.Gate = func() {
				held <- struct{}{}
				<-hold
			}
		}
		return d
	}
	issuer := append([]byte("\x01fresh-issuer-"), rng.Bytes(24)...)
	aw := &asyncWaiters{}
	var wg sync.WaitGroup
	for i := 0; i < nsubs; i++ {
		e := genEntry(rng, cheapShape(rng))
		e.Issuers = [][]byte{issuer}
		wg.Add(1)
		go func() {
			defer wg.Done()
			s := li.SubmitConcurrent(e, false)
			aw.start(li, s)
		}()
		if i == 0 {
			<-held // the first submitter is inside the issuer upload
		}
	}
	// give the other submitters the chance to reach the pool (they must not)
	for i := 0; i < 50; i++ {
		runtime.Gosched()
	}
	time.Sleep(2 * time.Millisecond)
	for i := 0; i < rounds; i++ {
		if err, _ := li.Sequence(nil); err != nil {
			env.violate("round-failed", "round failed while an issuer upload was in flight: %v", err)
		}
	}
	close(hold)
	wg.Wait()
	li.Sequence(nil)
	li.Sequence(nil)
	aw.wg.Wait()
	li.Abandon()
	env.FinalChecks()
	env.CheckAcks()
	env.CheckAcksFinal()
	if sth := env.PubSTH(); sth != nil {
		for _, p := range env.AuditStored(sth) {
			env.violate("final-audit:"+p.Class, "final audit: %s", p.Msg)
		}
	}
}

// TestC04Level2Boundary (thorough tier): one log grown across 65 536 leaves,
// where the first level-2 tile appears; every publication in the window
// 65 530..65 545 is audited byte-exactly.
func TestC04Level2Boundary(t *testing.T) {
	r := NewRun(t, "C04", "level2boundary")
	r.Rule = "one log built to 65 528 leaves in large rounds, then grown by rounds of 1-3 entries (with a restart and a crash+recovery inside the window) to 65 545; every publication in the window is audited byte-exactly against the reference rendering incl. tile/2/000.p/1 and tile/1/255 -> tile/1/000..255; distinct = tree size at publication"
	rng := NewRng(r.Seed, "c04big")
	env := NewLogEnv(r, rng.Fork("env"))
	defer env.Cleanup()
	h := &History{Start: 0}
	env.CaseInfo = func() any { return map[string]any{"workload": "level2-boundary", "size": env.TruthLen()} }
	simNow.Add(1000)
	if err := env.Create(nil); err != nil {
		t.Fatal(err)
	}
	li, err := env.Load("big", nil)
	if err != nil {
		t.Fatal(err)
	}
	erng := rng.Fork("entries")
	grow := func(k int) {
		var subs []*Sub
		for i := 0; i < k; i++ {
			subs = append(subs, li.Submit(genEntry(erng, ShapeBlobX509), false))
		}
		simNow.Add(1000)
		if err, _ := li.Sequence(nil); err != nil {
			t.Fatalf("round failed: %v", err)
		}
		for _, s := range subs {
			li.WaitAck(context.Background(), s)
		}
	}
	for env.TruthLen() < 65528 {
		grow(min(4000, 65528-env.TruthLen()))
	}
	env.AuditPub = true
	for env.TruthLen() < 65545 {
		grow(1 + erng.Intn(3))
		r.DistinctKey(fmt.Sprint("size:", env.TruthLen()))
		r.Eval(1)
		if n := env.TruthLen(); n == 65535 || n == 65536 || n == 65537 {
			// restart in the window
			li.Abandon()
			simNow.Add(10)
			li, err = env.Load("big2", nil)
			if err != nil {
				env.violate("restart-failed", "LoadLog at size %d failed: %v", n, err)
				return
			}
		}
	}
	// crash after the lock commit of a round that crosses nothing, recover, audit
	li.Submit(genEntry(erng, ShapeBlobX509), false)
	simNow.Add(10)
	_, want := (&RoundPlan{Crash: &CrashSpec{Phase: "tiles", Mask: 0x5}}).Install(li.In)
	li.Sequence(want)
	li.Abandon()
	simNow.Add(10)
	li, err = env.Load("big3", nil)
	if err != nil {
		env.violate("restart-failed", "LoadLog after a crash at the level-2 boundary failed: %v", err)
		return
	}
	grow(2)
	li.Abandon()
	if sth := env.PubSTH(); sth != nil {
		for _, p := range env.Audit(sth.Size, sth.Timestamp, 0) {
			env.violate("final-audit:"+p.Class, "final audit at size %d: %s", sth.Size, p.Msg)
		}
	}
	env.FinalChecks()
	_ = h
}
