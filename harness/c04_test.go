package verifharness

import (
	"fmt"
	"testing"
)

// TestC04Audit: StorageAudit at every checkpoint publication (restricted to
// uploads that had returned before the checkpoint upload was issued), the
// Immutable and DiscardOnlyStaging monitors on every call, over histories with
// the full entry-shape mix and fault/crash plans.
func TestC04Audit(t *testing.T) {
	r := NewRun(t, "C04", "audit")
	r.Rule = "seeded histories (all entry shapes: blob/real certificates and precertificates, 0-3 issuers, 60 KB entries; faults, crashes, restarts) with a byte-exact audit of every required object (hash, data, names tiles, issuers) at each checkpoint publication against uploads completed before it; distinct = (start size, op-sequence shape of a round)"
	rng := NewRng(r.Seed, "c04")
	bases := buildBases(r, rng, c01Starts)
	defer bases.Cleanup()
	var h History
	if replayCase("C04", "audit", &h) {
		runOneHistory(r, bases, &h, true)
		return
	}
	n := pick(260, 5000)
	for i := 0; i < n; i++ {
		hg := genHistory(rng.Fork(fmt.Sprint("h", i)), c01Starts, 12, i%3 != 0)
		if !mine(i) {
			continue
		}
		hr := runOneHistory(r, bases, hg, true)
		if i < 30 {
			r.Sample(map[string]any{"history": hg.String(), "rounds": hr.Rounds, "commits": hr.Commits})
		}
		r.DistinctKey(fmt.Sprintf("start:%d", hg.Start))
	}
	if r.Counter("publication_audits") == 0 {
		r.Inconcl("no publication was audited")
	}
}

// TestC04Growth: one log grown through many small rounds across tile
// boundaries, audited at every publication (every stale partial and every
// level-1 tile transition is passed through).
func TestC04Growth(t *testing.T) {
	r := NewRun(t, "C04", "growth")
	r.Rule = "one log grown by rounds of seeded sizes through every size in a window around tile boundaries; every publication audited; distinct = tree size at publication"
	rng := NewRng(r.Seed, "c04g")
	bases := buildBases(r, rng, []int{0, 250, 505, 760})
	defer bases.Cleanup()
	starts := []int{0, 250, 505, 760}
	for si, start := range starts {
		if !mine(si) {
			continue
		}
		h := &History{Start: start, Seed: int64(start)}
		steps := pick(40, 400)
		for i := 0; i < steps; i++ {
			k := pickOne(rng, []int{1, 1, 2, 3, 4, 7})
			h.Steps = append(h.Steps, Step{Op: "submit", K: k}, Step{Op: "round", Clock: "normal"})
			if rng.Intn(9) == 0 {
				h.Steps = append(h.Steps, Step{Op: "restart"})
			}
		}
		env := bases.envs[start].Fork()
		env.CaseInfo = func() any { return h }
		hr := &histRunner{env: env, rng: NewRng(h.Seed, "entries")}
		hr.run(h)
		hr.drop()
		env.FinalChecks()
		env.CheckAcks()
		for _, o := range env.PubObs {
			r.DistinctKey(fmt.Sprint("size:", o.STH.Size))
		}
		r.Eval(int64(hr.Rounds))
		r.Sample(map[string]any{"start": start, "rounds": hr.Rounds, "final_size": env.TruthLen()})
		env.Cleanup()
	}
}
