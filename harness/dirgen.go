package verifharness

// Real on-disk log and witness/mirror directories produced by the real
// sequencer / witness on ctlog.LocalBackend, with the harness holding the
// ground truth. Shared by C18, C19, C20.

import (
	"context"
	"crypto/ecdsa"
	"crypto/sha256"
	"crypto/x509"
	"encoding/json"
	"fmt"
	"io/fs"
	"os"
	"path/filepath"
	"sort"
	"sync"
	"time"

	"filippo.io/mldsa"
	"filippo.io/sunlight/internal/ctlog"
)

type DiskLog struct {
	Dir      string
	Name     string
	Key      *ecdsa.PrivateKey
	WKey     *mldsa.PrivateKey
	Cfg      *ctlog.Config
	Log      *ctlog.Log
	W        *World
	Truth    []*RefEntry
	Backend  ctlog.Backend
	FailKeys *failKeyBackend
	Limit    time.Time
}

// failKeyBackend passes everything to the wrapped backend except uploads of
// the keys listed in fail, which return an error without touching the disk
// (a checkpoint upload that did not happen: the process stopped or the
// request failed after the tiles were written).
type failKeyBackend struct {
	ctlog.Backend
	mu   sync.Mutex
	fail map[string]bool
}

func (b *failKeyBackend) setFail(key string, on bool) {
	b.mu.Lock()
	defer b.mu.Unlock()
	if b.fail == nil {
		b.fail = map[string]bool{}
	}
	b.fail[key] = on
}

func (b *failKeyBackend) Upload(ctx context.Context, key string, data []byte, opts *ctlog.UploadOptions) error {
	b.mu.Lock()
	f := b.fail[key]
	b.mu.Unlock()
	if f {
		return fmt.Errorf("verif: upload of %s did not happen", key)
	}
	return b.Backend.Upload(ctx, key, data, opts)
}

func (d *DiskLog) LogID() [32]byte {
	spki, _ := x509.MarshalPKIXPublicKey(d.Key.Public())
	return sha256.Sum256(spki)
}

func newDiskLog(rng *Rng, dir, name string) *DiskLog {
	os.MkdirAll(dir, 0o755)
	d := &DiskLog{Dir: dir, Name: name, Key: detECDSA(rng), WKey: detMLDSA(rng), W: NewWorld(), Limit: time.Date(2099, 1, 1, 0, 0, 0, 0, time.UTC)}
	b, err := ctlog.NewLocalBackend(context.Background(), dir, discardLogger)
	if err != nil {
		panic(err)
	}
	d.FailKeys = &failKeyBackend{Backend: b}
	d.Backend = d.FailKeys
	d.Cfg = &ctlog.Config{Name: name, Key: d.Key, WitnessKey: d.WKey, Cache: filepath.Join(filepath.Dir(dir), filepath.Base(dir)+"-cache.db"),
		Backend: d.Backend, Lock: &LockBackend{In: NewInst(d.W, name)}, Log: discardLogger,
		NotAfterStart: time.Date(2024, 1, 1, 0, 0, 0, 0, time.UTC), NotAfterLimit: d.Limit}
	if err := ctlog.CreateLog(context.Background(), d.Cfg); err != nil {
		panic(err)
	}
	d.load()
	d.writeLogJSON(nil)
	return d
}

func (d *DiskLog) load() {
	if d.Log != nil {
		d.Log.CloseCache()
	}
	l, err := ctlog.LoadLog(context.Background(), d.Cfg)
	if err != nil {
		panic(fmt.Sprintf("LoadLog on disk log: %v", err))
	}
	d.Log = l
}

// writeLogJSON writes the log.v3.json fields the read-path tools use.
func (d *DiskLog) writeLogJSON(final *RefSTH) {
	spki, _ := x509.MarshalPKIXPublicKey(d.Key.Public())
	m := map[string]any{
		"description":       d.Name,
		"key":               spki,
		"temporal_interval": map[string]string{"start_inclusive": "2024-01-01T00:00:00Z", "end_exclusive": d.Limit.UTC().Format(time.RFC3339)},
		"log_spec":          "static-ct-api",
	}
	if final != nil {
		m["final_tree_head"] = map[string]any{"sha256_root_hash": final.Root[:], "tree_size": final.Size, "timestamp": final.Timestamp}
	}
	j, _ := json.MarshalIndent(m, "", "  ")
	if err := d.Backend.Upload(context.Background(), "log.v3.json", j, &ctlog.UploadOptions{ContentType: "application/json"}); err != nil {
		panic(err)
	}
}

// Grow sequences k new entries in one round.
func (d *DiskLog) Grow(rng *Rng, k int) error {
	var waits []ctlog.VerifWaitEntryFunc
	var pes []*ctlog.PendingLogEntry
	for i := 0; i < k; i++ {
		e := genEntry(rng, cheapShape(rng))
		f, _ := d.Log.VerifAddLeafToPool(context.Background(), e, false)
		waits = append(waits, f)
		pes = append(pes, e)
	}
	if err := d.Log.VerifSequence(context.Background()); err != nil {
		return err
	}
	for i, f := range waits {
		le, err := f(context.Background())
		if err != nil {
			return err
		}
		d.Truth = append(d.Truth, pendingToRef(pes[i], le.LeafIndex, le.Timestamp))
	}
	return nil
}

func (d *DiskLog) GrowTo(rng *Rng, size int) {
	for len(d.Truth) < size {
		left := size - len(d.Truth)
		k := left
		if left > 2 {
			k = 1 + rng.Intn(min(left, 300))
		}
		if err := d.Grow(rng, k); err != nil {
			panic(err)
		}
	}
}

func (d *DiskLog) Close() {
	if d.Log != nil {
		d.Log.CloseCache()
		d.Log = nil
	}
}

// PublishedSTH reads and verifies the checkpoint file.
func (d *DiskLog) PublishedSTH() *RefSTH {
	b, err := os.ReadFile(filepath.Join(d.Dir, "checkpoint"))
	if err != nil {
		return nil
	}
	sth, err := refVerifyRFC6962Checkpoint(b, d.Name, d.Key.Public())
	if err != nil {
		return nil
	}
	return sth
}

type fileInfo struct {
	Size  int64
	Sum   string
	Mode  fs.FileMode
	Flags int32
	Dir   bool
}

func snapshotDir(root string) map[string]fileInfo {
	out := map[string]fileInfo{}
	filepath.WalkDir(root, func(p string, de fs.DirEntry, err error) error {
		if err != nil || p == root {
			return nil
		}
		rel, _ := filepath.Rel(root, p)
		st, err := os.Lstat(p)
		if err != nil {
			return nil
		}
		if st.Mode()&os.ModeSymlink != 0 {
			return nil // symbolic links are not regular files of the directory
		}
		fi := fileInfo{Mode: st.Mode(), Dir: de.IsDir()}
		if !de.IsDir() {
			b, _ := os.ReadFile(p)
			fi.Size = int64(len(b))
			fi.Sum = fmt.Sprintf("%x", sha256.Sum256(b))
			fi.Flags, _ = inodeFlags(p)
		}
		out[rel] = fi
		return nil
	})
	return out
}

func sortedPaths(m map[string]fileInfo) []string {
	var out []string
	for k := range m {
		out = append(out, k)
	}
	sort.Strings(out)
	return out
}

// auditDiskTree checks that the tree of the given size is completely readable
// from dir: every required tile is present (a right-edge partial may be
// replaced by the full tile that extends it) with exactly the reference bytes.
func auditDiskTree(dir string, size int64, truth []*RefEntry) string {
	if int64(len(truth)) < size {
		return fmt.Sprintf("tree size %d exceeds the %d known leaves", size, len(truth))
	}
	lh := make([]Hash, size)
	for i := range lh {
		lh[i] = refLeafHash(refMerkleTreeLeaf(truth[i]))
	}
	mc := newMerkleCache(lh)
	read := func(t TileCoord) ([]byte, int) {
		if b, err := os.ReadFile(filepath.Join(dir, filepath.FromSlash(refTilePath(t)))); err == nil {
			return b, t.W
		}
		if t.W < 256 {
			f := t
			f.W = 256
			if b, err := os.ReadFile(filepath.Join(dir, filepath.FromSlash(refTilePath(f)))); err == nil {
				return b, 256
			}
		}
		return nil, 0
	}
	for _, t := range refLayout(size, true) {
		b, w := read(t)
		if b == nil {
			return refTilePath(t) + " (or its full tile) is missing"
		}
		switch {
		case t.L >= 0:
			want := refHashTile(mc, t)
			if len(b) < len(want) || string(b[:len(want)]) != string(want) {
				return refTilePath(t) + " differs from the reference hash tile"
			}
		case t.L == -1:
			raw, err := refGunzip(b)
			if err != nil {
				return refTilePath(t) + ": " + err.Error()
			}
			es, err := refDecodeDataTile(raw, w)
			if err != nil {
				return refTilePath(t) + ": " + err.Error()
			}
			for i := 0; i < t.W; i++ {
				if !es[i].Equal(truth[int(t.N)*256+i]) {
					return fmt.Sprintf("%s entry %d differs from the logged entry", refTilePath(t), i)
				}
			}
		}
	}
	return ""
}
