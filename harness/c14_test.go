package verifharness

import (
	"bytes"
	"encoding/base64"
	"fmt"
	"net/http"
	"net/http/httptest"
	"strings"
	"sync"
	"testing"

	"golang.org/x/mod/sumdb/note"
)

type c14Req struct {
	Chain   int    `json:"chain"`
	Old     int    `json:"old"`
	New     int    `json:"new"`
	Proof   string `json:"proof"` // correct | empty | flipped | truncated | extended | of-fork
	Sig     string `json:"sig"`   // valid | corrupted | unknown-key | other-origin
	Body    string `json:"body"`  // ok | no-blank-line | old-negative | old-leading-zero | bad-hash | extension | no-old | unknown-origin
	OldFrom string `json:"old_from"`
}

func (q c14Req) String() string {
	return fmt.Sprintf("chain=%d old=%d new=%d proof=%s sig=%s body=%s", q.Chain, q.Old, q.New, q.Proof, q.Sig, q.Body)
}

// c14Others are further logs known to the witness (their keys must not count
// for another origin).
var c14Others = map[*WitLog][]*WitLog{}
var c14OthersMu sync.Mutex

func buildC14(e *WitEnv, l *WitLog, rng *Rng, q c14Req) []byte {
	chain := l.Chains[q.Chain]
	if q.New > len(chain.lh) {
		q.New = len(chain.lh)
	}
	text := l.checkpointText(q.Chain, q.New)
	var noteBytes []byte
	switch q.Sig {
	case "valid":
		noteBytes = l.signed(text)
	case "corrupted":
		noteBytes = l.signed(text)
		i := bytes.LastIndex(noteBytes, []byte(" "))
		raw, _ := base64.StdEncoding.DecodeString(strings.TrimSpace(string(noteBytes[i+1:])))
		raw[4+rng.Intn(len(raw)-4)] ^= 1 << uint(rng.Intn(8)) // keep the key hash, break the signature
		noteBytes = append(noteBytes[:i+1:i+1], []byte(base64.StdEncoding.EncodeToString(raw)+"\n")...)
	case "unknown-key":
		skey, _, _ := note.GenerateKey(rng, l.Origin)
		s, _ := note.NewSigner(skey)
		noteBytes, _ = note.Sign(&note.Note{Text: text}, s)
	case "other-known-log":
		// the right text, signed only by the key(s) of OTHER logs the witness knows
		c14OthersMu.Lock()
		others := c14Others[l]
		c14OthersMu.Unlock()
		o := others[rng.Intn(len(others))]
		noteBytes = o.signed(text)
		if rng.Intn(3) == 0 && len(others) > 1 {
			var ss []note.Signer
			for _, x := range others {
				ss = append(ss, x.signer)
			}
			noteBytes, _ = note.Sign(&note.Note{Text: text}, ss...)
		}
	case "other-origin":
		// valid signature by the log key, but over a text with another origin line
		other := strings.Replace(text, l.Origin, l.Origin+"x", 1)
		noteBytes = l.signed(other)
	}
	proofChain := q.Chain
	if q.Proof == "of-fork" {
		proofChain = (q.Chain + 1) % len(l.Chains)
	}
	var proof []Hash
	if q.Old <= q.New && q.Old <= len(l.Chains[proofChain].lh) && q.New <= len(l.Chains[proofChain].lh) {
		proof = l.consistencyProof(proofChain, q.Old, q.New)
	}
	switch q.Proof {
	case "empty":
		proof = nil
	case "flipped":
		if len(proof) > 0 {
			proof = append([]Hash(nil), proof...)
			proof[rng.Intn(len(proof))][3] ^= 0x10
		}
	case "truncated":
		if len(proof) > 0 {
			proof = proof[:len(proof)-1]
		}
	case "extended":
		proof = append(append([]Hash(nil), proof...), Hash{9, 9})
	}
	body := addCheckpointBody(int64(q.Old), proof, noteBytes)
	switch q.Body {
	case "no-blank-line":
		body = bytes.Replace(body, []byte("\n\n"), []byte("\n"), 1)
	case "old-negative":
		body = bytes.Replace(body, []byte(fmt.Sprintf("old %d\n", q.Old)), []byte("old -1\n"), 1)
	case "old-leading-zero":
		body = bytes.Replace(body, []byte(fmt.Sprintf("old %d\n", q.Old)), []byte(fmt.Sprintf("old 0%d\n", q.Old)), 1)
	case "bad-hash":
		body = bytes.Replace(body, []byte("\n\n"), []byte("\nnot*base64*hash\n\n"), 1)
	case "no-old":
		body = bytes.Replace(body, []byte("old "), []byte("new "), 1)
	case "extension":
		t2 := text + "extension line\n"
		body = addCheckpointBody(int64(q.Old), proof, l.signed(t2))
	case "unknown-origin":
		o2 := "unknown.example/log"
		skey, _, _ := note.GenerateKey(rng, o2)
		s, _ := note.NewSigner(skey)
		nb, _ := note.Sign(&note.Note{Text: refFormatCheckpoint(o2, int64(q.New), chain.root(q.New))}, s)
		body = addCheckpointBody(int64(q.Old), proof, nb)
	}
	return body
}

// expectC14 returns the set of acceptable statuses from the reference model.
func expectC14(l *WitLog, q c14Req, recSize int64, recRoot Hash) map[int]bool {
	faults := map[int]bool{}
	switch q.Body {
	case "no-blank-line", "old-negative", "old-leading-zero", "bad-hash", "no-old", "extension":
		faults[400] = true
	case "unknown-origin":
		faults[404] = true
	}
	if q.Sig != "valid" {
		if q.Sig == "other-origin" {
			faults[404] = true // the first line names an origin the witness does not know
		} else {
			faults[403] = true
		}
	}
	if q.Old > q.New {
		faults[400] = true
	}
	chain := l.Chains[q.Chain]
	if int64(q.Old) != recSize {
		faults[409] = true
	} else {
		// proof must show consistency between the recorded tree and the new one
		consistent := q.New <= len(chain.lh) && q.Old <= q.New && q.Old <= len(chain.lh) && chain.root(q.Old) == recRoot
		proofOK := q.Proof == "correct"
		if q.Old == 0 {
			proofOK = q.Proof == "correct" || q.Proof == "empty" || q.Proof == "flipped" || q.Proof == "truncated" || q.Proof == "of-fork" // all empty when old is 0
			if q.Proof == "extended" {
				proofOK = false
			}
			consistent = true
		} else if q.Old == q.New {
			// equal sizes: the proof is empty; consistent iff same root
			proofOK = q.Proof != "extended"
		} else if q.Proof == "of-fork" {
			// a proof generated on the other chain is correct iff both sizes lie in the shared prefix... judged by root equality below
			oc := l.Chains[(q.Chain+1)%len(l.Chains)]
			proofOK = q.Old <= q.New && q.New <= len(oc.lh) && q.New <= len(chain.lh) && oc.root(q.New) == chain.root(q.New) && oc.root(q.Old) == chain.root(q.Old)
		} else if q.Proof == "empty" || q.Proof == "flipped" || q.Proof == "truncated" {
			p := l.consistencyProof(q.Chain, q.Old, q.New)
			proofOK = len(p) == 0 // nothing to break
		}
		if !consistent || !proofOK {
			faults[422] = true
		}
	}
	if len(faults) == 0 {
		return map[int]bool{200: true}
	}
	return faults
}

func runC14History(r *Run, rng *Rng, hn int) {
	e := NewWitEnv(r, rng.Fork("env"), false)
	defer e.Cleanup()
	if err := e.Start(); err != nil {
		panic(err)
	}
	forkAt := 2 + rng.Intn(6)
	l := newWitLog(rng.Fork("log"), fmt.Sprintf("verif.example/log-c14-%d", hn), 12+rng.Intn(6), []int{forkAt, forkAt + 2}, 8)
	// two more logs the witness knows: their keys are valid for their own origin only
	oB := newWitLog(rng.Fork("logB"), fmt.Sprintf("verif.example/log-c14-%d-b", hn), 3, nil, 0)
	oC := newWitLog(rng.Fork("logC"), fmt.Sprintf("verif.example/log-c14-%d-c", hn), 3, nil, 0)
	c14OthersMu.Lock()
	c14Others[l] = []*WitLog{oB, oC}
	c14OthersMu.Unlock()
	defer func() { c14OthersMu.Lock(); delete(c14Others, l); c14OthersMu.Unlock() }()
	if err := e.AddLogs(false, l, oB, oC); err != nil {
		panic(err)
	}
	var trace []string
	e.CaseInfo = func() any { return map[string]any{"workload": "sequential", "fork_at": forkAt, "requests": trace} }
	recSize, recRoot, _ := e.recorded(l)
	steps := pick(70, 200)
	for i := 0; i < steps; i++ {
		q := c14Req{Chain: 0, Proof: "correct", Sig: "valid", Body: "ok"}
		// mostly well-formed progress, with seeded deviations
		q.Old = int(recSize)
		if rng.Intn(5) == 0 {
			q.Old = rng.Intn(14)
		}
		q.New = q.Old + rng.Intn(4)
		if rng.Intn(8) == 0 {
			q.New = rng.Intn(14)
		}
		if rng.Intn(4) == 0 {
			q.Chain = rng.Intn(len(l.Chains))
		}
		if rng.Intn(5) == 0 {
			q.Proof = pickOne(rng, []string{"empty", "flipped", "truncated", "extended", "of-fork"})
		}
		if rng.Intn(9) == 0 {
			q.Sig = pickOne(rng, []string{"corrupted", "unknown-key", "other-origin", "other-known-log", "other-known-log"})
		}
		if rng.Intn(9) == 0 {
			q.Body = pickOne(rng, []string{"no-blank-line", "old-negative", "old-leading-zero", "bad-hash", "extension", "no-old", "unknown-origin"})
		}
		if q.New > len(l.Chains[q.Chain].lh) {
			q.New = len(l.Chains[q.Chain].lh)
		}
		if q.Old > len(l.Chains[q.Chain].lh) {
			q.Old = len(l.Chains[q.Chain].lh)
		}
		body := buildC14(e, l, rng, q)
		want := expectC14(l, q, recSize, recRoot)
		rec := e.Post("/add-checkpoint", body, nil)
		r.Eval(1)
		trace = append(trace, fmt.Sprintf("%s -> %d", q.String(), rec.Code))
		if len(trace) > 30 {
			trace = trace[1:]
		}
		r.DistinctKey(fmt.Sprintf("%s/%s/%s/old-vs-rec=%d/new-old=%d/%d", q.Proof, q.Sig, q.Body, sign(int64(q.Old)-recSize), sign(int64(q.New-q.Old)), rec.Code))
		if !want[rec.Code] {
			id := fmt.Sprintf("status-%d-want-%v", rec.Code, keysOf(want))
			e.violate("add-checkpoint-"+id, "add-checkpoint answered %d, the reference model allows %v (%s; recorded size %d)", rec.Code, keysOf(want), q.String(), recSize)
		}
		switch rec.Code {
		case 200:
			root := l.Chains[q.Chain].root(q.New)
			if msg := checkCosigBody(rec.Body.Bytes(), l.Origin, int64(q.New), root, e.V1, e.V2); msg != "" {
				e.violate("cosignature-body", "200 response: %s", msg)
			}
			if nlines := strings.Count(rec.Body.String(), "\n"); nlines != 2 {
				e.violate("cosignature-body", "200 response carries %d lines, want the two witness cosignatures", nlines)
			}
			// durably recorded before release
			s, rt, _ := e.recorded(l)
			if s != int64(q.New) || rt != root {
				e.violate("cosignature-released-before-record", "cosignature for size %d released but the lock store holds size %d", q.New, s)
			}
			recSize, recRoot = int64(q.New), root
			r.Count("cosignatures", 1)
		case 409:
			if rec.Body.String() != fmt.Sprintf("%d\n", recSize) {
				e.violate("conflict-body", "409 body %q, recorded size is %d", rec.Body.String(), recSize)
			}
			if ct := rec.Header().Get("Content-Type"); ct != "text/x.tlog.size" {
				e.violate("conflict-content-type", "409 Content-Type %q", ct)
			}
		}
		if s, _, _ := e.recorded(l); s != recSize {
			e.violate("record-changed-without-200", "lock store moved to size %d without a 200 answer (model: %d)", s, recSize)
			recSize, recRoot, _ = e.recorded(l)
		}
		if rng.Intn(25) == 0 {
			if err := e.Start(); err != nil { // restart
				e.violate("witness-restart-failed", "NewWitness on the same stores failed: %v", err)
				return
			}
			r.Count("restarts", 1)
		}
	}
}

func sign(v int64) int {
	switch {
	case v < 0:
		return -1
	case v > 0:
		return 1
	}
	return 0
}

func keysOf(m map[int]bool) []int {
	var out []int
	for k := range m {
		out = append(out, k)
	}
	sortInts(out)
	return out
}

func sortInts(a []int) {
	for i := 1; i < len(a); i++ {
		for j := i; j > 0 && a[j] < a[j-1]; j-- {
			a[j], a[j-1] = a[j-1], a[j]
		}
	}
}

func TestC14Sequential(t *testing.T) {
	r := NewRun(t, "C14", "sequential")
	r.Rule = "request histories against a real witness over a log with two forks: old/new size pairs around the recorded size, proofs {correct, empty, flipped, truncated, extended, of the fork}, signatures {valid, corrupted, unknown key, other origin}, malformed bodies, restarts; every status is compared with a sequential reference model (set of statuses of the faults present; 200 only without faults), 200 bodies are verified as cosignatures over the re-encoded checkpoint and the lock store must already hold it; lock history monitor: one chain; distinct = (proof, signature, body, old vs recorded, growth, status)"
	rng := NewRng(r.Seed, "c14")
	n := pick(100, 800)
	for i := 0; i < n; i++ {
		hr := rng.Fork(fmt.Sprint(i))
		if !mine(i) {
			continue
		}
		runC14History(r, hr, i)
	}
	// overlapping instances (a restart that overlaps, a second machine)
	for i := 0; i < pick(60, 400); i++ {
		hr := rng.Fork(fmt.Sprint("overlap", i))
		if !mine(i) {
			continue
		}
		runC14Overlap(r, hr, i)
	}
	if r.Counter("cosignatures") == 0 {
		r.Inconcl("no cosignature was ever issued")
	}
}

// runC14Overlap: two witness processes with the same keys on the same lock
// store. Instance 1 has the recorded checkpoint cached; instance 2 then
// records further ones; instance 1 is then asked to cosign from ITS idea of
// the recorded size (a fork, or an older main-chain size). Whatever it
// answers, the lock history must stay one chain of non-decreasing size, and a
// 200 must name a checkpoint that is recorded.
func runC14Overlap(r *Run, rng *Rng, hn int) {
	e := NewWitEnv(r, rng.Fork("env"), false)
	defer e.Cleanup()
	if err := e.Start(); err != nil {
		panic(err)
	}
	forkAt := 3 + rng.Intn(5)
	l := newWitLog(rng.Fork("log"), fmt.Sprintf("verif.example/log-c14o-%d", hn), 16, []int{forkAt}, 8)
	if err := e.AddLogs(false, l); err != nil {
		panic(err)
	}
	var trace []string
	e.CaseInfo = func() any {
		return map[string]any{"workload": "overlapping-instances", "fork_at": forkAt, "requests": trace}
	}
	post := func(who string, w interface {
		Handler() http.Handler
	}, q c14Req) int {
		body := buildC14(e, l, rng, q)
		req := httptest.NewRequest("POST", "/add-checkpoint", bytes.NewReader(body))
		rec := httptest.NewRecorder()
		w.Handler().ServeHTTP(rec, req)
		r.Eval(1)
		trace = append(trace, fmt.Sprintf("%s: %s -> %d", who, q.String(), rec.Code))
		if rec.Code == 200 {
			root := l.Chains[q.Chain].root(q.New)
			if msg := checkCosigBody(rec.Body.Bytes(), l.Origin, int64(q.New), root, e.V1, e.V2); msg != "" {
				e.violate("cosignature-body", "200 response: %s", msg)
			}
			found := false
			for _, cm := range l.Commits {
				if cm.Size == int64(q.New) && cm.Root == root {
					found = true
				}
			}
			if !found {
				e.violate("cosignature-released-without-record", "instance %s released a cosignature for size %d (chain %d) that was never recorded in the lock store", who, q.New, q.Chain)
			}
			if s, rt, _ := e.recorded(l); s < int64(q.New) || (s == int64(q.New) && rt != root) {
				e.violate("cosignature-released-before-record", "instance %s answered 200 for size %d while the lock store holds size %d", who, q.New, s)
			}
			r.Count("cosignatures", 1)
		}
		return rec.Code
	}
	w1 := e.Wit
	// instance 1 records (and caches) size s on the main chain, s <= forkAt
	s := 1 + rng.Intn(forkAt)
	if post("one", w1, c14Req{Chain: 0, Old: 0, New: s, Proof: "correct", Sig: "valid", Body: "ok"}) != 200 {
		e.violate("honest-update-refused", "first update 0 -> %d refused", s)
		return
	}
	w2, _, err := e.StartOverlapping("witness-two", false)
	if err != nil {
		e.violate("witness-restart-failed", "second NewWitness on the same stores failed: %v", err)
		return
	}
	// instance 2 moves the record on (once or twice)
	cur := s
	for k := 0; k < 1+rng.Intn(2); k++ {
		nw := cur + 1 + rng.Intn(3)
		if post("two", w2, c14Req{Chain: 0, Old: cur, New: nw, Proof: "correct", Sig: "valid", Body: "ok"}) != 200 {
			e.violate("honest-update-refused", "second instance refused the honest update %d -> %d", cur, nw)
			return
		}
		cur = nw
	}
	// instance 1, still believing s, is asked for something that conflicts
	kind := pickOne(rng, []string{"fork", "older-main", "same-as-two", "beyond"})
	q := c14Req{Chain: 1, Old: s, New: forkAt + 1 + rng.Intn(3), Proof: "correct", Sig: "valid", Body: "ok"}
	switch kind {
	case "older-main":
		q = c14Req{Chain: 0, Old: s, New: s + rng.Intn(cur-s), Proof: "correct", Sig: "valid", Body: "ok"}
		if q.New == s {
			q.New = s // re-cosign of the stale size
		}
	case "same-as-two":
		q = c14Req{Chain: 0, Old: s, New: cur, Proof: "correct", Sig: "valid", Body: "ok"}
	case "beyond":
		q = c14Req{Chain: 0, Old: s, New: cur + 1, Proof: "correct", Sig: "valid", Body: "ok"}
	}
	code := post("one", w1, q)
	r.DistinctKey(fmt.Sprintf("overlap/%s/%d", kind, code))
	if rs, _, _ := e.recorded(l); rs < int64(cur) {
		e.violate("witness-size-decreased", "the recorded size went back from %d to %d after a request to the stale instance (%s)", cur, rs, kind)
	}
	// afterwards both instances must converge on the record: a protocol-following
	// client gets a cosignature from either within 5 requests (a doubly stale
	// instance needs: 409 with its stale size, a failed compare-and-swap that
	// drops its cache, 409 with the fresh size, success)
	for _, who := range []string{"one", "two"} {
		w := w1
		if who == "two" {
			w = w2
		}
		rs, rroot, _ := e.recorded(l)
		chain := -1
		for ci, c := range l.Chains {
			if int(rs) < len(c.lh) && c.root(int(rs)) == rroot {
				chain = ci
				break
			}
		}
		if chain < 0 {
			continue
		}
		old := int(rs)
		got := false
		for try := 0; try < 5 && !got; try++ {
			rec := PostTo(w, "/add-checkpoint", buildC14(e, l, rng, c14Req{Chain: chain, Old: old, New: int(rs) + 1, Proof: "correct", Sig: "valid", Body: "ok"}))
			r.Eval(1)
			trace = append(trace, fmt.Sprintf("%s: follow-up old=%d new=%d -> %d", who, old, rs+1, rec.Code))
			switch rec.Code {
			case 200:
				got = true
			case 409:
				fmt.Sscanf(rec.Body.String(), "%d", &old)
			}
		}
		if !got {
			e.violate("witness-stuck-after-overlap", "instance %s gave no cosignature for %d -> %d within 5 protocol-following requests after the overlap (stale answer, failed compare-and-swap, fresh size, success)", who, rs, rs+1)
		}
	}
}

// TestC14Concurrent: racing main-chain and fork updates, with lock and storage
// faults and restarts.
func TestC14Concurrent(t *testing.T) {
	r := NewRun(t, "C14", "concurrent")
	r.Rule = "8-24 goroutines race add-checkpoint requests for the main chain and for forks from the same recorded size, rounds repeated as the record advances, with injected lock Replace failures (applied / not applied), public upload failures and restarts; oracle: at most one 200 per recorded size, every 200's checkpoint is in the lock store at that instant, all recorded checkpoints lie on one ground-truth chain, non-200 answers are protocol answers; also under the race detector; distinct = (fault kind, statuses seen per round)"
	rng := NewRng(r.Seed, "c14c")
	n := pick(60, 400)
	if raceEnabled {
		n = pick(8, 60)
	}
	for i := 0; i < n; i++ {
		hr := rng.Fork(fmt.Sprint(i))
		if !mine(i) {
			continue
		}
		runC14Concurrent(r, hr, i)
	}
}

func runC14Concurrent(r *Run, rng *Rng, hn int) {
	e := NewWitEnv(r, rng.Fork("env"), false)
	defer e.Cleanup()
	if err := e.Start(); err != nil {
		panic(err)
	}
	forkAt := 1 + rng.Intn(4)
	l := newWitLog(rng.Fork("log"), fmt.Sprintf("verif.example/log-c14c-%d", hn), 30, []int{forkAt, forkAt + 3}, 26)
	if err := e.AddLogs(false, l); err != nil {
		panic(err)
	}
	fault := pickOne(rng, []string{"none", "none", "lock-fail", "lock-fail-applied", "upload-fail", "upload-fail-applied"})
	info := map[string]any{"workload": "concurrent", "fork_at": forkAt, "fault": fault}
	e.CaseInfo = func() any { return info }
	var fmu sync.Mutex
	frng := rng.Fork("faults")
	plan := func(c *Call) Decision {
		fmu.Lock()
		defer fmu.Unlock()
		hit := frng.Intn(4) == 0
		switch {
		case hit && c.Kind == OpLockReplace && fault == "lock-fail":
			return Decision{Apply: false, Err: rotatingInjectedErr()}
		case hit && c.Kind == OpLockReplace && fault == "lock-fail-applied":
			return Decision{Apply: true, Err: rotatingInjectedErr()}
		case hit && c.Kind == OpUpload && fault == "upload-fail":
			return Decision{Apply: false, Err: rotatingInjectedErr()}
		case hit && c.Kind == OpUpload && fault == "upload-fail-applied":
			return Decision{Apply: true, Err: rotatingInjectedErr()}
		}
		return decideOK
	}
	e.In.Plan = plan
	// bounded progress once faults stop: a client that follows the protocol's
	// answers (409 tells the recorded size) gets a cosignature within 3 requests
	progress := func(prng *Rng, when string) {
		saved := e.In.Plan
		e.In.Plan = nil
		defer func() { e.In.Plan = saved }()
		recSize, recRoot, _ := e.recorded(l)
		chain := -1
		for ci, c := range l.Chains {
			if int(recSize) < len(c.lh) && c.root(int(recSize)) == recRoot {
				chain = ci
				break
			}
		}
		if chain < 0 {
			return // the recorded tree is at the end of every chain: nothing to extend
		}
		old := int(recSize)
		for try := 0; try < 3; try++ {
			q := c14Req{Chain: chain, Old: old, New: int(recSize) + 1, Proof: "correct", Sig: "valid", Body: "ok"}
			rec := e.Post("/add-checkpoint", buildC14(e, l, prng.Fork(fmt.Sprint("p", try)), q), nil)
			r.Eval(1)
			if rec.Code == 200 {
				r.Count("progress_after_faults", 1)
				return
			}
			if rec.Code == 409 {
				fmt.Sscanf(rec.Body.String(), "%d", &old)
			}
		}
		e.violate("witness-stuck-after-faults", "after a fault (%s, %s) a client following the protocol got no cosignature for size %d within 3 requests", fault, when, recSize+1)
	}
	// a single forced fault on the very first update, then the client must recover
	if fault != "none" {
		forced := false
		e.In.Plan = func(c *Call) Decision {
			fmu.Lock()
			defer fmu.Unlock()
			if forced {
				return decideOK
			}
			switch {
			case c.Kind == OpLockReplace && strings.HasPrefix(fault, "lock-fail"):
				forced = true
				return Decision{Apply: fault == "lock-fail-applied", Err: rotatingInjectedErr()}
			case c.Kind == OpUpload && strings.HasPrefix(fault, "upload-fail"):
				forced = true
				return Decision{Apply: fault == "upload-fail-applied", Err: rotatingInjectedErr()}
			}
			return decideOK
		}
		q := c14Req{Chain: 0, Old: 0, New: 1, Proof: "correct", Sig: "valid", Body: "ok"}
		rec := e.Post("/add-checkpoint", buildC14(e, l, rng.Fork("forced"), q), nil)
		r.DistinctKey(fmt.Sprintf("forced-%s/%d", fault, rec.Code))
		if rec.Code == 200 {
			// legal only if the checkpoint is durably recorded all the same (e.g. a
			// safe retry): the property demands record-before-release, nothing else
			if s, rt, _ := e.recorded(l); s != 1 || rt != l.Chains[0].root(1) {
				e.violate("cosignature-released-before-record", "add-checkpoint answered 200 under an injected %s although the lock store does not hold that checkpoint (recorded size %d)", fault, s)
			}
		}
		progress(rng.Fork("forced-progress"), "right after the forced fault")
		e.In.Plan = plan
	}
	rounds := 6 + rng.Intn(6)
	for round := 0; round < rounds; round++ {
		recSize, recRoot, _ := e.recorded(l)
		if recSize < 0 {
			e.violate("witness-recorded-garbage", "lock store holds an unparsable checkpoint")
			return
		}
		// which chains contain the recorded tree?
		var on []int
		for ci, c := range l.Chains {
			if int(recSize) <= len(c.lh) && c.root(int(recSize)) == recRoot {
				on = append(on, ci)
			}
		}
		type res struct {
			code  int
			chain int
			size  int
			body  []byte
		}
		g := 8 + rng.Intn(17)
		out := make([]res, g)
		var wg sync.WaitGroup
		for i := 0; i < g; i++ {
			ch := rng.Intn(len(l.Chains))
			nw := int(recSize) + 1 + rng.Intn(3)
			if nw > len(l.Chains[ch].lh) {
				nw = len(l.Chains[ch].lh)
			}
			q := c14Req{Chain: ch, Old: int(recSize), New: nw, Proof: "correct", Sig: "valid", Body: "ok"}
			body := buildC14(e, l, rng.Fork(fmt.Sprint(round, i)), q)
			wg.Add(1)
			go func() {
				defer wg.Done()
				rec := e.Post("/add-checkpoint", body, nil)
				out[i] = res{rec.Code, ch, nw, rec.Body.Bytes()}
			}()
		}
		wg.Wait()
		r.Eval(int64(g))
		oks := 0
		codes := map[int]bool{}
		for _, o := range out {
			codes[o.code] = true
			switch o.code {
			case 200:
				oks++
				root := l.Chains[o.chain].root(o.size)
				if msg := checkCosigBody(o.body, l.Origin, int64(o.size), root, e.V1, e.V2); msg != "" {
					e.violate("cosignature-body", "200 response: %s", msg)
				}
				// the cosigned checkpoint must be in the lock history
				found := false
				for _, cm := range l.Commits {
					if cm.Size == int64(o.size) && cm.Root == root {
						found = true
					}
				}
				if !found {
					e.violate("cosignature-released-without-record", "a cosignature for size %d (chain %d) was released but that checkpoint was never recorded in the lock store", o.size, o.chain)
				}
			case 409, 422, 500:
			default:
				e.violate("unexpected-status", "concurrent add-checkpoint answered %d", o.code)
			}
		}
		if oks > 1 {
			e.violate("two-cosignatures-from-one-size", "%d requests starting from recorded size %d were answered 200", oks, recSize)
		}
		r.DistinctKey(fmt.Sprintf("%s/%v/oks=%d", fault, keysOf(codes), oks))
		r.Count("cosignatures", int64(oks))
		if rng.Intn(4) == 0 {
			if err := e.Start(); err != nil {
				e.violate("witness-restart-failed", "NewWitness on the same stores failed: %v", err)
				return
			}
			e.In.Plan = plan
			r.Count("restarts", 1)
		}
		_ = on
	}
	progress(rng.Fork("final"), "end of history")
}
