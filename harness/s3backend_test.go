package verifharness

// Contract of the production object-storage backend (ctlog.S3Backend, real AWS
// SDK) against a protocol-level fake whose per-attempt behaviour is scripted:
// the sequencer's guarantees (C03: tiles of the committed tree are in storage,
// C04: a checkpoint is backed by uploads that completed) rest on "Upload
// returned nil => the object is stored with exactly these bytes", also when
// the first PUT is slow enough for the backend's hedged second request to be
// launched, when attempts fail, hang, or are applied although they answer 500.

import (
	"bytes"
	"context"
	"fmt"
	"io"
	"net/http"
	"net/http/httptest"
	"strconv"
	"strings"
	"sync"
	"testing"
	"time"

	"filippo.io/sunlight/internal/ctlog"
)

// putScript is the behaviour of the successive PUT attempts on one key:
//
//	ok | slow-ok | fail | slow-fail | applied-fail | hang | slow-applied-fail
type objFake struct {
	srv  *httptest.Server
	mu   sync.Mutex
	objs map[string][]byte
	meta map[string]http.Header
	// script per key: behaviour of the n-th PUT attempt (last one repeats)
	script map[string][]string
	nput   map[string]int
	// getMode per key: "" | truncated | fail-once
	getMode map[string]string
	ngets   map[string]int
	puts    int
	aborted int
}

func newObjFake() *objFake {
	o := &objFake{objs: map[string][]byte{}, meta: map[string]http.Header{}, script: map[string][]string{}, nput: map[string]int{}, getMode: map[string]string{}, ngets: map[string]int{}}
	o.srv = httptest.NewServer(http.HandlerFunc(o.handle))
	return o
}

func (o *objFake) handle(w http.ResponseWriter, r *http.Request) {
	key := r.URL.Path
	s3err := func(code int, c string) {
		w.Header().Set("Content-Type", "application/xml")
		w.WriteHeader(code)
		fmt.Fprintf(w, `<?xml version="1.0" encoding="UTF-8"?><Error><Code>%s</Code><Message>injected</Message><Key>%s</Key></Error>`, c, key)
	}
	switch r.Method {
	case "PUT":
		body, rerr := io.ReadAll(r.Body)
		want := r.ContentLength
		if strings.Contains(r.Header.Get("Content-Encoding"), "aws-chunked") || strings.HasPrefix(r.Header.Get("X-Amz-Content-Sha256"), "STREAMING-") {
			body = decodeAWSChunked(body)
			if n, err := strconv.ParseInt(r.Header.Get("X-Amz-Decoded-Content-Length"), 10, 64); err == nil {
				want = n
			}
		}
		if rerr != nil || (want >= 0 && int64(len(body)) != want) {
			// an upload the client aborted half-way (e.g. the losing one of two
			// hedged requests): a real object store does not store it
			o.mu.Lock()
			o.aborted++
			o.mu.Unlock()
			s3err(400, "IncompleteBody")
			return
		}
		o.mu.Lock()
		o.puts++
		sc := o.script[key]
		n := o.nput[key]
		o.nput[key]++
		beh := "ok"
		if len(sc) > 0 {
			beh = sc[min(n, len(sc)-1)]
		}
		o.mu.Unlock()
		if strings.HasPrefix(beh, "slow-") {
			select {
			case <-time.After(220 * time.Millisecond):
			case <-r.Context().Done():
				return
			}
			beh = strings.TrimPrefix(beh, "slow-")
		}
		switch beh {
		case "hang":
			<-r.Context().Done()
			return
		case "fail":
			s3err(500, "InternalError")
		case "applied-fail":
			o.store(key, body, r.Header)
			s3err(500, "InternalError")
		default:
			o.store(key, body, r.Header)
			w.Header().Set("ETag", `"x"`)
			w.WriteHeader(200)
		}
	case "GET":
		o.mu.Lock()
		b, ok := o.objs[key]
		mode := o.getMode[key]
		o.ngets[key]++
		ng := o.ngets[key]
		o.mu.Unlock()
		if !ok {
			s3err(404, "NoSuchKey")
			return
		}
		switch {
		case mode == "truncated":
			// announces the full length, sends half, then drops the connection
			w.Header().Set("Content-Length", strconv.Itoa(len(b)))
			w.WriteHeader(200)
			w.Write(b[:len(b)/2])
			if f, ok := w.(http.Flusher); ok {
				f.Flush()
			}
			if hj, ok := w.(http.Hijacker); ok {
				if c, _, err := hj.Hijack(); err == nil {
					c.Close()
				}
			}
			return
		case mode == "fail-once" && ng == 1:
			s3err(500, "InternalError")
			return
		}
		w.Header().Set("Content-Length", strconv.Itoa(len(b)))
		w.Write(b)
	default:
		s3err(405, "MethodNotAllowed")
	}
}

func (o *objFake) store(key string, body []byte, h http.Header) {
	o.mu.Lock()
	o.objs[key] = bytes.Clone(body)
	o.meta[key] = h.Clone()
	o.mu.Unlock()
}

func (o *objFake) get(key string) ([]byte, http.Header, bool) {
	o.mu.Lock()
	defer o.mu.Unlock()
	b, ok := o.objs[key]
	return b, o.meta[key], ok
}

var s3PutBehaviours = []string{"ok", "slow-ok", "fail", "slow-fail", "applied-fail", "slow-applied-fail", "hang"}

func TestS3BackendContract(t *testing.T) {
	r := NewRun(t, envStr("VERIF_SYS_PROPERTY", "C04"), "s3backend")
	r.Rule = "the real ctlog.S3Backend (AWS SDK with its retries, the backend's own 75 ms hedged second PUT) against a fake S3 whose successive PUT attempts per key follow a seeded script over {ok, slow ok, 500, slow 500, stored-but-500, hang} and whose GETs may be truncated or fail once; oracle: Upload returned nil => the fake holds exactly these bytes under bucket/prefix+key with the content type / encoding / cache policy of the options; Fetch returns exactly the stored bytes or an error, never a prefix; concurrent uploads of different keys do not interfere; distinct = (script, outcome)"
	r.Assume("the fake defines the object-storage semantics (a PUT is stored iff the fake stored it); S3 itself is not available")
	shard, shards := shardInfo()
	rng := NewRng(r.Seed, fmt.Sprint("s3backend", shard, "/", shards))
	fake := newObjFake()
	defer fake.srv.Close()
	prefix := "pre/fix/"
	b, err := ctlog.NewS3Backend(context.Background(), "us-east-1", "bucket", fake.srv.URL, prefix, discardLogger)
	if err != nil {
		r.Inconcl("NewS3Backend: %v", err)
		return
	}
	path := func(key string) string { return "/bucket/" + prefix + key }
	n := pick(160, 3000)
	var wg sync.WaitGroup
	sem := make(chan struct{}, 8)
	for i := 0; i < n; i++ {
		key := fmt.Sprintf("tile/%d/%03d", rng.Intn(3), i)
		// a seeded script of 1-4 attempt behaviours; exhaustive pairs first
		var sc []string
		if i < len(s3PutBehaviours)*len(s3PutBehaviours) {
			sc = []string{s3PutBehaviours[i/len(s3PutBehaviours)], s3PutBehaviours[i%len(s3PutBehaviours)]}
		} else {
			for j := 0; j < 1+rng.Intn(4); j++ {
				sc = append(sc, pickOne(rng, s3PutBehaviours))
			}
		}
		if sc[len(sc)-1] == "hang" {
			sc = append(sc, "fail") // never hang for good: the SDK has no attempt timeout of its own
		}
		body := rng.Bytes(pickOne(rng, []int{0, 1, 100, 5000, 70000}))
		opts := &ctlog.UploadOptions{Immutable: rng.Bool(), Compressed: rng.Intn(3) == 0}
		if rng.Intn(3) == 0 {
			opts.ContentType = "application/jsonl; charset=utf-8"
		}
		fake.mu.Lock()
		fake.script[path(key)] = sc
		fake.mu.Unlock()
		wg.Add(1)
		sem <- struct{}{}
		go func() {
			defer wg.Done()
			defer func() { <-sem }()
			ctx, cancel := context.WithTimeout(context.Background(), 6*time.Second)
			defer cancel()
			err := b.Upload(ctx, key, body, opts)
			r.Eval(1)
			info := map[string]any{"key": key, "script": sc, "size": len(body), "err": fmt.Sprint(err)}
			outcome := "error"
			if err == nil {
				outcome = "ok"
				got, meta, ok := fake.get(path(key))
				switch {
				case !ok:
					r.Violate("upload-returned-without-object", info, "Upload of %s returned nil but object storage holds no such object (attempt script %v)", key, sc)
				case !bytes.Equal(got, body):
					r.Violate("uploaded-object-content", info, "Upload of %s returned nil but object storage holds %d other bytes", key, len(got))
				default:
					wantCT := "application/octet-stream"
					if opts.ContentType != "" {
						wantCT = opts.ContentType
					}
					if ct := meta.Get("Content-Type"); ct != wantCT {
						r.Violate("uploaded-object-metadata", info, "Content-Type %q stored for %s, want %q", ct, key, wantCT)
					}
					if ce := meta.Get("Content-Encoding"); opts.Compressed != strings.Contains(ce, "gzip") {
						r.Violate("uploaded-object-metadata", info, "Content-Encoding %q stored for %s (compressed=%v)", ce, key, opts.Compressed)
					}
					if cc := meta.Get("Cache-Control"); opts.Immutable != strings.Contains(cc, "immutable") {
						r.Violate("uploaded-object-metadata", info, "Cache-Control %q stored for %s (immutable=%v)", cc, key, opts.Immutable)
					}
				}
				r.Count("uploads_ok", 1)
			} else {
				r.Count("uploads_failed", 1)
			}
			r.DistinctKey(fmt.Sprintf("%s=>%s", strings.Join(sc, ","), outcome))
		}()
	}
	wg.Wait()
	// Fetch: exact bytes or an error
	keys := []string{}
	fake.mu.Lock()
	for k := range fake.objs {
		keys = append(keys, strings.TrimPrefix(k, "/bucket/"+prefix))
	}
	fake.mu.Unlock()
	sortStrings(keys)
	for i, key := range keys {
		if i >= pick(60, 600) {
			break
		}
		mode := []string{"", "truncated", "fail-once"}[i%3]
		fake.mu.Lock()
		fake.getMode[path(key)] = mode
		fake.ngets[path(key)] = 0
		fake.mu.Unlock()
		ctx, cancel := context.WithTimeout(context.Background(), 6*time.Second)
		got, err := b.Fetch(ctx, key)
		cancel()
		r.Eval(1)
		want, _, _ := fake.get(path(key))
		r.DistinctKey(fmt.Sprintf("fetch/%s/err=%v", mode, err != nil))
		if err == nil && !bytes.Equal(got, want) {
			r.Violate("fetch-returned-other-bytes", map[string]any{"key": key, "mode": mode}, "Fetch of %s returned %d bytes without error, the object has %d (server behaviour: %q)", key, len(got), len(want), mode)
		}
		if err != nil && mode == "" {
			r.Violate("fetch-of-stored-object-failed", map[string]any{"key": key}, "Fetch of %s failed although the object is stored and the server answered normally: %v", key, err)
		}
		r.Count("fetches", 1)
	}
	if _, err := b.Fetch(context.Background(), "tile/9/does-not-exist"); err == nil {
		r.Violate("fetch-of-missing-object-succeeded", nil, "Fetch of a key that does not exist returned no error")
	}
	if r.Counter("uploads_ok") == 0 || r.Counter("uploads_failed") == 0 {
		r.Inconcl("upload outcomes not diverse: ok=%d failed=%d", r.Counter("uploads_ok"), r.Counter("uploads_failed"))
	}
	fake.mu.Lock()
	r.Count("put_attempts_seen", int64(fake.puts))
	r.Count("aborted_put_bodies_not_stored", int64(fake.aborted))
	fake.mu.Unlock()
}
