package verifharness

import "os"

func shardInfo() (shard, shards int) {
	shards = int(envInt("VERIF_SHARDS", 1))
	shard = int(envInt("VERIF_SHARD", 0))
	if shards < 1 {
		shards = 1
	}
	return shard % shards, shards
}

func mine(i int) bool {
	s, n := shardInfo()
	return i%n == s
}

func replaying() bool { return os.Getenv("VERIF_REPLAY") != "" }
