package verifharness

import (
	"encoding/base64"
	"fmt"
	"strings"
	"testing"

	"filippo.io/torchwood"
	"golang.org/x/mod/sumdb/note"
	"golang.org/x/mod/sumdb/tlog"
)

type c16Req struct {
	Size    int    `json:"size"`
	Start   int64  `json:"start"`
	End     int64  `json:"end"`
	Signers string `json:"signers"` // none | witness | mirror | both | ed25519-only | foreign | forged-witness | pasted-other-checkpoint
	Hash    string `json:"hash"`    // correct | other-subtree | flipped
	Proof   string `json:"proof"`   // correct | flipped | truncated | extended
	Body    string `json:"body"`    // ok | leading-zero | negative | missing-end | unknown-origin | extension | no-blank-line
}

func (q c16Req) String() string {
	return fmt.Sprintf("size=%d [%d,%d) signers=%s hash=%s proof=%s body=%s", q.Size, q.Start, q.End, q.Signers, q.Hash, q.Proof, q.Body)
}

type c16Env struct {
	e       *WitEnv
	l       *WitLog
	s2, sm  *torchwood.CosignatureSigner
	s1      *torchwood.CosignatureSigner
	foreign *torchwood.CosignatureSigner
	cpCache map[string][]byte
}

func (ce *c16Env) checkpoint(rng *Rng, size int, signers string) []byte {
	k := fmt.Sprint(size, "/", signers)
	if b, ok := ce.cpCache[k]; ok {
		return b
	}
	text := ce.l.checkpointText(0, size)
	var ss []note.Signer
	switch signers {
	case "witness":
		ss = []note.Signer{ce.s2}
	case "mirror":
		ss = []note.Signer{ce.sm}
	case "both":
		ss = []note.Signer{ce.s2, ce.sm}
	case "ed25519-only":
		ss = []note.Signer{ce.s1}
	case "foreign":
		ss = []note.Signer{ce.foreign}
	case "witness+ed25519+foreign":
		ss = []note.Signer{ce.s1, ce.s2, ce.foreign}
	}
	ss = append([]note.Signer{ce.l.signer}, ss...)
	b, err := note.Sign(&note.Note{Text: text}, ss...)
	if err != nil {
		panic(err)
	}
	if strings.HasPrefix(signers, "combo:") {
		b = append(b, ce.comboLines(rng, size, strings.TrimPrefix(signers, "combo:"))...)
	}
	switch signers {
	case "forged-witness":
		// right name and key hash, garbage signature bytes
		raw := make([]byte, 4+8+2420)
		kh := ce.s2.KeyHash()
		raw[0], raw[1], raw[2], raw[3] = byte(kh>>24), byte(kh>>16), byte(kh>>8), byte(kh)
		copy(raw[12:], rng.Bytes(2420))
		b = append(b, []byte("— "+ce.e.Name+" "+base64.StdEncoding.EncodeToString(raw)+"\n")...)
	case "pasted-other-checkpoint":
		// a valid witness cosignature over another tree size, pasted onto this checkpoint
		other := size + 1
		if other > len(ce.l.Chains[0].lh) {
			other = size - 1
		}
		ob, _ := note.Sign(&note.Note{Text: ce.l.checkpointText(0, other)}, ce.s2)
		on, _ := refParseNote(ob)
		b = append(b, []byte(on.Sigs[0].Line)...)
	}
	ce.cpCache[k] = b
	return b
}

// comboLines renders the signature lines of a combined signer set
// "w=<kind>,m=<kind>,x=<extra>+<extra>": per own key identity (witness ML-DSA,
// mirror) at most one line, of kind valid | forged (right name and key hash,
// garbage) | pasted (valid cosignature of another checkpoint) | relabelled (the
// OTHER key's valid cosignature on this checkpoint under this key's name and
// key hash); extras: ed (witness Ed25519), foreign, wname (witness name, unknown
// key hash, garbage), mname.
func (ce *c16Env) comboLines(rng *Rng, size int, spec string) []byte {
	text := ce.l.checkpointText(0, size)
	lineOf := func(signedNote []byte, name string) string {
		n, err := refParseNote(signedNote)
		if err != nil {
			panic(err)
		}
		for _, sg := range n.Sigs {
			if sg.Name == name {
				return sg.Line
			}
		}
		panic("no line by " + name)
	}
	// the genuine lines are those of the cached "both" checkpoint, i.e. bytes the
	// server has seen (and verified) in earlier requests
	both := ce.checkpoint(rng, size, "both")
	genuine := map[string]string{"w": lineOf(both, ce.e.Name), "m": lineOf(both, ce.e.MirrorName)}
	names := map[string]string{"w": ce.e.Name, "m": ce.e.MirrorName}
	hashes := map[string]uint32{"w": ce.s2.KeyHash(), "m": ce.sm.KeyHash()}
	signers := map[string]*torchwood.CosignatureSigner{"w": ce.s2, "m": ce.sm}
	mk := func(name string, kh uint32, rest []byte) string {
		raw := append([]byte{byte(kh >> 24), byte(kh >> 16), byte(kh >> 8), byte(kh)}, rest...)
		return "— " + name + " " + base64.StdEncoding.EncodeToString(raw) + "\n"
	}
	blob := func(line, name string) []byte {
		raw, err := base64.StdEncoding.DecodeString(strings.TrimSpace(strings.TrimPrefix(line, "— "+name+" ")))
		if err != nil {
			panic(err)
		}
		return raw
	}
	var out []string
	for _, part := range strings.Split(spec, ",") {
		k, v, _ := strings.Cut(part, "=")
		switch k {
		case "w", "m":
			other := map[string]string{"w": "m", "m": "w"}[k]
			switch v {
			case "valid":
				out = append(out, genuine[k])
			case "forged":
				out = append(out, mk(names[k], hashes[k], rng.Bytes(8+2420)))
			case "pasted":
				o := size + 1
				if o > len(ce.l.Chains[0].lh) {
					o = size - 1
				}
				ob, _ := note.Sign(&note.Note{Text: ce.l.checkpointText(0, o)}, signers[k])
				out = append(out, lineOf(ob, names[k]))
			case "relabelled":
				out = append(out, mk(names[k], hashes[k], blob(genuine[other], names[other])[4:]))
			}
		case "x":
			for _, x := range strings.Split(v, "+") {
				switch x {
				case "ed":
					ob, _ := note.Sign(&note.Note{Text: text}, ce.s1)
					out = append(out, lineOf(ob, ce.e.Name))
				case "foreign":
					ob, _ := note.Sign(&note.Note{Text: text}, ce.foreign)
					out = append(out, lineOf(ob, "foreign.example/witness"))
				case "wname":
					out = append(out, mk(ce.e.Name, uint32(rng.U64()), rng.Bytes(8+2420)))
				case "mname":
					out = append(out, mk(ce.e.MirrorName, uint32(rng.U64()), rng.Bytes(8+64)))
				}
			}
		}
	}
	// seeded order
	for i := len(out) - 1; i > 0; i-- {
		j := rng.Intn(i + 1)
		out[i], out[j] = out[j], out[i]
	}
	return []byte(strings.Join(out, ""))
}

func genC16Combo(rng *Rng) string {
	kinds := []string{"none", "valid", "forged", "pasted", "relabelled"}
	w, m := pickOne(rng, kinds), pickOne(rng, kinds)
	var xs []string
	for _, x := range []string{"ed", "foreign", "wname", "mname"} {
		if rng.Intn(3) == 0 {
			xs = append(xs, x)
		}
	}
	var parts []string
	if w != "none" {
		parts = append(parts, "w="+w)
	}
	if m != "none" {
		parts = append(parts, "m="+m)
	}
	if len(xs) > 0 {
		parts = append(parts, "x="+strings.Join(xs, "+"))
	}
	return "combo:" + strings.Join(parts, ",")
}

func TestC16Subtrees(t *testing.T) {
	r := NewRun(t, "C16", "subtrees")
	r.Rule = "sign-subtree requests against a real witness+mirror: tree sizes 1..33 (thorough 1..80) with ALL (start, end) pairs 0 <= start < end <= size+2, plus seeded larger ranges; signer sets on the presented checkpoint {none, witness ML-DSA, mirror, both, Ed25519 only, foreign witness, forged witness line, valid cosignature of another checkpoint pasted in, witness+Ed25519+foreign}; hash {correct, other subtree, flipped, the tree root}; proof {correct, flipped, truncated, extended, empty}; malformed bodies; oracle: signature lines => valid subtree within the size, hash = reference subtree hash, every line verifies as a subtree cosignature under a key whose valid cosignature is on the checkpoint, and valid requests get exactly the expected lines; distinct = (size, start, end, signers, hash, proof, body)"
	rng := NewRng(r.Seed, "c16")
	e := NewWitEnv(r, rng.Fork("env"), true)
	defer e.Cleanup()
	if err := e.Start(); err != nil {
		t.Fatal(err)
	}
	maxSize := pick(40, 80)
	l := newWitLog(rng.Fork("log"), "verif.example/log-c16", maxSize+3, nil, 0)
	if err := e.AddLogs(true, l); err != nil {
		t.Fatal(err)
	}
	ce := &c16Env{e: e, l: l, cpCache: map[string][]byte{}}
	var err error
	ce.s1, err = torchwood.NewCosignatureSigner(e.Name, e.Ed)
	if err != nil {
		t.Fatal(err)
	}
	ce.s2, _ = torchwood.NewCosignatureSigner(e.Name, e.ML)
	ce.sm, _ = torchwood.NewCosignatureSigner(e.MirrorName, e.MK)
	ce.foreign, _ = torchwood.NewCosignatureSigner("foreign.example/witness", detMLDSA(rng))
	var rc c16Req
	if replayCase("C16", "subtrees", &rc) {
		runC16(r, rng, ce, rc)
		return
	}
	signerSets := []string{"none", "witness", "mirror", "both", "ed25519-only", "foreign", "forged-witness", "pasted-other-checkpoint", "witness+ed25519+foreign"}
	n := 0
	for size := 1; size <= maxSize; size++ {
		for start := int64(0); start < int64(size)+2; start++ {
			for end := start + 1; end <= int64(size)+2; end++ {
				n++
				if !mine(n) {
					continue
				}
				// every pair once with a productive signer set and the correct hash/proof ...
				runC16(r, rng, ce, c16Req{Size: size, Start: start, End: end, Signers: pickOne(rng, []string{"witness", "mirror", "both", "both"}), Hash: "correct", Proof: "correct", Body: "ok"})
				// ... and once with a seeded deviation
				q := c16Req{Size: size, Start: start, End: end, Signers: pickOne(rng, signerSets), Hash: "correct", Proof: "correct", Body: "ok"}
				if rng.Intn(2) == 0 {
					q.Signers = genC16Combo(rng)
					if strings.Contains(q.Signers, "relabelled") {
						// the genuine lines have been verified by the server before
						runC16(r, rng, ce, c16Req{Size: size, Start: 0, End: int64(size), Signers: "both", Hash: "correct", Proof: "correct", Body: "ok"})
					}
				}
				switch rng.Intn(6) {
				case 0:
					q.Hash = pickOne(rng, []string{"other-subtree", "flipped", "tree-root"})
					if rng.Bool() {
						q.Proof = "empty"
					}
				case 1:
					q.Proof = pickOne(rng, []string{"flipped", "truncated", "extended", "empty"})
				case 2:
					q.Body = pickOne(rng, []string{"leading-zero", "negative", "missing-end", "unknown-origin", "extension", "no-blank-line"})
				}
				runC16(r, rng, ce, q)
			}
		}
	}
	if r.Counter("subtree_signatures") == 0 {
		r.Inconcl("the witness never signed a subtree")
	}
}

func runC16(r *Run, rng *Rng, ce *c16Env, q c16Req) {
	e, l := ce.e, ce.l
	chain := l.Chains[0]
	info := func() any { return q }
	viol := func(id, f string, a ...any) { r.Violate(id, info(), f, a...) }
	valid := refValidSubtree(q.Start, q.End) && q.End <= int64(q.Size)
	var want Hash
	if q.End <= int64(len(chain.lh)) && q.Start < q.End {
		want = refSubtreeHash(chain.lh, int(q.Start), int(q.End))
	}
	hash := want
	switch q.Hash {
	case "other-subtree":
		if q.End+1 <= int64(len(chain.lh)) {
			hash = refSubtreeHash(chain.lh, int(q.Start), int(q.End)+1)
		} else {
			hash[0] ^= 1
		}
	case "flipped":
		hash[5] ^= 0x20
	case "tree-root":
		hash = chain.root(q.Size)
	}
	var proof []Hash
	var correctProof []Hash
	if valid {
		p, err := torchwood.ProveSubtree(int64(q.Size), q.Start, q.End, chain.hashReader())
		if err == nil {
			for _, h := range p {
				correctProof = append(correctProof, Hash(h))
			}
		}
	}
	proof = append(proof, correctProof...)
	switch q.Proof {
	case "flipped":
		if len(proof) > 0 {
			proof[rng.Intn(len(proof))][7] ^= 4
		}
	case "truncated":
		if len(proof) > 0 {
			proof = proof[:len(proof)-1]
		}
	case "extended":
		proof = append(proof, Hash{1})
	case "empty":
		proof = nil
	}
	proofOK := len(proof) == len(correctProof)
	for i := range proof {
		if proofOK && proof[i] != correctProof[i] {
			proofOK = false
		}
	}
	cp := ce.checkpoint(rng, q.Size, q.Signers)
	var b strings.Builder
	fmt.Fprintf(&b, "subtree %d %d\n%s\n", q.Start, q.End, tlog.Hash(hash).String())
	for _, h := range proof {
		b.WriteString(tlog.Hash(h).String() + "\n")
	}
	b.WriteString("\n")
	b.Write(cp)
	body := b.String()
	switch q.Body {
	case "leading-zero":
		body = strings.Replace(body, fmt.Sprintf("subtree %d %d\n", q.Start, q.End), fmt.Sprintf("subtree 0%d %d\n", q.Start, q.End), 1)
	case "negative":
		body = strings.Replace(body, fmt.Sprintf("subtree %d %d\n", q.Start, q.End), fmt.Sprintf("subtree -%d %d\n", q.Start+1, q.End), 1)
	case "missing-end":
		body = strings.Replace(body, fmt.Sprintf("subtree %d %d\n", q.Start, q.End), fmt.Sprintf("subtree %d\n", q.Start), 1)
	case "unknown-origin":
		body = strings.Replace(body, l.Origin, "unknown.example/log", -1)
	case "extension":
		t2 := l.checkpointText(0, q.Size) + "extension\n"
		signed, _ := note.Sign(&note.Note{Text: t2}, l.signer, ce.s2)
		body = body[:strings.Index(body, "\n\n")+2] + string(signed)
	case "no-blank-line":
		body = strings.Replace(body, "\n\n", "\n", 1)
	}
	rec := e.Post("/sign-subtree", []byte(body), nil)
	r.Eval(1)
	r.DistinctKey(q.String())
	// which of the witness's own keys validly cosigned the presented checkpoint?
	expected := map[string]*torchwood.CosignatureVerifier{}
	if q.Body == "ok" {
		for name, v := range map[string]*torchwood.CosignatureVerifier{"witness": e.V2, "mirror": e.VM} {
			if _, err := note.Open(cp, note.VerifierList(v)); err == nil {
				expected[name] = v
			}
		}
	}
	hashOK := hash == want
	requestOK := valid && hashOK && proofOK && q.Body == "ok"
	// a checkpoint that also carries forged / pasted / relabelled lines may be
	// refused as a whole: an answer is demanded for clean signer sets only
	mustAnswer := requestOK && !strings.Contains(q.Signers, "forged") && !strings.Contains(q.Signers, "pasted") && !strings.Contains(q.Signers, "relabelled")
	lines := []string{}
	if rec.Code == 200 {
		for _, ln := range strings.SplitAfter(rec.Body.String(), "\n") {
			if ln != "" {
				lines = append(lines, ln)
			}
		}
	} else if strings.Contains(rec.Body.String(), "— ") {
		viol("signature-in-error-response", "a %d response carries a signature line", rec.Code)
	}
	if len(lines) > 0 {
		r.Count("subtree_signatures", int64(len(lines)))
		if !valid {
			viol("signed-invalid-range", "signed [%d,%d) of a tree of size %d, which is not a valid subtree within the tree", q.Start, q.End, q.Size)
		}
		if !hashOK {
			viol("signed-wrong-hash", "signed a subtree hash that is not the hash of [%d,%d)", q.Start, q.End)
		}
		if !proofOK {
			viol("signed-with-bad-proof", "signed although the subtree proof was %s", q.Proof)
		}
		usedKeys := map[string]bool{}
		for _, ln := range lines {
			ok := false
			for name, v := range map[string]*torchwood.CosignatureVerifier{"witness": e.V2, "mirror": e.VM} {
				if v.VerifySubtree(l.Origin, q.Start, q.End, tlog.Hash(hash), []byte(ln)) {
					ok = true
					usedKeys[name] = true
					if expected[name] == nil {
						viol("signed-with-key-not-on-checkpoint:"+name, "the %s key signed the subtree although its valid cosignature is not on the presented checkpoint (signers: %s)", name, q.Signers)
					}
				}
			}
			if !ok {
				viol("subtree-signature-does-not-verify", "a returned line does not verify as a subtree cosignature by the witness ML-DSA or mirror key: %s", truncateStr(ln, 50))
			}
			if strings.HasPrefix(ln, "— "+e.Name+" ") && e.V1 != nil {
				// an Ed25519 line would carry the Ed25519 key hash
				if raw, err := base64.StdEncoding.DecodeString(strings.TrimSpace(strings.TrimPrefix(ln, "— "+e.Name+" "))); err == nil && len(raw) >= 4 {
					kh := uint32(raw[0])<<24 | uint32(raw[1])<<16 | uint32(raw[2])<<8 | uint32(raw[3])
					if kh == e.V1.KeyHash() {
						viol("ed25519-subtree-signature", "the Ed25519 witness key signed a subtree")
					}
				}
			}
		}
		if mustAnswer && len(usedKeys) != len(expected) {
			viol("missing-subtree-signature", "valid request with cosigners %v on the checkpoint got signatures from %v only", keysOfV(expected), usedKeys)
		}
	} else if mustAnswer && len(expected) > 0 {
		viol("valid-request-refused", "valid sign-subtree request (cosigners on the checkpoint: %v) was answered %d: %s", keysOfV(expected), rec.Code, truncateStr(rec.Body.String(), 100))
	}
	if rec.Code == 200 && len(lines) == 0 {
		r.Count("empty_200", 1)
	}
}

func keysOfV(m map[string]*torchwood.CosignatureVerifier) []string {
	var out []string
	for k := range m {
		out = append(out, k)
	}
	sortStrings(out)
	return out
}
