package verifharness

// C06, misconfigured object storage: a second instance with the same key and
// the same lock store, attached to ANOTHER bucket (a copy made at some moment,
// a stale restore, an empty bucket). The lock store is the only thing the two
// share, so it alone must keep the log from forking.

import (
	"context"
	"errors"
	"fmt"
	"path/filepath"
	"strings"
	"sync"
	"testing"
	"time"

	"filippo.io/sunlight/internal/ctlog"
)

const altNS = "alt!/"

type bucketCase struct {
	Start    int    `json:"start"`
	Copy     string `json:"copy"`   // when/how the second bucket was filled
	Behind   int    `json:"behind"` // rounds the first instance ran after the copy
	PoolA    int    `json:"pool_a"` // pool sizes of the racing round
	PoolB    int    `json:"pool_b"`
	Schedule []int  `json:"schedule"` // gate schedule of the racing round
	Seed     int64  `json:"seed"`
}

func (c *bucketCase) String() string {
	var s strings.Builder
	for _, x := range c.Schedule {
		s.WriteByte(byte('A' + x))
	}
	return fmt.Sprintf("start=%d copy=%s behind=%d pools=%d/%d schedule=%s", c.Start, c.Copy, c.Behind, c.PoolA, c.PoolB, s.String())
}

// lockAndMainBucket is the part of the world a refused start-up of the second
// instance must leave untouched.
func lockAndMainBucket(w *World) string {
	var parts []string
	for _, l := range strings.Split(snapshotStores(w), "\n") {
		if !strings.HasPrefix(l, altNS) {
			parts = append(parts, l)
		}
	}
	return strings.Join(parts, "\n")
}

func (e *LogEnv) loadBucket(name, ns, cache string) (*LogInst, error) {
	in := NewInst(e.W, name)
	in.NS = ns
	in.cache = cache
	return e.loadInst(in, nil, nil)
}

// auditBucket audits bucket ns at the lock checkpoint against the truth.
func (e *LogEnv) auditBucket(ns string, sth *RefSTH) []AuditProblem {
	e.W.mu.Lock()
	defer e.W.mu.Unlock()
	e.mu.Lock()
	defer e.mu.Unlock()
	old := e.NS
	e.NS = ns
	defer func() { e.NS = old }()
	return e.auditLocked(e.W, sth.Size, sth.Timestamp, 0)
}

func runBucketCase(r *Run, bases *baseStates, bc *bucketCase) {
	env := bases.envs[bc.Start].Fork()
	env.CaseInfo = func() any { return bc }
	defer env.Cleanup()
	r.Eval(1)
	rng := NewRng(bc.Seed, "bucket")
	ctx := context.Background()
	round := func(li *LogInst, k int) error {
		var subs []*Sub
		for i := 0; i < k; i++ {
			subs = append(subs, li.Submit(genEntry(rng, cheapShape(rng)), false))
		}
		simNow.Add(int64(7 + rng.Intn(900)))
		err, _ := li.Sequence(nil)
		for _, s := range subs {
			li.WaitAck(ctx, s)
		}
		return err
	}
	a, err := env.Load("A", nil)
	if err != nil {
		env.violate("load-of-base-failed", "%v", err)
		return
	}
	cacheB := filepath.Join(env.Dir, "cache-b.db")
	// ---- fill the second bucket ------------------------------------------
	switch bc.Copy {
	case "exact":
		env.W.CopyBucket("", altNS, nil)
		copyFile(cacheB, env.Cache)
	case "no-checkpoint":
		env.W.CopyBucket("", altNS, func(k string) bool { return k != "checkpoint" })
	case "no-tiles":
		env.W.CopyBucket("", altNS, func(k string) bool { return !strings.HasPrefix(k, "tile/") })
	case "empty":
	case "mid-round":
		// the copy is taken while A is between its lock commit and the
		// publication: it contains the staging bundle of the committed tree
		a.Submit(genEntry(rng, ShapeBlobX509), false)
		a.Submit(genEntry(rng, ShapeBlobX509), false)
		simNow.Add(50)
		_, want := (&RoundPlan{Crash: &CrashSpec{Phase: "tiles", Mask: uint64(rng.Intn(4))}}).Install(a.In)
		a.Sequence(want)
		a.Abandon()
		env.W.CopyBucket("", altNS, nil)
		simNow.Add(50)
		if a, err = env.Load("A2", nil); err != nil {
			env.violate("recovery-failed", "LoadLog after a crash inside the tile batch failed: %v", err)
			return
		}
	}
	for i := 0; i < bc.Behind; i++ {
		if err := round(a, 1+rng.Intn(3)); err != nil {
			env.violate("first-instance-stuck", "first instance failed a round before the second one started: %v", err)
			return
		}
	}
	// ---- start the second instance ---------------------------------------
	simNow.Add(20)
	before := lockAndMainBucket(env.W)
	lockBefore := len(env.lockObsSnapshot())
	b, err := env.loadBucket("B", altNS, cacheB)
	if err != nil {
		r.Count("second_bucket_load_refused:"+bc.Copy, 1)
		r.DistinctKey(fmt.Sprintf("refused/%s/%d/%d", bc.Copy, bc.Start, bc.Behind))
		if after := lockAndMainBucket(env.W); after != before {
			env.violate("refused-startup-modified-stores:second-bucket-"+bc.Copy, "a refused LoadLog on the second bucket (%s) changed the lock store or the first bucket", bc.Copy)
		}
		// creating the log "again" on the second bucket must be refused too
		in := NewInst(env.W, "createB")
		in.NS = altNS
		cfg := env.config(in)
		cfg.Cache = filepath.Join(env.Dir, "cache-create.db")
		simNow.Add(5)
		if cerr := ctlog.CreateLog(ctx, cfg); cerr == nil {
			env.violate("log-created-over-existing:second-bucket", "CreateLog on the second bucket (%s) succeeded although the lock store holds the log", bc.Copy)
		} else {
			r.Count("second_bucket_create_refused", 1)
		}
		if after := lockAndMainBucket(env.W); after != before {
			env.violate("refused-startup-modified-stores:second-bucket-create", "a refused CreateLog on the second bucket changed the lock store or the first bucket")
		}
		if n := len(env.lockObsSnapshot()); n != lockBefore {
			env.violate("refused-startup-committed", "%d lock commits during refused start-ups", n-lockBefore)
		}
		// the first instance is not disturbed
		if err := round(a, 1); err != nil {
			env.violate("first-instance-stuck", "first instance failed after the refused start of a second one: %v", err)
		}
		env.FinalChecks()
		env.CheckAcks()
		return
	}
	r.Count("second_bucket_loaded:"+bc.Copy, 1)
	if bc.Copy == "empty" || bc.Copy == "no-checkpoint" || bc.Copy == "no-tiles" && bc.Start > 0 {
		env.violate("startup-not-refused:second-bucket-"+bc.Copy, "LoadLog succeeded on a bucket that cannot hold the committed tree (%s, size %d)", bc.Copy, bc.Start)
	}
	// ---- both run one round under a gate schedule -------------------------
	sched := NewScheduler()
	insts := []*LogInst{a, b}
	pools := []int{bc.PoolA, bc.PoolB}
	aws := []*asyncWaiters{{}, {}}
	for i, li := range insts {
		for j := 0; j < pools[i]; j++ {
			aws[i].start(li, li.Submit(genEntry(rng, cheapShape(rng)), false))
		}
	}
	simNow.Add(13)
	lockBefore = len(env.lockObsSnapshot())
	errs := make([]error, 2)
	var wg sync.WaitGroup
	for i, li := range insts {
		sched.Attach(li.In, i)
		li.BeginRound()
		wg.Add(1)
		go func() {
			defer wg.Done()
			errs[i] = li.Log.VerifSequence(ctx)
			sched.Finished(i)
		}()
	}
	for _, id := range bc.Schedule {
		sched.Step(id, 15*time.Second)
	}
	for alive := true; alive; {
		alive = false
		for id := 0; id < 2; id++ {
			if _, ok := sched.Step(id, 15*time.Second); ok {
				alive = true
			}
		}
	}
	wg.Wait()
	r.DistinctKey("bucket-trace:" + bc.Copy + ":" + strings.Join(sched.Trace, " "))
	commits := env.lockObsSnapshot()[lockBefore:]
	winners := map[string]bool{}
	for _, o := range commits {
		winners[o.By] = true
	}
	if len(commits) > 1 {
		env.violate("two-instances-extended-one-checkpoint", "%d lock commits from one starting checkpoint (instances on two buckets): %v", len(commits), winners)
	}
	for i, li := range insts {
		won := winners[li.In.Name]
		switch {
		case !won && errs[i] == nil:
			env.violate("loser-did-not-stop", "instance %s (bucket %q) did not commit but its round returned no error", li.In.Name, li.In.NS)
		case !won && !errors.Is(errs[i], ctlog.VerifErrFatal):
			env.violate("loser-error-not-fatal", "instance %s lost the compare-and-swap with a non-fatal error: %v", li.In.Name, errs[i])
		}
		aws[i].wg.Wait()
		for _, ack := range aws[i].acks {
			if ack.OK && !won && ack.Sub.Source != "cache" {
				env.violate("loser-acknowledged", "instance %s lost the round but acknowledged submission %d", li.In.Name, ack.Sub.ID)
			}
		}
		if won {
			r.Count("winners", 1)
			r.Count("winner_bucket:"+map[bool]string{true: "second", false: "first"}[li.In.NS != ""], 1)
		} else {
			r.Count("losers", 1)
		}
	}
	sched.Drain()
	// ---- afterwards: the winner goes on, the loser stays out ---------------
	for i, li := range insts {
		li.In.Plan, li.In.Trace = nil, nil
		if winners[li.In.Name] {
			if err := round(li, 1+rng.Intn(2)); err != nil {
				env.violate("winner-stuck", "winner %s failed its next round: %v", li.In.Name, err)
			}
			if lock := env.LockSTH(); lock != nil && !env.broken {
				for _, p := range env.auditBucket(li.In.NS, lock) {
					env.violate("post-race-audit:"+p.Class, "winner's bucket %q at the lock checkpoint (size %d): %s", li.In.NS, lock.Size, p.Msg)
				}
				r.Count("bucket_audits", 1)
			}
			continue
		}
		n0 := len(env.lockObsSnapshot())
		if err := round(li, 1); err == nil {
			env.violate("loser-did-not-stop", "stale instance %s ran another round without error", li.In.Name)
		}
		if len(env.lockObsSnapshot()) != n0 {
			env.violate("stale-instance-committed", "stale instance %s committed after losing", li.In.Name)
		}
		// an operator restarts the loser on its own bucket: the lock store is
		// ahead of that bucket and the staging bundle lives in the other one
		li.Abandon()
		simNow.Add(9)
		keep := lockAndMainBucket(env.W)
		if li.In.NS == "" {
			keep = "" // the loser owns the first bucket: recovery may write there
		}
		n0 = len(env.lockObsSnapshot())
		re, rerr := env.loadBucket(fmt.Sprintf("re%d", i), li.In.NS, filepath.Join(env.Dir, fmt.Sprintf("cache-re%d.db", i)))
		if rerr == nil {
			// legal only if its bucket really holds the committed tree
			if lock := env.LockSTH(); lock != nil && !env.broken {
				if ps := env.auditBucket(li.In.NS, lock); len(ps) > 0 {
					env.violate("startup-not-refused:bucket-behind-lock", "restart of the loser on bucket %q succeeded although that bucket does not hold the lock-committed tree: %s", li.In.NS, ps[0].Msg)
				}
			}
			re.Abandon()
			r.Count("loser_restart_loaded", 1)
		} else {
			r.Count("loser_restart_refused", 1)
		}
		if keep != "" && lockAndMainBucket(env.W) != keep {
			env.violate("refused-startup-modified-stores:loser-restart", "restart of the loser on the second bucket changed the lock store or the first bucket")
		}
		if len(env.lockObsSnapshot()) != n0 {
			env.violate("stale-instance-committed", "restart of the loser committed to the lock store")
		}
	}
	for _, li := range insts {
		li.Abandon()
	}
	if !winners["A"] && !winners["A2"] {
		// the first bucket lost: its published checkpoint stays behind; the
		// end-of-history checks read the first bucket up to what it holds.
		r.Count("first_bucket_left_behind", 1)
	}
	env.FinalChecks()
	env.CheckAcks()
}

func TestC06SecondBucket(t *testing.T) {
	r := NewRun(t, "C06", "secondbucket")
	r.Rule = "a second instance (same key, same lock store) attached to another bucket filled by: an exact copy, a copy taken between lock commit and publication, a copy that is 1-3 rounds behind, a copy without checkpoint / without tiles, an empty bucket; LoadLog and CreateLog refusals must leave lock store and first bucket untouched; when both load, one round each under seeded gate schedules: one commit, loser fatal and silent, winner's bucket complete, loser cannot restart into the committed tree; distinct = (copy kind, start, behind) for refusals, realised trace for races"
	rng := NewRng(r.Seed, "c06b")
	starts := []int{0, 1, 255, 256, 257}
	bases := buildBases(r, rng, starts)
	defer bases.Cleanup()
	var rc bucketCase
	if replayCase("C06", "secondbucket", &rc) {
		runBucketCase(r, bases, &rc)
		return
	}
	var cases []*bucketCase
	for _, start := range starts {
		for _, cp := range []string{"empty", "no-checkpoint", "no-tiles"} {
			cases = append(cases, &bucketCase{Start: start, Copy: cp, Behind: rng.Intn(2)})
		}
		for behind := 1; behind <= 3; behind++ {
			cases = append(cases, &bucketCase{Start: start, Copy: "exact", Behind: behind})
			cases = append(cases, &bucketCase{Start: start, Copy: "mid-round", Behind: behind})
		}
		for i := 0; i < pick(14, 200); i++ {
			bc := &bucketCase{Start: start, Copy: pickOne(rng, []string{"exact", "exact", "mid-round"}),
				PoolA: pickOne(rng, []int{0, 1, 1, 2, 257}), PoolB: pickOne(rng, []int{0, 1, 1, 3})}
			for j := 0; j < 2+rng.Intn(12); j++ {
				bc.Schedule = append(bc.Schedule, rng.Intn(2))
			}
			cases = append(cases, bc)
		}
	}
	for i, bc := range cases {
		bc.Seed = r.Seed*7919 + int64(i)
		if !mine(i) {
			continue
		}
		runBucketCase(r, bases, bc)
		if i%37 == 0 {
			r.Sample(bc.String())
		}
	}
	if shard, _ := shardInfo(); shard == 0 && (r.Counter("losers") == 0 || r.Counter("winners") == 0) {
		r.Inconcl("no winner/loser pair observed on two buckets")
	}
}
