package verifharness

// Offline durability checker over a recorded strace log of LocalBackend uploads.
//
// Crash model (an assumption, recorded in the evidence): a file's data is
// durable once an fsync of that file which started after the last write has
// returned; a directory entry (create, rename, mkdir) is durable once an fsync
// of *that directory* which started after the operation returned has returned;
// anything else may be lost or reordered by a power loss at any instant.
// Under that model the two things that must hold at every instant are checked
// where they become observable: (I1) at every rename that publishes a name, the
// file's data is already durable and complete; (I2) at the instant an upload
// returns, every directory entry on the path from the backend root to the
// object is durable and points at complete, durable content; plus (I3) no
// final name is ever opened for writing in place.

import (
	"bufio"
	"fmt"
	"math"
	"os"
	"path/filepath"
	"regexp"
	"strconv"
	"strings"
)

type sysEvent struct {
	pid        int
	start, end float64
	name       string
	args       string
	ret        int64
	retPath    string
}

var (
	reLine    = regexp.MustCompile(`^(\d+)\s+(\d+\.\d+)\s+(.*)$`)
	reCall    = regexp.MustCompile(`^(\w+)\((.*)\)\s+=\s+(-?\d+|\?)(?:<([^>]*)>)?.*?(?:<(\d+\.\d+)>)?$`)
	reUnfin   = regexp.MustCompile(`^(\w+)\((.*)<unfinished \.\.\.>$`)
	reResumed = regexp.MustCompile(`^<\.\.\. (\w+) resumed>(.*)$`)
	reQuoted  = regexp.MustCompile(`"((?:[^"\\]|\\.)*)"`)
	reFdPath  = regexp.MustCompile(`^\d+<([^>]*)>`)
)

func parseStrace(path string) ([]sysEvent, error) {
	f, err := os.Open(path)
	if err != nil {
		return nil, err
	}
	defer f.Close()
	var out []sysEvent
	pending := map[int]struct {
		start float64
		text  string
	}{}
	sc := bufio.NewScanner(f)
	sc.Buffer(make([]byte, 1<<20), 16<<20)
	for sc.Scan() {
		m := reLine.FindStringSubmatch(sc.Text())
		if m == nil {
			continue
		}
		pid, _ := strconv.Atoi(m[1])
		ts, _ := strconv.ParseFloat(m[2], 64)
		rest := m[3]
		if u := reUnfin.FindStringSubmatch(rest); u != nil {
			pending[pid] = struct {
				start float64
				text  string
			}{ts, u[1] + "(" + u[2]}
			continue
		}
		start := ts
		if rs := reResumed.FindStringSubmatch(rest); rs != nil {
			p, ok := pending[pid]
			if !ok {
				continue
			}
			delete(pending, pid)
			start = p.start
			rest = p.text + rs[2]
		}
		c := reCall.FindStringSubmatch(rest)
		if c == nil {
			continue
		}
		ev := sysEvent{pid: pid, start: start, name: c[1], args: c[2], retPath: c[4]}
		if c[3] == "?" {
			continue
		}
		ev.ret, _ = strconv.ParseInt(c[3], 10, 64)
		dur := 0.0
		if c[5] != "" {
			dur, _ = strconv.ParseFloat(c[5], 64)
		}
		ev.end = start + dur // for a resumed call ts is the time of resumption, not of entry
		if ev.end < ts && dur == 0 {
			ev.end = ts
		}
		if ev.end < ev.start {
			ev.end = ev.start
		}
		out = append(out, ev)
	}
	return out, sc.Err()
}

type fsInode struct {
	written      int64
	lastWriteEnd float64
	syncStart    float64 // start of the last fsync
	syncEnd      float64
	syncedLen    int64 // length covered by the last fsync
}

type fsEntry struct {
	inode     *fsInode // nil for directories
	opEnd     float64
	durableAt float64
	// concurrent: a directory made while two or more uploads were in flight
	// (another uploader may find it and skip the fsync of its parent)
	concurrent bool
	opStart    float64
}

type fsUpload struct {
	id    int
	key   string
	sha   string
	imm   bool
	size  int64
	begin float64
	end   float64
	ok    bool
}

type traceReport struct {
	Renames, Ends, Events, Fsyncs, Mkdirs int
	Problems                              []AuditProblem
	Uploads                               map[int]*fsUpload
}

func checkTrace(events []sysEvent, root, markers string) *traceReport {
	rep := &traceReport{Uploads: map[int]*fsUpload{}}
	add := func(class, f string, a ...any) {
		if len(rep.Problems) < 12 {
			rep.Problems = append(rep.Problems, AuditProblem{class, fmt.Sprintf(f, a...)})
		}
	}
	root = filepath.Clean(root)
	inRoot := func(p string) bool { return p == root || strings.HasPrefix(p, root+"/") }
	names := map[string]*fsInode{}           // path -> inode (files)
	dirs := map[string]map[string]*fsEntry{} // dir -> name -> entry
	entry := func(p string) *fsEntry {
		d := dirs[filepath.Dir(p)]
		if d == nil {
			return nil
		}
		return d[filepath.Base(p)]
	}
	setEntry := func(p string, e *fsEntry) {
		d := filepath.Dir(p)
		if dirs[d] == nil {
			dirs[d] = map[string]*fsEntry{}
		}
		dirs[d][filepath.Base(p)] = e
	}
	byKey := map[string][]*fsUpload{}
	inFlight := 0
	isTemp := func(p string) bool { return strings.HasPrefix(filepath.Base(p), ".") }
	for _, ev := range events {
		if ev.ret < 0 {
			continue
		}
		rep.Events++
		qs := reQuoted.FindAllStringSubmatch(ev.args, -1)
		switch ev.name {
		case "write", "pwrite64":
			fp := reFdPath.FindStringSubmatch(ev.args)
			if fp == nil {
				continue
			}
			p := fp[1]
			if p == markers {
				if len(qs) == 0 {
					continue
				}
				fs := strings.Fields(strings.TrimSuffix(qs[0][1], `\n`))
				if len(fs) < 3 || fs[0] != "VERIFMARK" {
					continue
				}
				id, _ := strconv.Atoi(fs[2])
				switch fs[1] {
				case "BEGIN":
					if len(fs) >= 7 {
						sz, _ := strconv.ParseInt(fs[6], 10, 64)
						u := &fsUpload{id: id, key: fs[3], sha: fs[4], imm: fs[5] == "true", size: sz, begin: ev.start}
						rep.Uploads[id] = u
						byKey[u.key] = append(byKey[u.key], u)
						inFlight++
					}
				case "END":
					u := rep.Uploads[id]
					if u == nil {
						continue
					}
					inFlight--
					u.end, u.ok = ev.start, len(fs) >= 4 && fs[3] == "ok"
					if !u.ok {
						continue
					}
					rep.Ends++
					// (I2) every entry on the path is durable by now, and the content is complete
					p := filepath.Join(root, filepath.FromSlash(u.key))
					for q := p; q != root && inRoot(q); q = filepath.Dir(q) {
						e := entry(q)
						if e == nil {
							if q == p {
								add("upload-returned-without-object", "upload %d of %s returned ok but no rename published %s", id, u.key, q)
							}
							continue // pre-existing directory
						}
						if e.durableAt > u.end {
							what := "directory entry of the object"
							if q != p {
								what = "entry of directory " + strings.TrimPrefix(q, root+"/")
							}
							class := "entry-not-durable-at-return"
							if q != p && (e.concurrent || e.opStart < u.begin) {
								class += ":concurrent-mkdir"
							}
							add(class, "upload %d of %s returned at %.6f but the %s was not yet covered by an fsync of its parent directory", id, u.key, u.end, what)
						}
					}
					if e := entry(p); e != nil && e.inode != nil {
						okLen := false
						for _, c := range byKey[u.key] {
							if c.begin <= u.end && c.size == e.inode.written {
								okLen = true
							}
						}
						if !okLen {
							add("object-incomplete-at-return", "upload %d of %s returned ok but the published file has %d bytes, not the length of any upload of that key", id, u.key, e.inode.written)
						}
						if e.inode.written > 0 && (e.inode.syncedLen != e.inode.written || e.inode.syncEnd > u.end) {
							add("data-not-durable-at-return", "upload %d of %s returned ok but the file data was not covered by a completed fsync", id, u.key)
						}
					}
				}
				continue
			}
			if !inRoot(p) {
				continue
			}
			ino := names[p]
			if ino == nil {
				ino = &fsInode{}
				names[p] = ino
			}
			ino.written += ev.ret
			ino.lastWriteEnd = ev.end
			if !isTemp(p) {
				add("write-in-place", "write to the final name %s (not to a temporary file)", p)
			}
		case "openat":
			if len(qs) == 0 {
				continue
			}
			p := filepath.Clean(qs[0][1])
			if !inRoot(p) {
				continue
			}
			flags := ev.args
			if strings.Contains(flags, "O_CREAT") && (strings.Contains(flags, "O_WRONLY") || strings.Contains(flags, "O_RDWR")) {
				if !isTemp(p) {
					add("write-in-place", "final name %s opened for writing with O_CREAT", p)
				}
				ino := &fsInode{}
				names[p] = ino
				setEntry(p, &fsEntry{inode: ino, opEnd: ev.end, durableAt: math.Inf(1)})
			} else if strings.Contains(flags, "O_TRUNC") && !isTemp(p) {
				add("write-in-place", "final name %s opened with O_TRUNC", p)
			}
		case "mkdirat", "mkdir":
			if len(qs) == 0 {
				continue
			}
			p := filepath.Clean(qs[0][1])
			if inRoot(p) {
				rep.Mkdirs++
				setEntry(p, &fsEntry{opStart: ev.start, opEnd: ev.end, durableAt: math.Inf(1), concurrent: inFlight >= 2})
			}
		case "renameat", "renameat2", "rename":
			if len(qs) < 2 {
				continue
			}
			from, to := filepath.Clean(qs[0][1]), filepath.Clean(qs[1][1])
			if !inRoot(to) {
				continue
			}
			rep.Renames++
			ino := names[from]
			if ino == nil {
				ino = &fsInode{}
			}
			// (I1) data durable and complete before the name is published
			if ino.written > 0 && (ino.syncedLen != ino.written || ino.syncStart < ino.lastWriteEnd || ino.syncEnd > ev.start) {
				add("rename-before-data-durable", "%s renamed to %s at %.6f before its %d bytes were covered by a completed fsync (synced %d)", filepath.Base(from), strings.TrimPrefix(to, root+"/"), ev.start, ino.written, ino.syncedLen)
			}
			delete(names, from)
			if d := dirs[filepath.Dir(from)]; d != nil {
				delete(d, filepath.Base(from))
			}
			names[to] = ino
			setEntry(to, &fsEntry{inode: ino, opEnd: ev.end, durableAt: math.Inf(1)})
		case "fsync", "fdatasync":
			fp := reFdPath.FindStringSubmatch(ev.args)
			if fp == nil {
				continue
			}
			p := filepath.Clean(fp[1])
			if !inRoot(p) {
				continue
			}
			rep.Fsyncs++
			if ino := names[p]; ino != nil {
				if ev.start >= ino.lastWriteEnd {
					ino.syncedLen = ino.written
				}
				ino.syncStart, ino.syncEnd = ev.start, ev.end
				continue
			}
			// directory: entries created before this fsync started become durable when it returns
			for _, e := range dirs[p] {
				if e.opEnd <= ev.start && ev.end < e.durableAt {
					e.durableAt = ev.end
				}
			}
		case "unlinkat", "unlink":
			if len(qs) == 0 {
				continue
			}
			p := filepath.Clean(qs[0][1])
			if inRoot(p) {
				delete(names, p)
				if d := dirs[filepath.Dir(p)]; d != nil {
					delete(d, filepath.Base(p))
				}
			}
		}
	}
	return rep
}
