package verifharness

import (
	"bytes"
	"context"
	"crypto/sha256"
	"encoding/base64"
	"encoding/json"
	"encoding/pem"
	"fmt"
	"net/http"
	"net/http/httptest"
	"sort"
	"strings"
	"testing"
	"time"
)

type c09Knobs struct {
	Root      string `json:"root"`  // accepted | unknown | later
	Inter     int    `json:"inter"` // number of intermediates
	Order     string `json:"order"` // ok | with-root | missing-link | extra-unrelated | swapped
	NotAfter  string `json:"not_after"`
	EKU       string `json:"eku"`
	Type      string `json:"type"` // final | precert | poison-noncritical | poison-badvalue
	PreIssuer bool   `json:"preissuer"`
	Endpoint  string `json:"endpoint"` // add-chain | add-pre-chain
	Body      string `json:"body"`     // ok | empty-chain | not-base64 | truncated-der | trailing-der | get
}

func (k c09Knobs) String() string {
	return fmt.Sprintf("root=%s inter=%d order=%s na=%s eku=%s type=%s preissuer=%v ep=%s body=%s", k.Root, k.Inter, k.Order, k.NotAfter, k.EKU, k.Type, k.PreIssuer, k.Endpoint, k.Body)
}

type c09PKI struct {
	roots map[string]*genCert   // accepted, unknown, later
	inter map[string][]*genCert // per root: I1 <- I2 <- I3
	other *genCert
}

func newC09PKI(rng *Rng) *c09PKI {
	p := &c09PKI{roots: map[string]*genCert{}, inter: map[string][]*genCert{}}
	for _, name := range []string{"accepted", "unknown", "later"} {
		root := makeCA(rng, "verif root "+name, nil)
		p.roots[name] = root
		parent := root
		for i := 1; i <= 3; i++ {
			ic := makeCA(rng, fmt.Sprintf("verif %s intermediate %d", name, i), parent)
			p.inter[name] = append(p.inter[name], ic)
			parent = ic
		}
	}
	p.other = makeCA(rng, "unrelated CA", nil)
	return p
}

func pemOf(cs ...*genCert) []byte {
	var b []byte
	for _, c := range cs {
		b = append(b, pem.EncodeToMemory(&pem.Block{Type: "CERTIFICATE", Bytes: c.DER})...)
	}
	return b
}

var (
	c09Start = time.Date(2026, 1, 1, 0, 0, 0, 0, time.UTC)
	c09Limit = time.Date(2027, 1, 1, 0, 0, 0, 0, time.UTC)
)

func c09NotAfter(pos string) time.Time {
	switch pos {
	case "start-1s":
		return c09Start.Add(-time.Second)
	case "start":
		return c09Start
	case "start+1s":
		return c09Start.Add(time.Second)
	case "limit-1s":
		return c09Limit.Add(-time.Second)
	case "limit":
		return c09Limit
	case "limit+1s":
		return c09Limit.Add(time.Second)
	}
	return c09Start.Add(100 * 24 * time.Hour)
}

func genC09Knobs(rng *Rng) c09Knobs {
	k := c09Knobs{
		Root: pickOne(rng, []string{"accepted", "accepted", "accepted", "unknown", "later"}), Inter: rng.Intn(4),
		Order:    pickOne(rng, []string{"ok", "ok", "ok", "with-root", "missing-link", "extra-unrelated", "swapped"}),
		NotAfter: pickOne(rng, []string{"mid", "mid", "start-1s", "start", "start+1s", "limit-1s", "limit", "limit+1s"}),
		EKU:      pickOne(rng, []string{"server", "server", "server+client", "client", "none"}),
		Type:     pickOne(rng, []string{"final", "final", "precert", "precert", "precert", "poison-noncritical", "poison-badvalue"}),
		Body:     pickOne(rng, []string{"ok", "ok", "ok", "ok", "ok", "ok", "ok", "empty-chain", "not-base64", "truncated-der", "trailing-der", "get"}),
	}
	if k.Type == "precert" || strings.HasPrefix(k.Type, "poison") {
		k.PreIssuer = rng.Intn(3) == 0
	}
	k.Endpoint = "add-chain"
	if k.Type != "final" {
		k.Endpoint = "add-pre-chain"
	}
	if rng.Intn(6) == 0 { // wrong endpoint
		if k.Endpoint == "add-chain" {
			k.Endpoint = "add-pre-chain"
		} else {
			k.Endpoint = "add-chain"
		}
	}
	if rng.Intn(100) < 35 { // fully valid knobs (type, preissuer, chain length and boundary positions still vary)
		k.Root, k.Body = "accepted", "ok"
		k.Order = pickOne(rng, []string{"ok", "ok", "with-root"})
		k.NotAfter = pickOne(rng, []string{"mid", "start", "start+1s", "limit-1s"})
		k.EKU = pickOne(rng, []string{"server", "server+client"})
		if k.Type != "final" {
			k.Type = "precert"
		}
		k.Endpoint = "add-chain"
		if k.Type == "precert" {
			k.Endpoint = "add-pre-chain"
		}
		return k
	}
	// keep most cases single-fault so that each rule is load-bearing
	if rng.Intn(3) != 0 {
		faults := 0
		if k.Root != "accepted" {
			faults++
		}
		for _, f := range []bool{k.Order != "ok" && k.Order != "with-root", !strings.HasPrefix(k.NotAfter, "mid") && k.NotAfter != "start" && k.NotAfter != "start+1s" && k.NotAfter != "limit-1s", k.EKU == "client" || k.EKU == "none", strings.HasPrefix(k.Type, "poison"), k.Body != "ok"} {
			if f {
				faults++
			}
		}
		if faults > 1 {
			k.Root, k.Order, k.Body = "accepted", "ok", "ok"
		}
	}
	return k
}

type c09Built struct {
	chain     [][]byte // as submitted
	leaf      *genCert
	preIssuer *genCert
	issuerCA  *genCert   // the true issuing CA
	validated []*genCert // expected validated chain after the leaf: (preissuer), intermediates..., root
	expect    bool       // expected acceptance
	judged    bool
	why       string
}

func buildC09(rng *Rng, p *c09PKI, k c09Knobs, laterAccepted bool, id int64) *c09Built {
	b := &c09Built{judged: true}
	root := p.roots[k.Root]
	var path []*genCert // issuing CA first ... up to below root
	issuer := root
	for i := 0; i < k.Inter; i++ {
		issuer = p.inter[k.Root][i]
		path = append([]*genCert{issuer}, path...)
	}
	b.issuerCA = issuer
	signer := issuer
	if k.PreIssuer {
		b.preIssuer = makePreIssuer(rng, fmt.Sprintf("precert signer %d", id), issuer)
		signer = b.preIssuer
	}
	sp := leafSpec{NotAfter: c09NotAfter(k.NotAfter), EKU: k.EKU}
	switch k.Type {
	case "precert":
		sp.Poison = "ok"
	case "poison-noncritical":
		sp.Poison = "noncritical"
	case "poison-badvalue":
		sp.Poison = "badvalue"
	}
	b.leaf = makeLeaf(rng, id, signer, sp)
	var mid []*genCert
	if b.preIssuer != nil {
		mid = append(mid, b.preIssuer)
	}
	mid = append(mid, path...)
	b.validated = append(append([]*genCert{}, mid...), root)
	sub := append([]*genCert{}, mid...)
	orderOK := true
	switch k.Order {
	case "with-root":
		sub = append(sub, root)
	case "missing-link":
		if len(sub) > 0 {
			i := rng.Intn(len(sub))
			sub = append(sub[:i:i], sub[i+1:]...)
			orderOK = false
		}
	case "extra-unrelated":
		sub = append(sub, p.other)
		orderOK = false
	case "swapped":
		if len(sub) >= 2 {
			sub[0], sub[1] = sub[1], sub[0]
			orderOK = false
		}
	}
	b.chain = [][]byte{b.leaf.DER}
	for _, c := range sub {
		b.chain = append(b.chain, c.DER)
	}
	rootOK := k.Root == "accepted" || (k.Root == "later" && laterAccepted)
	naOK := !sp.NotAfter.Before(c09Start) && sp.NotAfter.Before(c09Limit)
	ekuOK := k.EKU == "server" || k.EKU == "server+client"
	isPre := k.Type == "precert"
	typeOK := (k.Endpoint == "add-pre-chain") == isPre && !strings.HasPrefix(k.Type, "poison")
	bodyOK := k.Body == "ok"
	b.expect = rootOK && orderOK && naOK && ekuOK && typeOK && bodyOK
	b.why = fmt.Sprintf("root=%v order=%v notafter=%v eku=%v type/endpoint=%v body=%v", rootOK, orderOK, naOK, ekuOK, typeOK, bodyOK)
	if k.EKU == "none" && rootOK && orderOK && naOK && typeOK && bodyOK {
		b.judged = false // the statement does not fix chains without any EKU
	}
	return b
}

func c09Body(k c09Knobs, chain [][]byte) []byte {
	switch k.Body {
	case "empty-chain":
		return []byte(`{"chain":[]}`)
	case "not-base64":
		return []byte(`{"chain":["!!!not base64!!!"]}`)
	case "truncated-der":
		c := append([][]byte{chain[0][:len(chain[0])/2]}, chain[1:]...)
		b, _ := json.Marshal(map[string]any{"chain": c})
		return b
	case "trailing-der":
		c := append([][]byte{append(bytes.Clone(chain[0]), 0, 0)}, chain[1:]...)
		b, _ := json.Marshal(map[string]any{"chain": c})
		return b
	}
	b, _ := json.Marshal(map[string]any{"chain": chain})
	return b
}

func TestC09Chains(t *testing.T) {
	r := NewRun(t, "C09", "chains")
	r.Rule = "generated chains over knobs {root accepted/unknown/accepted-after-reload, 0-3 intermediates, order ok/with-root/missing-link/extra-unrelated/swapped, NotAfter at start-1s/start/start+1s/mid/limit-1s/limit/limit+1s, EKU server/server+client/client/none, final/precert/malformed poison, precertificate signing certificate, endpoint, body ok/empty/not-base64/truncated/trailing DER/GET} posted to the real HTTP handler with a running sequencer; expected decision computed from the knobs; accepted: SCT verified independently, stored leaf compared with an independent derivation (raw-ASN.1 defanger), issuers retrievable; get-roots after every reload incl. failing ones; distinct = knob tuple"
	r.Assume("chains whose leaf has no EKU at all are recorded, not judged")
	rng := NewRng(r.Seed, "c09")
	shard, shards := shardInfo()
	rng = rng.Fork(fmt.Sprint(shard))
	env := NewLogEnv(r, rng.Fork("env"))
	env.NotAfterStart, env.NotAfterLimit = c09Start, c09Limit
	env.NoTruth = true
	env.AuditPub = true
	defer env.Cleanup()
	simAuto.Store(true)
	defer simAuto.Store(false)
	if err := env.Create(nil); err != nil {
		t.Fatal(err)
	}
	li, err := env.Load("H", nil)
	if err != nil {
		t.Fatal(err)
	}
	pki := newC09PKI(rng.Fork("pki"))
	ctx, cancel := context.WithCancel(context.Background())
	defer cancel()
	seqStopped := make(chan struct{})
	go func() { defer close(seqStopped); li.Log.RunSequencer(ctx, 3*time.Millisecond) }()
	h := li.Log.Handler()
	do := func(method, path string, body []byte) *httptest.ResponseRecorder {
		req := httptest.NewRequest(method, path, bytes.NewReader(body))
		rec := httptest.NewRecorder()
		h.ServeHTTP(rec, req)
		return rec
	}
	viol := func(id string, info any, f string, a ...any) { r.Violate(id, info, f, a...) }
	// roots handling
	installed := []*genCert{}
	checkRoots := func(when string) {
		rec := do("GET", "/ct/v1/get-roots", nil)
		var res struct {
			Certificates [][]byte `json:"certificates"`
		}
		if rec.Code != 200 || json.Unmarshal(rec.Body.Bytes(), &res) != nil {
			viol("get-roots-failed", when, "get-roots returned %d", rec.Code)
			return
		}
		var got, want []string
		for _, c := range res.Certificates {
			got = append(got, fmt.Sprintf("%x", sha256.Sum256(c)))
		}
		for _, c := range installed {
			want = append(want, fmt.Sprintf("%x", sha256.Sum256(c.DER)))
		}
		sort.Strings(got)
		sort.Strings(want)
		if strings.Join(got, ",") != strings.Join(want, ",") {
			viol("get-roots-mismatch", when, "get-roots reports %d roots, %d are installed (%s)", len(got), len(want), when)
		}
		r.Count("get_roots_checks", 1)
	}
	setRoots := func(cs []*genCert, when string) {
		if err := li.Log.SetRootsFromPEM(context.Background(), pemOf(cs...)); err != nil {
			viol("set-roots-failed", when, "SetRootsFromPEM failed: %v", err)
			return
		}
		installed = cs
		checkRoots(when)
	}
	checkRoots("after creation")
	setRoots([]*genCert{pki.roots["accepted"]}, "first install")
	// a reload that does not parse, and one whose upload fails: the served set must stay
	if err := li.Log.SetRootsFromPEM(context.Background(), []byte("-----BEGIN CERTIFICATE-----\nnot base64\n-----END CERTIFICATE-----\n")); err == nil {
		viol("set-roots-accepted-garbage", nil, "SetRootsFromPEM accepted an unparsable PEM")
	}
	checkRoots("after unparsable reload")
	for _, applied := range []bool{false, true} {
		li.In.Plan = func(c *Call) Decision {
			if c.Kind == OpUpload && c.Key == "_roots.pem" {
				return Decision{Apply: applied, Err: rotatingInjectedErr()}
			}
			return decideOK
		}
		next := []*genCert{pki.roots["accepted"], pki.other}
		err := li.Log.SetRootsFromPEM(context.Background(), pemOf(next...))
		li.In.Plan = nil
		if err == nil {
			viol("set-roots-ignored-upload-error", nil, "SetRootsFromPEM reported success although persisting the roots failed")
		}
		checkRoots(fmt.Sprintf("after reload with failed upload (applied=%v)", applied))
		// the same reload retried must now take effect
		setRoots(next, "retry of the failed reload")
		setRoots([]*genCert{pki.roots["accepted"]}, "back to one root")
	}
	laterAccepted := false
	n := pick(3000, 30000) / shards
	accepted := 0
	type okCase struct {
		k    c09Knobs
		body []byte
		rsp  []byte
	}
	var oks []okCase
	for i := 0; i < n; i++ {
		if i == n/2 {
			setRoots([]*genCert{pki.roots["accepted"], pki.roots["later"]}, "reload adding a root")
			laterAccepted = true
		}
		k := genC09Knobs(rng)
		b := buildC09(rng, pki, k, laterAccepted, int64(shard*1000000+i))
		body := c09Body(k, b.chain)
		method := "POST"
		if k.Body == "get" {
			method = "GET"
		}
		sizeBefore := int64(0)
		if sth := env.PubSTH(); sth != nil {
			sizeBefore = sth.Size
		}
		issuersBefore := len(keysOfClass(env.W, "issuer", 0))
		rec := do(method, "/ct/v1/"+k.Endpoint, body)
		r.Eval(1)
		r.DistinctKey(k.String())
		info := map[string]any{"knobs": k, "expect": b.why, "status": rec.Code, "response": truncateStr(rec.Body.String(), 300)}
		if !b.judged {
			r.Count("not_judged_no_eku", 1)
			continue
		}
		if !b.expect {
			r.Count("expected_reject", 1)
			if rec.Code < 400 || rec.Code > 499 {
				viol("invalid-submission-not-rejected:"+c09Why(k, b), info, "submission that must be rejected (%s) got HTTP %d", b.why, rec.Code)
			}
			// no leaf, no issuer
			time.Sleep(4 * time.Millisecond)
			if sth := env.PubSTH(); sth != nil && sth.Size != sizeBefore && rec.Code >= 400 {
				viol("rejected-submission-left-a-leaf", info, "tree grew from %d to %d around a rejected submission", sizeBefore, sth.Size)
			}
			if n := len(keysOfClass(env.W, "issuer", 0)); n != issuersBefore {
				viol("rejected-submission-left-an-issuer", info, "a rejected submission added %d issuer objects", n-issuersBefore)
			}
			continue
		}
		r.Count("expected_accept", 1)
		if rec.Code != 200 {
			viol("valid-submission-rejected:"+k.Type, info, "submission that must be accepted got HTTP %d: %s", rec.Code, truncateStr(rec.Body.String(), 200))
			continue
		}
		accepted++
		checkC09Accepted(r, env, li, k, b, rec.Body.Bytes(), info)
		if len(oks) < 50 {
			oks = append(oks, okCase{k, body, rec.Body.Bytes()})
		}
		if i < 6 {
			r.Sample(map[string]any{"knobs": k.String(), "status": rec.Code})
		}
	}
	// A transient object-storage failure on the upload of a NEW issuer: the
	// submission may be refused, but once a submission of that chain is accepted
	// every chain certificate must be retrievable.
	for i := 0; i < pick(6, 60); i++ {
		applied := i%2 == 1
		ic := makeCA(rng, fmt.Sprintf("fresh intermediate %d/%d", shard, i), pki.roots["accepted"])
		k := c09Knobs{Root: "accepted", Inter: 1, Order: "ok", NotAfter: "mid", EKU: "server", Type: pickOne(rng, []string{"final", "precert"}), Endpoint: "add-chain", Body: "ok"}
		if k.Type == "precert" {
			k.Endpoint = "add-pre-chain"
		}
		sp := leafSpec{NotAfter: c09NotAfter("mid"), EKU: "server"}
		if k.Type == "precert" {
			sp.Poison = "ok"
		}
		leaf := makeLeaf(rng, int64(shard*1000000+900000+i), ic, sp)
		b := &c09Built{chain: [][]byte{leaf.DER, ic.DER}, leaf: leaf, issuerCA: ic, validated: []*genCert{ic, pki.roots["accepted"]}, expect: true, judged: true}
		body := c09Body(k, b.chain)
		hit := false
		li.In.Plan = func(c *Call) Decision {
			if !hit && c.Kind == OpUpload && strings.HasPrefix(c.Key, "issuer/") {
				hit = true
				return Decision{Apply: applied, Err: faultErr(faultKinds[i%len(faultKinds)])}
			}
			return decideOK
		}
		rec := do("POST", "/ct/v1/"+k.Endpoint, body)
		li.In.Plan = nil
		r.Eval(1)
		info := map[string]any{"workload": "issuer-upload-fault", "applied": applied, "type": k.Type, "first_status": rec.Code}
		r.DistinctKey(fmt.Sprintf("issuer-upload-fault/applied=%v/%s/first=%d", applied, k.Type, rec.Code))
		if rec.Code == 200 {
			checkC09Accepted(r, env, li, k, b, rec.Body.Bytes(), info)
		}
		for try := 0; try < 2; try++ {
			rec = do("POST", "/ct/v1/"+k.Endpoint, body)
			r.Eval(1)
			info["retry_status"] = rec.Code
			if rec.Code == 200 {
				checkC09Accepted(r, env, li, k, b, rec.Body.Bytes(), info)
				r.Count("accepted_after_issuer_upload_fault", 1)
				break
			}
			if try == 1 {
				viol("valid-submission-rejected:after-issuer-upload-fault", info, "a valid chain is still refused (HTTP %d) on the second attempt after a transient issuer upload failure", rec.Code)
			}
		}
	}
	// resubmissions get the byte-identical response
	for _, o := range oks {
		rec := do("POST", "/ct/v1/"+o.k.Endpoint, o.body)
		if rec.Code != 200 || !bytes.Equal(rec.Body.Bytes(), o.rsp) {
			viol("resubmission-different-response", map[string]any{"knobs": o.k}, "resubmitting an accepted chain returned HTTP %d with a different body", rec.Code)
		}
		r.Count("resubmissions_checked", 1)
	}
	checkRoots("at the end")
	cancel()
	select { // the cache is closed only once the sequencer loop has returned
	case <-seqStopped:
	case <-time.After(60 * time.Second):
		r.Inconcl("sequencer loop did not return after cancellation")
	}
	li.Abandon()
	env.FinalChecks()
	if accepted == 0 {
		r.Inconcl("no chain was accepted")
	}
}

func c09Why(k c09Knobs, b *c09Built) string {
	var s []string
	for _, kv := range strings.Fields(b.why) {
		if strings.HasSuffix(kv, "=false") {
			s = append(s, strings.TrimSuffix(kv, "=false"))
		}
	}
	return strings.Join(s, "+")
}

func truncateStr(s string, n int) string {
	if len(s) > n {
		return s[:n]
	}
	return s
}

func checkC09Accepted(r *Run, env *LogEnv, li *LogInst, k c09Knobs, b *c09Built, rsp []byte, info map[string]any) {
	var sct struct {
		Version    int    `json:"sct_version"`
		ID         []byte `json:"id"`
		Timestamp  int64  `json:"timestamp"`
		Extensions string `json:"extensions"`
		Signature  []byte `json:"signature"`
	}
	if err := json.Unmarshal(rsp, &sct); err != nil {
		r.Violate("sct-response-unparseable", info, "add-chain response does not parse: %v", err)
		return
	}
	if sct.Version != 0 || !bytes.Equal(sct.ID, env.LogID[:]) {
		r.Violate("sct-log-id", info, "SCT version/log id wrong")
	}
	ext, err := base64.StdEncoding.DecodeString(sct.Extensions)
	if err != nil || len(ext) != 8 || ext[0] != 0 || ext[1] != 0 || ext[2] != 5 {
		r.Violate("sct-extension", info, "SCT extensions %q are not a single leaf_index extension", sct.Extensions)
		return
	}
	idx := int64(ext[3])<<32 | int64(ext[4])<<24 | int64(ext[5])<<16 | int64(ext[6])<<8 | int64(ext[7])
	// independent derivation of the entry
	want := &RefEntry{Timestamp: sct.Timestamp, LeafIndex: idx}
	if k.Type == "precert" {
		want.IsPrecert = true
		var pi []byte
		if b.preIssuer != nil {
			pi = b.preIssuer.DER
		}
		tbs, err := refDefang(b.leaf.DER, pi)
		if err != nil {
			r.Violate("harness-defang", info, "reference defanger failed: %v", err)
			return
		}
		want.Cert = tbs
		want.PreCert = b.leaf.DER
		want.IssuerKeyHash = sha256.Sum256(b.issuerCA.Cert.RawSubjectPublicKeyInfo)
	} else {
		want.Cert = b.leaf.DER
	}
	for _, c := range b.validated {
		want.Fingerprints = append(want.Fingerprints, sha256.Sum256(c.DER))
	}
	if err := refVerifySCT(env.Key.Public(), want, sct.Signature); err != nil {
		r.Violate("sct-does-not-verify:"+k.Type+fmt.Sprint("/preissuer=", k.PreIssuer), info, "SCT does not verify over the independently derived RFC 6962 leaf: %v", err)
	}
	// the stored leaf, readable now
	sth := env.PubSTH()
	if sth == nil || sth.Size <= idx {
		r.Violate("ack-before-publication", info, "SCT for index %d returned while the published checkpoint has size %v", idx, sth)
		return
	}
	n := idx / 256
	var got *RefEntry
	for _, w := range []int{int(min(256, sth.Size-n*256)), 256} {
		if tb, ok := env.W.Get(refTilePath(TileCoord{-1, n, w})); ok {
			if es, err := decodeDataTileCached(tb, w); err == nil {
				got = es[idx-n*256]
				break
			}
		}
	}
	if got == nil {
		r.Violate("ack-leaf-unreadable", info, "data tile for index %d unreadable", idx)
		return
	}
	if !got.Equal(want) {
		what := "entry"
		switch {
		case got.IsPrecert != want.IsPrecert:
			what = "entry type"
		case !bytes.Equal(got.Cert, want.Cert):
			what = "certificate/TBS"
		case got.IssuerKeyHash != want.IssuerKeyHash:
			what = "issuer key hash"
		case !bytes.Equal(got.PreCert, want.PreCert):
			what = "pre_certificate"
		case len(got.Fingerprints) != len(want.Fingerprints):
			what = "chain fingerprints count"
		}
		r.Violate("logged-entry-differs:"+what, info, "the logged entry at index %d differs from the independent derivation in: %s", idx, what)
	}
	for _, c := range b.validated {
		fp := sha256.Sum256(c.DER)
		if ib, ok := env.W.Get(fmt.Sprintf("issuer/%x", fp)); !ok || !bytes.Equal(ib, c.DER) {
			r.Violate("issuer-not-retrievable", info, "chain certificate %x is not retrievable as an issuer object", fp[:6])
		}
	}
	r.Count("accepted_checked", 1)
	r.Count(fmt.Sprintf("accepted_%s_preissuer=%v", k.Type, k.PreIssuer), 1)
}

var _ = http.StatusOK
