package verifharness

// LogEnv drives real ctlog.Log instances against a World and hosts the
// monitors shared by C01-C04, C06-C08 and C17: AppendOnly, StorageAudit,
// Immutable, DiscardOnlyStaging and the acknowledgement ledger.

import (
	"bytes"
	"context"
	"crypto/ecdsa"
	"crypto/elliptic"
	"crypto/sha256"
	"crypto/x509"
	"encoding/json"
	"fmt"
	"io"
	"log/slog"
	"os"
	"path/filepath"
	"sort"
	"strconv"
	"strings"
	"sync"
	"sync/atomic"
	"time"

	"filippo.io/mldsa"
	"filippo.io/sunlight"
	"filippo.io/sunlight/internal/ctlog"
)

// ---- the injected clock ----------------------------------------------------

// The ctlog package clock is a package global, so there is one simulated clock
// per process. Workloads that need clock anomalies own it exclusively.
var simNow atomic.Int64
var simAuto atomic.Bool
var simReads atomic.Int64

// simVirtual: the clock follows time.Now (virtual time inside a synctest bubble).
var simVirtual atomic.Bool

const baseTimeMs = 1_750_000_000_000

func init() {
	simNow.Store(baseTimeMs)
	ctlog.VerifSetTimeNowUnixMilli(func() int64 {
		simReads.Add(1)
		if simVirtual.Load() {
			return time.Now().UnixMilli()
		}
		if simAuto.Load() {
			return simNow.Add(1)
		}
		return simNow.Load()
	})
}

var discardLogger = slog.New(slog.NewTextHandler(io.Discard, &slog.HandlerOptions{Level: slog.LevelError + 4}))

// ---- environment -----------------------------------------------------------

type Sub struct {
	ID     int
	E      *ctlog.PendingLogEntry
	Low    bool
	Source string
	Wait   ctlog.VerifWaitEntryFunc
	Inst   *LogInst
	Round  int // round number of the instance at admission

	nextPool bool // duplicate that waits on an entry of the pool not yet rotated
}

type Ack struct {
	Sub       *Sub
	OK        bool
	Err       error
	Index     int64
	Timestamp int64
	Seq       int64 // world sequence number when the wait function returned
	Zombie    bool  // instance was already dead
	// StorageChecked: the as-of-ack-time storage checks already ran (in the
	// environment this one was forked from); only the truth check is repeated.
	StorageChecked bool
}

type CpObs struct {
	STH *RefSTH
	Raw []byte
	Seq int64
	By  string
}

type LogEnv struct {
	R     *Run
	W     *World
	Name  string
	Key   *ecdsa.PrivateKey
	WKey  *mldsa.PrivateKey
	LogID [32]byte
	Dir   string // scratch directory for cache databases
	Cache string

	NotAfterStart, NotAfterLimit time.Time
	PoolSize                     int

	mu        sync.Mutex
	Truth     []*RefEntry // leaves committed to the lock store, in order
	truthLH   []Hash
	LockObs   []CpObs
	PubObs    []CpObs
	committed map[string]int64 // raw checkpoint -> commit seq
	byInst    map[*Inst]*LogInst
	Acks      []*Ack
	nextSub   int
	broken    bool // truth tracking lost (after a reported violation)
	CaseInfo  func() any
	insts     []*LogInst
	AuditPub  bool // run the storage audit on every checkpoint publication
	NoTruth   bool // pools are not tracked (concurrent workloads): skip truth-based checks
	NoDedup   bool // the cache was lost at some point: duplicate leaves are legal
	// AuditUploads: every tile the server itself writes must be the exact
	// rendering of the committed truth (used when storage is adversarial and a
	// whole-store audit would be meaningless).
	AuditUploads bool
	// NS selects the bucket (object-key namespace) the monitors and audits
	// look at; calls of instances attached to another bucket go to
	// onForeignBucket.
	NS        string
	truthMC   *merkleCache
	auditN    int64
	pubAudits int64
}

var envCounter atomic.Int64

// deterministic keys per (seed, label): ecdsa.GenerateKey ignores the reader's
// determinism in recent Go versions, so derive the scalar ourselves.
func detECDSA(rng *Rng) *ecdsa.PrivateKey {
	for {
		b := rng.Bytes(32)
		k, err := ecdsa.ParseRawPrivateKey(elliptic.P256(), b)
		if err == nil {
			return k
		}
	}
}

func detMLDSA(rng *Rng) *mldsa.PrivateKey {
	k, err := mldsa.NewPrivateKey(mldsa.MLDSA44(), rng.Bytes(mldsa.PrivateKeySize))
	if err != nil {
		panic(err)
	}
	return k
}

var scratchRoot = sync.OnceValue(func() string {
	base := os.Getenv("VERIF_TMP")
	if base == "" {
		base = os.TempDir()
	}
	d, err := os.MkdirTemp(base, "vh-")
	if err != nil {
		panic(err)
	}
	return d
})

func NewLogEnv(r *Run, rng *Rng) *LogEnv {
	e := &LogEnv{
		R: r, W: NewWorld(), Name: "verif.example/log" + strconv.Itoa(int(envCounter.Add(1))),
		Key: detECDSA(rng), WKey: detMLDSA(rng),
		NotAfterStart: time.Date(2024, 1, 1, 0, 0, 0, 0, time.UTC),
		NotAfterLimit: time.Date(2099, 1, 1, 0, 0, 0, 0, time.UTC),
		committed:     map[string]int64{}, byInst: map[*Inst]*LogInst{},
	}
	spki, _ := x509.MarshalPKIXPublicKey(e.Key.Public())
	e.LogID = sha256.Sum256(spki)
	e.Dir = filepath.Join(scratchRoot(), fmt.Sprintf("env%d", envCounter.Add(1)))
	os.MkdirAll(e.Dir, 0o755)
	e.Cache = filepath.Join(e.Dir, "cache.db")
	e.W.Monitors = append(e.W.Monitors, e.monitor)
	return e
}

// Fork clones the persisted state (world, cache database) and the harness's
// knowledge into a new environment, so that many continuations can be explored
// from one pre-built state.
func (e *LogEnv) Fork() *LogEnv {
	e.mu.Lock()
	defer e.mu.Unlock()
	n := &LogEnv{
		R: e.R, W: e.W.Clone(), Name: e.Name, Key: e.Key, WKey: e.WKey, LogID: e.LogID,
		NotAfterStart: e.NotAfterStart, NotAfterLimit: e.NotAfterLimit, PoolSize: e.PoolSize,
		Truth: append([]*RefEntry(nil), e.Truth...), truthLH: append([]Hash(nil), e.truthLH...),
		LockObs: append([]CpObs(nil), e.LockObs...), PubObs: append([]CpObs(nil), e.PubObs...),
		committed: map[string]int64{}, byInst: map[*Inst]*LogInst{},
		nextSub: e.nextSub, AuditPub: e.AuditPub, AuditUploads: e.AuditUploads, NoTruth: e.NoTruth, CaseInfo: e.CaseInfo,
		Acks: append([]*Ack(nil), e.Acks...), NoDedup: e.NoDedup, broken: e.broken,
	}
	for k, v := range e.committed {
		n.committed[k] = v
	}
	n.Dir = filepath.Join(scratchRoot(), fmt.Sprintf("env%d", envCounter.Add(1)))
	os.MkdirAll(n.Dir, 0o755)
	n.Cache = filepath.Join(n.Dir, "cache.db")
	if b, err := os.ReadFile(e.Cache); err == nil {
		os.WriteFile(n.Cache, b, 0o644)
	}
	n.W.Monitors = append(n.W.Monitors, n.monitor)
	return n
}

// Cleanup abandons all instances and removes the scratch directory.
func (e *LogEnv) Cleanup() {
	e.mu.Lock()
	insts := e.insts
	e.insts = nil
	e.mu.Unlock()
	for _, li := range insts {
		li.Abandon()
	}
	os.RemoveAll(e.Dir)
}

func (e *LogEnv) info() any {
	if e.CaseInfo != nil {
		return e.CaseInfo()
	}
	return nil
}

func (e *LogEnv) violate(id, format string, a ...any) {
	if id == "load-of-base-failed" && strings.Contains(fmt.Sprintf(format, a...), errCrashed.Error()) {
		// the harness's own watchdog gave up on loading an untouched base state
		// (it has already recorded that as inconclusive): not a verdict
		e.R.Count("base_load_abandoned_by_watchdog", 1)
		return
	}
	e.R.Violate(id, e.info(), format, a...)
}

func (e *LogEnv) config(in *Inst) *ctlog.Config {
	return &ctlog.Config{
		Name: e.Name, Key: e.Key, WitnessKey: e.WKey, PoolSize: e.PoolSize, Cache: e.Cache,
		Backend: &ObjBackend{In: in}, Lock: &LockBackend{In: in}, Log: discardLogger,
		NotAfterStart: e.NotAfterStart, NotAfterLimit: e.NotAfterLimit,
	}
}

func (e *LogEnv) Create(plan func(*Call) Decision) error {
	in := NewInst(e.W, "create")
	in.Plan = plan
	return ctlog.CreateLog(context.Background(), e.config(in))
}

type LogInst struct {
	Env   *LogEnv
	In    *Inst
	Log   *ctlog.Log
	Cfg   *ctlog.Config
	Round int

	mu        sync.Mutex
	pool      []*Sub // admitted into the current pool, in order
	roundPool []*Sub // pool of the round being sequenced
	roundTime int64
	running   sync.WaitGroup
	closed    bool
}

// Load starts an instance with LoadLog. On error the instance is unwound.
func (e *LogEnv) Load(name string, plan func(*Call) Decision) (*LogInst, error) {
	in := NewInst(e.W, name)
	return e.loadInst(in, plan, nil)
}

// LoadCache is Load with a private deduplication cache file (a second machine).
func (e *LogEnv) LoadCache(name string, plan func(*Call) Decision, cache string) (*LogInst, error) {
	in := NewInst(e.W, name)
	in.cache = cache
	return e.loadInst(in, plan, nil)
}

func (e *LogEnv) loadInst(in *Inst, plan func(*Call) Decision, want func() int) (*LogInst, error) {
	in.Plan = plan
	li := &LogInst{Env: e, In: in, Cfg: e.config(in)}
	if in.cache != "" {
		li.Cfg.Cache = in.cache
	}
	e.mu.Lock()
	e.byInst[in] = li
	e.insts = append(e.insts, li)
	e.mu.Unlock()
	type res struct {
		l   *ctlog.Log
		err error
	}
	ch := make(chan res, 1)
	done := make(chan struct{})
	li.running.Add(1)
	go func() {
		defer li.running.Done()
		defer close(done)
		l, err := ctlog.LoadLog(context.Background(), li.Cfg)
		ch <- res{l, err}
	}()
	for {
		select {
		case r := <-ch:
			if r.err != nil {
				return nil, r.err
			}
			li.Log = r.l
			return li, nil
		case <-in.parkedCh:
			n := 1
			if want != nil {
				n = want()
			}
			if in.Parked() >= n {
				return li, errCrashed
			}
		case <-done:
			select {
			case r := <-ch:
				if r.err != nil {
					return nil, r.err
				}
				li.Log = r.l
				return li, nil
			default:
			}
			return li, errCrashed
		case <-time.After(240 * time.Second):
			e.R.Inconcl("load watchdog fired")
			return li, errCrashed
		}
	}
}

var errCrashed = fmt.Errorf("verif: instance crashed (parked)")

func (li *LogInst) Submit(pe *ctlog.PendingLogEntry, low bool) *Sub {
	e := li.Env
	e.mu.Lock()
	e.nextSub++
	s := &Sub{ID: e.nextSub, E: pe, Low: low, Inst: li}
	e.mu.Unlock()
	li.mu.Lock()
	defer li.mu.Unlock()
	s.Round = li.Round
	s.Wait, s.Source = li.Log.VerifAddLeafToPool(context.Background(), pe, low)
	if s.Source == "sequencer" {
		li.pool = append(li.pool, s)
	}
	return s
}

// SubmitConcurrent is Submit for workloads with racing submitters: the pool
// order is not tracked (the environment must be in NoTruth mode).
func (li *LogInst) SubmitConcurrent(pe *ctlog.PendingLogEntry, low bool) *Sub {
	e := li.Env
	e.mu.Lock()
	e.nextSub++
	s := &Sub{ID: e.nextSub, E: pe, Low: low, Inst: li}
	e.mu.Unlock()
	li.mu.Lock()
	s.Round = li.Round
	li.mu.Unlock()
	s.Wait, s.Source = li.Log.VerifAddLeafToPool(context.Background(), pe, low)
	return s
}

// AuditStored audits the store at the given tree head against its own leaves.
func (e *LogEnv) AuditStored(sth *RefSTH) []AuditProblem {
	e.W.mu.Lock()
	defer e.W.mu.Unlock()
	e.mu.Lock()
	defer e.mu.Unlock()
	return e.auditStoredLocked(e.W, sth.Size, sth.Timestamp, 0, sth.Root)
}

// WaitAck calls the submission's wait function and records the outcome.
func (li *LogInst) WaitAck(ctx context.Context, s *Sub) *Ack {
	var le *sunlight.LogEntry
	var err error
	func() {
		defer func() {
			if p := recover(); p != nil {
				err = fmt.Errorf("wait function panicked: %v", p)
				li.Env.violate("wait-function-panicked", "the wait function of submission %d (source %s) panicked instead of returning an outcome: %v", s.ID, s.Source, p)
			}
		}()
		le, err = s.Wait(ctx)
	}()
	a := &Ack{Sub: s, Err: err}
	e := li.Env
	e.W.mu.Lock()
	a.Seq = e.W.seq
	a.Zombie = li.In.dead
	e.W.mu.Unlock()
	if err == nil && le != nil {
		a.OK, a.Index, a.Timestamp = true, le.LeafIndex, le.Timestamp
	}
	e.mu.Lock()
	e.Acks = append(e.Acks, a)
	e.mu.Unlock()
	return a
}

// Sequence runs one sequencing round. It returns (err, crashed): crashed is
// true when the plan parked the instance; wantParked is how many calls must be
// parked before the crash state is considered reached (1, or the size of the
// parallel tile batch).
func (li *LogInst) Sequence(wantParkedF func() int) (error, bool) {
	wantParked := 1
	li.BeginRound()
	ch := make(chan error, 1)
	done := make(chan struct{})
	li.running.Add(1)
	go func() {
		defer li.running.Done()
		defer close(done)
		ch <- li.Log.VerifSequence(context.Background())
	}()
	for {
		select {
		case err := <-ch:
			return err, false
		case <-done:
			select {
			case err := <-ch:
				return err, false
			default:
			}
			return errCrashed, true
		case <-li.In.parkedCh:
			if wantParkedF != nil {
				wantParked = wantParkedF()
			}
			if li.In.Parked() >= wantParked {
				// Give stragglers of a parallel batch no chance to matter: they
				// park too (the instance is dead).
				return errCrashed, true
			}
		case <-time.After(240 * time.Second):
			li.Env.R.Inconcl("round watchdog fired (parked=%d want=%d)", li.In.Parked(), wantParked)
			return errCrashed, true
		}
	}
}

// BeginRound does the harness-side bookkeeping of a round about to start: the
// pool admitted so far is the round's pool.
func (li *LogInst) BeginRound() {
	li.mu.Lock()
	li.roundPool = li.pool
	li.pool = nil
	li.Round++
	li.roundTime = simNow.Load()
	li.mu.Unlock()
}

// Abandon kills the instance (if still alive), unwinds its goroutines and
// closes its cache connections.
func (li *LogInst) Abandon() {
	li.mu.Lock()
	if li.closed {
		li.mu.Unlock()
		return
	}
	li.closed = true
	li.mu.Unlock()
	li.In.Release()
	li.running.Wait()
	if li.Log != nil {
		li.Log.CloseCache()
	}
}

// ---- entry helpers ---------------------------------------------------------

func pendingToRef(pe *ctlog.PendingLogEntry, idx, ts int64) *RefEntry {
	r := &RefEntry{Timestamp: ts, IsPrecert: pe.IsPrecert, Cert: pe.Certificate, LeafIndex: idx}
	if pe.IsPrecert {
		r.IssuerKeyHash = pe.IssuerKeyHash
		r.PreCert = pe.PreCertificate
	}
	for _, i := range pe.Issuers {
		r.Fingerprints = append(r.Fingerprints, sha256.Sum256(i))
	}
	return r
}

func logEntryToRef(le *sunlight.LogEntry) *RefEntry {
	r := &RefEntry{Timestamp: le.Timestamp, IsPrecert: le.IsPrecert, Cert: le.Certificate, LeafIndex: le.LeafIndex, Archival: le.RFC6962ArchivalLeaf}
	if le.IsPrecert {
		r.IssuerKeyHash = le.IssuerKeyHash
		r.PreCert = le.PreCertificate
	}
	r.Fingerprints = append(r.Fingerprints, le.ChainFingerprints...)
	return r
}

// identity is the deduplication identity stated by the property: entry type,
// issuer key hash (precerts) and certificate/TBS.
func identity(pe *ctlog.PendingLogEntry) string {
	h := sha256.New()
	if pe.IsPrecert {
		h.Write([]byte{1})
		h.Write(pe.IssuerKeyHash[:])
	} else {
		h.Write([]byte{0})
	}
	h.Write(pe.Certificate)
	return string(h.Sum(nil))
}

// ---- monitors --------------------------------------------------------------

func (e *LogEnv) monitor(w *World, c *Call) {
	// called under w.mu
	if c.NS != e.NS && (c.Kind == OpUpload || c.Kind == OpDiscard) {
		e.onForeignBucket(w, c)
		return
	}
	switch c.Kind {
	case OpLockReplace, OpLockCreate:
		if c.Applied && c.LogID == e.LogID {
			e.onLockCommit(w, c)
		}
	case OpUpload:
		if c.Applied {
			e.onUpload(w, c)
		}
	case OpDiscard:
		e.onDiscard(w, c)
	}
}

// onForeignBucket judges object writes of an instance that is attached to a
// second bucket (same key, same lock store): whatever it publishes there must
// have been committed to the shared lock store first, and it may discard only
// staging bundles.
func (e *LogEnv) onForeignBucket(w *World, c *Call) {
	e.mu.Lock()
	defer e.mu.Unlock()
	if c.Kind == OpDiscard {
		if !strings.HasPrefix(c.Key, "staging/") {
			e.violate("discard-non-staging:"+keyClass(c.Key), "Discard issued for %q (second bucket), which is not a staging bundle", c.Key)
		}
		return
	}
	if !c.Applied || c.Key != "checkpoint" {
		return
	}
	e.R.Count("second_bucket_publications", 1)
	sth, err := refVerifyRFC6962Checkpoint(c.Data, e.Name, e.Key.Public())
	if err != nil {
		e.violate("published-unverifiable", "checkpoint published to the second bucket does not verify: %v", err)
		return
	}
	if cs, ok := e.committed[string(c.Data)]; !ok || cs >= c.Seq {
		e.violate("published-before-lock-commit", "checkpoint of size %d became readable in the second bucket without having been committed to the lock store first", sth.Size)
	}
}

func (e *LogEnv) onLockCommit(w *World, c *Call) {
	e.mu.Lock()
	defer e.mu.Unlock()
	e.R.Count("lock_commits", 1)
	sth, err := refVerifyRFC6962Checkpoint(c.Data, e.Name, e.Key.Public())
	if err != nil {
		e.violate("lock-commit-unverifiable", "lock store received a value that does not verify as a checkpoint of %s: %v", e.Name, err)
		return
	}
	if n := len(e.LockObs); n > 0 {
		p := e.LockObs[n-1].STH
		if sth.Size < p.Size {
			e.violate("lock-size-shrinks", "lock checkpoint size went from %d to %d", p.Size, sth.Size)
		}
		if sth.Timestamp <= p.Timestamp {
			e.violate("lock-timestamp-not-increasing", "lock checkpoint timestamp went from %d to %d (sizes %d -> %d)", p.Timestamp, sth.Timestamp, p.Size, sth.Size)
		}
	} else if c.Kind == OpLockReplace {
		// first observation in this (forked) env: nothing to compare with
	}
	e.LockObs = append(e.LockObs, CpObs{STH: sth, Raw: c.Data, Seq: c.Seq, By: c.Inst.Name})
	e.committed[string(c.Data)] = c.Seq
	if e.NoTruth || e.broken {
		return
	}
	// Extend the ground truth by the pool of the committing round.
	var pool []*Sub
	var rt int64
	if li := e.byInst[c.Inst]; li != nil && c.Kind == OpLockReplace {
		pool, rt = li.roundPool, li.roundTime
		if sth.Timestamp != rt {
			e.violate("sth-timestamp-not-round-time", "tree head timestamp %d differs from the clock value %d read by the round", sth.Timestamp, rt)
		}
	}
	want := int64(len(e.Truth) + len(pool))
	if sth.Size != want {
		e.violate("commit-size-not-truth-plus-pool", "lock commit of size %d, but committed truth has %d leaves and the round's pool %d", sth.Size, len(e.Truth), len(pool))
		e.broken = true
		return
	}
	for _, s := range pool {
		re := pendingToRef(s.E, int64(len(e.Truth)), sth.Timestamp)
		e.Truth = append(e.Truth, re)
		e.truthLH = append(e.truthLH, refLeafHash(refMerkleTreeLeaf(re)))
	}
	if root := refMTH(e.truthLH); root != sth.Root {
		e.violate("commit-root-not-mth-of-truth", "lock commit of size %d has root %x, RFC 6962 MTH of the committed leaves is %x", sth.Size, sth.Root[:6], root[:6])
		e.broken = true
	}
}

func (e *LogEnv) onUpload(w *World, c *Call) {
	e.mu.Lock()
	defer e.mu.Unlock()
	// Immutability of everything but the mutable singletons.
	vs := w.Objs[e.NS+c.Key]
	if len(vs) >= 2 {
		prev := vs[len(vs)-2]
		if !prev.Deleted && (prev.Opts.Immutable || strings.HasPrefix(c.Key, "tile/") || strings.HasPrefix(c.Key, "issuer/") || strings.HasPrefix(c.Key, "staging/")) && prev.By != "tamper" {
			if !bytes.Equal(prev.Data, c.Data) {
				if e.AuditUploads {
					// adversarial storage (C08): what the server writes may derive
					// from a tampered staging bundle or tile; the statement constrains
					// the checkpoints it signs, so this is recorded, not judged
					e.R.Count("info_immutable_rewritten_under_tampering:"+keyClass(c.Key), 1)
				} else {
					e.violate("immutable-rewritten:"+keyClass(c.Key), "immutable object %s rewritten with different bytes (%d -> %d bytes)", c.Key, len(prev.Data), len(c.Data))
				}
			}
		}
	}
	if e.AuditUploads && !e.NoTruth && !e.broken && strings.HasPrefix(c.Key, "tile/") {
		// Informational only: with adversarial storage the property constrains
		// the checkpoints the server signs, not the tiles it derives from what
		// storage handed it (an attacker could overwrite those directly).
		if msg := e.auditOneUpload(c); msg != "" {
			e.R.Count("info_server_uploaded_tile_not_matching_truth:"+keyClass(c.Key), 1)
		}
		e.R.Count("uploads_audited", 1)
	}
	if c.Key != "checkpoint" {
		return
	}
	e.R.Count("checkpoint_publications", 1)
	sth, err := refVerifyRFC6962Checkpoint(c.Data, e.Name, e.Key.Public())
	if err != nil {
		e.violate("published-unverifiable", "published checkpoint does not verify: %v", err)
		return
	}
	cs, ok := e.committed[string(c.Data)]
	if !ok || cs >= c.Seq {
		e.violate("published-before-lock-commit", "checkpoint of size %d became readable without having been committed to the lock store first", sth.Size)
	}
	if n := len(e.PubObs); n > 0 {
		p := e.PubObs[n-1]
		if sth.Size < p.STH.Size {
			e.violate("published-size-shrinks", "published checkpoint size went from %d to %d", p.STH.Size, sth.Size)
		}
		if !bytes.Equal(p.Raw, c.Data) && sth.Timestamp <= p.STH.Timestamp {
			e.violate("published-timestamp-not-increasing", "published checkpoint timestamp went from %d to %d", p.STH.Timestamp, sth.Timestamp)
		}
	}
	e.PubObs = append(e.PubObs, CpObs{STH: sth, Raw: c.Data, Seq: c.Seq, By: c.Inst.Name})
	if e.AuditPub && e.NoTruth {
		e.R.Count("publication_audits_stored", 1)
		for _, p := range e.auditStoredLocked(w, sth.Size, sth.Timestamp, c.IssueSeq, sth.Root) {
			e.violate("publish-audit:"+p.Class, "at publication of checkpoint size %d (audit against the stored leaves): %s", sth.Size, p.Msg)
		}
	}
	if e.AuditPub && !e.NoTruth && !e.broken {
		e.pubAudits++
		e.R.Count("publication_audits", 1)
		e.R.Count("objects_audited", int64(len(refLayout(sth.Size, true))))
		for _, p := range e.auditLocked(w, sth.Size, sth.Timestamp, c.IssueSeq) {
			e.violate("publish-audit:"+p.Class, "at publication of checkpoint size %d: %s", sth.Size, p.Msg)
		}
	}
}

// auditOneUpload compares one uploaded tile with the reference rendering of
// the committed truth. Called with e.mu held.
func (e *LogEnv) auditOneUpload(c *Call) string {
	t, ok := refParseTilePath(c.Key)
	if !ok {
		return "not a canonical tile path"
	}
	span := int64(1)
	if t.L > 0 {
		span = 1 << (8 * uint(t.L))
	}
	end := (t.N*256 + int64(t.W)) * span
	if end > int64(len(e.Truth)) {
		return fmt.Sprintf("covers leaves up to %d but only %d are committed", end, len(e.Truth))
	}
	start := int(t.N) * 256
	switch {
	case t.L >= 0:
		if e.truthMC == nil || len(e.truthMC.lh) != len(e.truthLH) {
			e.truthMC = newMerkleCache(e.truthLH)
		}
		if !bytes.Equal(c.Data, refHashTile(e.truthMC, t)) {
			return "hash tile differs"
		}
	case t.L == -1:
		raw, err := refGunzip(c.Data)
		if err != nil {
			return "gunzip: " + err.Error()
		}
		es, err := refDecodeDataTile(raw, t.W)
		if err != nil {
			return "does not decode as " + fmt.Sprint(t.W) + " entries: " + err.Error()
		}
		// Only the Merkle-covered fields are compared: fingerprints and the
		// pre_certificate are not authenticated by the tree, so a server that
		// carries forward what (adversarial) storage handed it is not at fault.
		for i, got := range es {
			want := e.Truth[start+i]
			if got.Timestamp != want.Timestamp || got.IsPrecert != want.IsPrecert || got.IssuerKeyHash != want.IssuerKeyHash ||
				!bytes.Equal(got.Cert, want.Cert) || got.LeafIndex != want.LeafIndex || got.Archival {
				return fmt.Sprintf("entry %d differs from the committed leaf in a Merkle-covered field", start+i)
			}
		}
	}
	return ""
}

func keyClass(key string) string {
	switch {
	case strings.HasPrefix(key, "tile/data/"):
		return "data"
	case strings.HasPrefix(key, "tile/names/"):
		return "names"
	case strings.HasPrefix(key, "tile/"):
		return "hash"
	case strings.HasPrefix(key, "issuer/"):
		return "issuer"
	case strings.HasPrefix(key, "staging/"):
		return "staging"
	}
	return key
}

func (e *LogEnv) onDiscard(w *World, c *Call) {
	e.R.Count("discards", 1)
	if !strings.HasPrefix(c.Key, "staging/") {
		e.violate("discard-non-staging:"+keyClass(c.Key), "Discard issued for %q, which is not a staging bundle", c.Key)
		return
	}
	// staging/<N>-<hex root>: the published checkpoint must have caught up.
	rest := strings.TrimPrefix(c.Key, "staging/")
	ns, _, _ := strings.Cut(rest, "-")
	n, err := strconv.ParseInt(ns, 10, 64)
	if err != nil {
		return
	}
	var pubSize int64 = -1
	if v := w.cur(e.NS + "checkpoint"); v != nil {
		if sth, err := refVerifyRFC6962Checkpoint(v.Data, e.Name, e.Key.Public()); err == nil {
			pubSize = sth.Size
		}
	}
	if pubSize < n {
		e.violate("staging-discarded-early", "staging bundle %s discarded while the published checkpoint has size %d", c.Key, pubSize)
	}
}

type AuditProblem struct {
	Class string
	Msg   string
}

// Audit checks that the object store is a complete, exact rendering of the
// first size leaves of the ground truth. beforeSeq > 0 restricts the objects
// to versions whose upload had returned before that sequence number.
func (e *LogEnv) Audit(size, maxTimestamp, beforeSeq int64) []AuditProblem {
	e.W.mu.Lock()
	defer e.W.mu.Unlock()
	e.mu.Lock()
	defer e.mu.Unlock()
	return e.auditLocked(e.W, size, maxTimestamp, beforeSeq)
}

func (e *LogEnv) auditLocked(w *World, size, maxTimestamp, beforeSeq int64) []AuditProblem {
	return e.auditWith(w, size, maxTimestamp, beforeSeq, nil, Hash{})
}

// auditStoredLocked audits the store against the leaves decoded from its own
// data tiles (for workloads where the harness cannot track pool order): the
// stored leaves must hash to wantRoot, and every other object must be the exact
// rendering of those leaves.
func (e *LogEnv) auditStoredLocked(w *World, size, maxTimestamp, beforeSeq int64, wantRoot Hash) []AuditProblem {
	var leaves []*RefEntry
	for n := int64(0); n*256 < size; n++ {
		wd := int(min(256, size-n*256))
		key := refTilePath(TileCoord{-1, n, wd})
		v := w.cur(e.NS + key)
		if v == nil {
			return []AuditProblem{{"missing", key + " missing"}}
		}
		es, err := decodeDataTileCached(v.Data, wd)
		if err != nil {
			return []AuditProblem{{"data-tile", fmt.Sprintf("%s: %v", key, err)}}
		}
		leaves = append(leaves, es...)
	}
	return e.auditWith(w, size, maxTimestamp, beforeSeq, leaves, wantRoot)
}

func (e *LogEnv) auditWith(w *World, size, maxTimestamp, beforeSeq int64, stored []*RefEntry, wantRoot Hash) []AuditProblem {
	var out []AuditProblem
	add := func(class, f string, a ...any) {
		if len(out) < 8 {
			out = append(out, AuditProblem{class, fmt.Sprintf(f, a...)})
		}
	}
	truth, truthLH := e.Truth, e.truthLH
	if stored != nil {
		truth = stored
		truthLH = make([]Hash, len(stored))
		for i, l := range stored {
			truthLH[i] = refLeafHash(refMerkleTreeLeaf(l))
		}
		if got := refMTH(truthLH); got != wantRoot {
			add("root", "the %d stored leaves hash to %x, the checkpoint root is %x", len(stored), got[:6], wantRoot[:6])
		}
	}
	if int64(len(truth)) < size {
		add("truth", "tree size %d exceeds the %d leaves known to be committed", size, len(truth))
		return out
	}
	atomic.AddInt64(&e.auditN, 1)
	get := func(key string) ([]byte, bool) {
		vs := w.Objs[e.NS+key]
		if len(vs) == 0 {
			return nil, false
		}
		v := vs[len(vs)-1]
		if v.Deleted {
			return nil, false
		}
		if beforeSeq > 0 {
			// some version with these bytes must have completed before
			ok := false
			for _, x := range vs {
				if !x.Deleted && x.DoneSeq > 0 && x.DoneSeq < beforeSeq && bytes.Equal(x.Data, v.Data) {
					ok = true
				}
			}
			if !ok {
				return v.Data, false
			}
		}
		return v.Data, true
	}
	mc := newMerkleCache(truthLH[:size])
	for _, t := range refLayout(size, true) {
		key := refTilePath(t)
		b, ok := get(key)
		if !ok {
			if b != nil {
				add("incomplete-upload", "%s: upload had not completed before the checkpoint upload was issued", key)
			} else {
				add("missing", "%s missing", key)
			}
			continue
		}
		start := int(t.N) * 256
		switch {
		case t.L >= 0:
			if want := refHashTile(mc, t); !bytes.Equal(b, want) {
				add("hash-tile", "%s differs from the reference rendering", key)
			}
		case t.L == -1:
			raw, err := refGunzip(b)
			if err != nil {
				add("data-tile", "%s: gunzip: %v", key, err)
				continue
			}
			var want []byte
			for i := 0; i < t.W; i++ {
				want = refTileLeaf(want, truth[start+i])
			}
			if !bytes.Equal(raw, want) {
				add("data-tile", "%s differs from the reference TileLeaf encoding of leaves %d..%d", key, start, start+t.W)
			}
			for i := 0; i < t.W; i++ {
				le := truth[start+i]
				if le.LeafIndex != int64(start+i) {
					add("leaf-index", "leaf %d carries index %d", start+i, le.LeafIndex)
				}
				if maxTimestamp > 0 && le.Timestamp > maxTimestamp {
					add("leaf-timestamp", "leaf %d timestamp %d is after the tree head's %d", start+i, le.Timestamp, maxTimestamp)
				}
				for _, fp := range le.Fingerprints {
					ib, ok := get(fmt.Sprintf("issuer/%x", fp))
					if !ok {
						add("issuer", "issuer %x of leaf %d missing", fp[:6], start+i)
					} else if sha256.Sum256(ib) != fp {
						add("issuer", "issuer object %x has other content", fp[:6])
					}
				}
			}
		case t.L == -2:
			raw, err := refGunzip(b)
			if err != nil {
				add("names-tile", "%s: gunzip: %v", key, err)
				continue
			}
			if msg := checkNamesTile(raw, truth[start:start+t.W]); msg != "" {
				add("names-tile", "%s: %s", key, msg)
			}
		}
	}
	return out
}

// checkNamesTile compares a names tile with what names-tiles.md prescribes.
// Entries whose certificate the standard library cannot parse and that do not
// even start like a DER SEQUENCE must contribute no line; entries that the
// standard library cannot parse but that might be acceptable to a lenient
// parser may or may not contribute one.
func checkNamesTile(raw []byte, entries []*RefEntry) string {
	lines := strings.Split(string(raw), "\n")
	if len(lines) == 0 || lines[len(lines)-1] != "" {
		if len(raw) != 0 {
			return "does not end in a newline"
		}
	}
	if len(raw) != 0 {
		lines = lines[:len(lines)-1]
	} else {
		lines = nil
	}
	li := 0
	for i, e := range entries {
		der := e.Cert
		if e.IsPrecert {
			der = e.PreCert
		}
		cert, err := x509.ParseCertificate(der)
		if err != nil {
			if len(der) == 0 || der[0] != 0x30 {
				continue // certainly no line
			}
			// optional line: consume it if it looks like this entry's
			if li < len(lines) {
				var m map[string]any
				if json.Unmarshal([]byte(lines[li]), &m) == nil {
					if ts, _ := m["Timestamp"].(float64); int64(ts) == e.Timestamp {
						li++
					}
				}
			}
			continue
		}
		if li >= len(lines) {
			return fmt.Sprintf("entry %d has no line", i)
		}
		want := map[string]any{"Timestamp": float64(e.Timestamp)}
		subj := map[string]any{}
		putList := func(k string, v []string) {
			if len(v) > 0 {
				l := make([]any, len(v))
				for i := range v {
					l[i] = v[i]
				}
				subj[k] = l
			}
		}
		putList("Country", cert.Subject.Country)
		putList("Organization", cert.Subject.Organization)
		putList("OrganizationalUnit", cert.Subject.OrganizationalUnit)
		putList("Locality", cert.Subject.Locality)
		putList("Province", cert.Subject.Province)
		putList("StreetAddress", cert.Subject.StreetAddress)
		putList("PostalCode", cert.Subject.PostalCode)
		if cert.Subject.CommonName != "" {
			subj["CommonName"] = cert.Subject.CommonName
		}
		if len(subj) > 0 {
			want["Subject"] = subj
		}
		if len(cert.DNSNames) > 0 {
			l := make([]any, len(cert.DNSNames))
			for i, d := range cert.DNSNames {
				l[i] = d
			}
			want["DNS"] = l
		}
		if len(cert.IPAddresses) > 0 {
			l := make([]any, len(cert.IPAddresses))
			for i, d := range cert.IPAddresses {
				l[i] = d.String()
			}
			want["IP"] = l
		}
		var got map[string]any
		if err := json.Unmarshal([]byte(lines[li]), &got); err != nil {
			return fmt.Sprintf("line %d is not JSON: %v", li, err)
		}
		wb, _ := json.Marshal(want)
		gb, _ := json.Marshal(got)
		if !bytes.Equal(wb, gb) {
			return fmt.Sprintf("line %d for entry %d is %s, want %s", li, i, gb, wb)
		}
		li++
	}
	if li != len(lines) {
		return fmt.Sprintf("%d unexpected extra lines", len(lines)-li)
	}
	return ""
}

// FinalChecks runs the end-of-history checks of the AppendOnly monitor: the
// data tiles (decoded with the reference decoder) must hash, prefix by prefix,
// to every checkpoint ever observed, and equal the ground truth.
func (e *LogEnv) FinalChecks() {
	lockRaw, ok := e.W.LockGet(e.LogID)
	if !ok {
		return
	}
	sth, err := refVerifyRFC6962Checkpoint(lockRaw, e.Name, e.Key.Public())
	if err != nil {
		e.violate("final-lock-unverifiable", "final lock checkpoint does not verify: %v", err)
		return
	}
	// decode as many leaves as storage has for the lock size
	var leaves []*RefEntry
	size := sth.Size
	for n := int64(0); n*256 < size; n++ {
		w := int(min(256, size-n*256))
		b, ok := e.W.Get(refTilePath(TileCoord{-1, n, w}))
		if !ok {
			break // lock ahead of storage is legal before recovery
		}
		raw, err := refGunzip(b)
		if err != nil {
			e.violate("final-data-tile", "data tile %d: %v", n, err)
			return
		}
		es, err := refDecodeDataTile(raw, w)
		if err != nil {
			e.violate("final-data-tile", "data tile %d: %v", n, err)
			return
		}
		leaves = append(leaves, es...)
	}
	lh := make([]Hash, len(leaves))
	for i, l := range leaves {
		lh[i] = refLeafHash(refMerkleTreeLeaf(l))
	}
	mc := newMerkleCache(lh)
	e.mu.Lock()
	defer e.mu.Unlock()
	check := func(kind string, obs []CpObs) {
		for _, o := range obs {
			if o.STH.Size > int64(len(lh)) {
				continue
			}
			e.R.Count("prefix_checks", 1)
			if got := mc.Root(int(o.STH.Size)); got != o.STH.Root {
				e.violate("prefix-root-mismatch:"+kind, "%s checkpoint of size %d (seq %d) has root %x but the first %d stored leaves hash to %x", kind, o.STH.Size, o.Seq, o.STH.Root[:6], o.STH.Size, got[:6])
			}
		}
	}
	check("lock", e.LockObs)
	check("published", e.PubObs)
	if !e.NoTruth && !e.broken {
		for i := range leaves {
			if i < len(e.Truth) && !leaves[i].Equal(e.Truth[i]) {
				e.violate("stored-leaf-not-truth", "stored leaf %d differs from the entry committed at that index", i)
				break
			}
		}
	}
}

// LockSTH returns the current lock-store tree head.
func (e *LogEnv) LockSTH() *RefSTH {
	raw, ok := e.W.LockGet(e.LogID)
	if !ok {
		return nil
	}
	sth, err := refVerifyRFC6962Checkpoint(raw, e.Name, e.Key.Public())
	if err != nil {
		return nil
	}
	return sth
}

func (e *LogEnv) PubSTH() *RefSTH {
	raw, ok := e.W.Get("checkpoint")
	if !ok {
		return nil
	}
	sth, err := refVerifyRFC6962Checkpoint(raw, e.Name, e.Key.Public())
	if err != nil {
		return nil
	}
	return sth
}

func (e *LogEnv) TruthLen() int {
	e.mu.Lock()
	defer e.mu.Unlock()
	return len(e.Truth)
}

type decodedTile struct {
	pin []byte
	es  []*RefEntry
	err error
}

var tileCache sync.Map // key: (*byte, len, width)

type tileCacheKey struct {
	p *byte
	n int
	w int
}

// decodeDataTileCached gunzips and decodes a stored data tile once per
// distinct stored byte slice (object versions share backing arrays across
// forks; the cache pins the slice so the address cannot be reused).
func decodeDataTileCached(b []byte, w int) ([]*RefEntry, error) {
	if len(b) == 0 {
		return nil, fmt.Errorf("empty tile")
	}
	k := tileCacheKey{&b[0], len(b), w}
	if v, ok := tileCache.Load(k); ok {
		d := v.(*decodedTile)
		return d.es, d.err
	}
	d := &decodedTile{pin: b}
	raw, err := refGunzip(b)
	if err != nil {
		d.err = err
	} else {
		d.es, d.err = refDecodeDataTile(raw, w)
	}
	tileCache.Store(k, d)
	return d.es, d.err
}

type verifiedCp struct {
	pin []byte
	sth *RefSTH
	err error
}

var cpCache sync.Map

func (e *LogEnv) verifyCpCached(b []byte) (*RefSTH, error) {
	if len(b) == 0 {
		return nil, fmt.Errorf("empty checkpoint")
	}
	k := tileCacheKey{&b[0], len(b), 0}
	if v, ok := cpCache.Load(k); ok {
		d := v.(*verifiedCp)
		return d.sth, d.err
	}
	d := &verifiedCp{pin: b}
	d.sth, d.err = refVerifyRFC6962Checkpoint(b, e.Name, e.Key.Public())
	cpCache.Store(k, d)
	return d.sth, d.err
}

// CheckAcks verifies every non-zombie successful acknowledgement against the
// object store as of the acknowledgement instant and against the final truth.
func (e *LogEnv) CheckAcks() {
	e.mu.Lock()
	acks := append([]*Ack(nil), e.Acks...)
	e.mu.Unlock()
	for _, a := range acks {
		if !a.OK || a.Zombie {
			continue
		}
		e.R.Count("acks_checked", 1)
		e.checkAck(a)
		a.StorageChecked = true
	}
}

func (e *LogEnv) checkAck(a *Ack) {
	want := pendingToRef(a.Sub.E, a.Index, a.Timestamp)
	if !a.StorageChecked {
		e.checkAckStorage(a, want)
	}
	// (3) still true in the committed truth
	if !e.NoTruth && !e.broken {
		e.mu.Lock()
		if a.Index >= int64(len(e.Truth)) || !ackMatches(a, e.Truth[a.Index], want) {
			e.mu.Unlock()
			e.violate("ack-not-in-truth", "acknowledged index %d does not hold the submitted entry in the committed tree", a.Index)
			return
		}
		e.mu.Unlock()
	}
}

func (e *LogEnv) checkAckStorage(a *Ack, want *RefEntry) {
	// (1) the checkpoint readable at the ack instant covers the index (in the
	// bucket of the instance that acknowledged)
	ns := ""
	if a.Sub.Inst != nil {
		ns = a.Sub.Inst.In.NS
	}
	raw, ok := e.W.GetAsOf(ns+"checkpoint", a.Seq)
	if !ok {
		e.violate("ack-without-checkpoint", "submission %d acknowledged (index %d) with no checkpoint object readable", a.Sub.ID, a.Index)
		return
	}
	sth, err := e.verifyCpCached(raw)
	if err != nil {
		e.violate("ack-checkpoint-unverifiable", "checkpoint readable at ack time does not verify: %v", err)
		return
	}
	if sth.Size <= a.Index {
		e.violate("ack-before-publication", "submission %d acknowledged with index %d (source %s) while the readable checkpoint has size %d", a.Sub.ID, a.Index, a.Sub.Source, sth.Size)
		return
	}
	if a.Timestamp > sth.Timestamp {
		e.violate("ack-timestamp-after-sth", "acknowledged timestamp %d is after the readable tree head's %d", a.Timestamp, sth.Timestamp)
	}
	// (2) the leaf stored at that instant at that index is the submitted entry
	n := a.Index / 256
	w := int(min(256, sth.Size-n*256))
	found := false
	for _, ww := range []int{w, 256} {
		b, ok := e.W.GetAsOf(ns+refTilePath(TileCoord{-1, n, ww}), a.Seq)
		if !ok {
			continue
		}
		es, err := decodeDataTileCached(b, ww)
		if err != nil {
			continue
		}
		found = true
		got := es[a.Index-n*256]
		if !ackMatches(a, got, want) {
			e.violate("ack-leaf-mismatch", "submission %d acknowledged (index %d, timestamp %d, source %s) but the stored leaf at that index is another entry or timestamp (%d)", a.Sub.ID, a.Index, a.Timestamp, a.Sub.Source, got.Timestamp)
		}
		break
	}
	if !found {
		e.violate("ack-leaf-unreadable", "data tile for acknowledged index %d not readable at ack time", a.Index)
	}
}

// sortedKeys is a small helper for deterministic iteration.
func sortedKeys[M ~map[string]V, V any](m M) []string {
	ks := make([]string, 0, len(m))
	for k := range m {
		ks = append(ks, k)
	}
	sort.Strings(ks)
	return ks
}

// ackMatches: an acknowledgement served by deduplication (pool / cache) returns
// the first submission's leaf, so only the Merkle-covered fields (and the
// identity) are comparable; an acknowledgement from the sequencer must match
// the submitted entry completely.
func ackMatches(a *Ack, got, want *RefEntry) bool {
	if a.Sub.Source == "sequencer" {
		return got.Equal(want)
	}
	return got.Timestamp == want.Timestamp && got.IsPrecert == want.IsPrecert && got.IssuerKeyHash == want.IssuerKeyHash &&
		bytes.Equal(got.Cert, want.Cert) && got.LeafIndex == want.LeafIndex
}

// CheckAcksFinal decodes the data tiles of the final published tree and checks
// that every live acknowledgement names an index holding exactly that entry
// with that timestamp (no truth tracking needed).
func (e *LogEnv) CheckAcksFinal() {
	sth := e.PubSTH()
	if sth == nil {
		return
	}
	tiles := map[int64][]*RefEntry{}
	e.mu.Lock()
	acks := append([]*Ack(nil), e.Acks...)
	e.mu.Unlock()
	for _, a := range acks {
		if !a.OK || a.Zombie {
			continue
		}
		if a.Index >= sth.Size {
			e.violate("ack-lost", "acknowledged index %d is beyond the final published tree (size %d)", a.Index, sth.Size)
			continue
		}
		n := a.Index / 256
		es, ok := tiles[n]
		if !ok {
			w := int(min(256, sth.Size-n*256))
			if b, found := e.W.Get(refTilePath(TileCoord{-1, n, w})); found {
				es, _ = decodeDataTileCached(b, w)
			}
			tiles[n] = es
		}
		if es == nil {
			e.violate("ack-lost", "data tile %d of the final tree unreadable", n)
			continue
		}
		want := pendingToRef(a.Sub.E, a.Index, a.Timestamp)
		if !ackMatches(a, es[a.Index-n*256], want) {
			e.violate("ack-lost", "acknowledged submission %d (index %d, source %s) is not the entry stored at that index in the final tree", a.Sub.ID, a.Index, a.Sub.Source)
		}
		e.R.Count("acks_checked_final", 1)
	}
}
