//go:build !race

package verifharness

const raceEnabled = false
