package verifharness

// Witness / mirror environment shared by C14, C15, C16 (and the directory
// generators of C18-C20): a real witness.Witness on the harness stores, logs
// with forks whose ground truth the harness holds, request builders and the
// lock-history monitor.

import (
	"bytes"
	"context"
	"crypto/ed25519"
	"crypto/sha256"
	"fmt"
	"net/http"
	"net/http/httptest"
	"os"
	"path/filepath"
	"strings"
	"sync"

	"filippo.io/mldsa"
	"filippo.io/sunlight/internal/ctlog"
	"filippo.io/sunlight/internal/witness"
	"filippo.io/torchwood"
	"golang.org/x/mod/sumdb/note"
	"golang.org/x/mod/sumdb/tlog"
)

type witChain struct {
	entries [][]byte
	lh      []Hash
	stored  []tlog.Hash // tlog stored-hash sequence, for proof generation only
	forkAt  int         // shares entries[:forkAt] with the main chain (main: len)
}

func (c *witChain) hashReader() tlog.HashReader {
	return tlog.HashReaderFunc(func(idx []int64) ([]tlog.Hash, error) {
		out := make([]tlog.Hash, len(idx))
		for i, x := range idx {
			if x < 0 || int(x) >= len(c.stored) {
				return nil, fmt.Errorf("index %d out of range", x)
			}
			out[i] = c.stored[x]
		}
		return out, nil
	})
}

func (c *witChain) root(n int) Hash { return refMTH(c.lh[:n]) }

func (c *witChain) grow(entries ...[]byte) {
	for _, e := range entries {
		hs, err := tlog.StoredHashes(int64(len(c.entries)), e, c.hashReader())
		if err != nil {
			panic(err)
		}
		c.stored = append(c.stored, hs...)
		c.entries = append(c.entries, e)
		c.lh = append(c.lh, refLeafHash(e))
	}
}

type WitLog struct {
	Origin string
	signer note.Signer
	VKey   string
	Chains []*witChain // 0 = main
	// commits observed in the lock store under this log's witness key
	Commits []witCommit
	mirror  []witCommit
}

type witCommit struct {
	Size int64
	Root Hash
	Raw  []byte
	Seq  int64
}

func newWitLog(rng *Rng, origin string, mainLen int, forks []int, forkLen int) *WitLog {
	skey, vkey, err := note.GenerateKey(rng, origin)
	if err != nil {
		panic(err)
	}
	signer, err := note.NewSigner(skey)
	if err != nil {
		panic(err)
	}
	l := &WitLog{Origin: origin, signer: signer, VKey: vkey}
	main := &witChain{}
	for i := 0; i < mainLen; i++ {
		main.grow([]byte(fmt.Sprintf("entry %d of %s main", i, origin)))
	}
	main.forkAt = mainLen
	l.Chains = append(l.Chains, main)
	for fi, at := range forks {
		f := &witChain{forkAt: at}
		f.grow(main.entries[:at]...)
		for i := 0; i < forkLen; i++ {
			f.grow([]byte(fmt.Sprintf("entry %d of %s fork %d", at+i, origin, fi+1)))
		}
		l.Chains = append(l.Chains, f)
	}
	return l
}

func (l *WitLog) checkpointText(chain int, size int) string {
	return refFormatCheckpoint(l.Origin, int64(size), l.Chains[chain].root(size))
}

func (l *WitLog) signed(text string) []byte {
	n, err := note.Sign(&note.Note{Text: text}, l.signer)
	if err != nil {
		panic(err)
	}
	return n
}

// consistencyProof lines from old to new on the given chain.
func (l *WitLog) consistencyProof(chain, oldSize, newSize int) []Hash {
	if oldSize == 0 || oldSize > newSize {
		return nil
	}
	p, err := tlog.ProveTree(int64(newSize), int64(oldSize), l.Chains[chain].hashReader())
	if err != nil {
		return nil
	}
	out := make([]Hash, len(p))
	for i, h := range p {
		out[i] = Hash(h)
	}
	return out
}

func addCheckpointBody(old int64, proof []Hash, noteBytes []byte) []byte {
	var b strings.Builder
	fmt.Fprintf(&b, "old %d\n", old)
	for _, h := range proof {
		b.WriteString(tlog.Hash(h).String() + "\n")
	}
	b.WriteString("\n")
	b.Write(noteBytes)
	return []byte(b.String())
}

type WitEnv struct {
	R          *Run
	W          *World
	In         *Inst
	Name       string
	MirrorName string
	Ed         ed25519.PrivateKey
	ML         *mldsa.PrivateKey
	MK         *mldsa.PrivateKey
	Cfg        *witness.Config
	Wit        *witness.Witness
	V1, V2, VM *torchwood.CosignatureVerifier
	Logs       map[string]*WitLog
	Dir        string
	mu         sync.Mutex
	CaseInfo   func() any
	byKey      map[[32]byte]*WitLog
	byMirror   map[[32]byte]*WitLog
	// BackendOverride replaces the in-memory object store (e.g. a LocalBackend).
	BackendOverride ctlog.Backend
	// OnMirrorCommit is called (under the world mutex) when a write under a
	// mirror-checkpoint key is applied.
	OnMirrorCommit func(l *WitLog, c *Call)
}

func witnessLockKey(ed ed25519.PrivateKey, domain, origin string) [32]byte {
	h := sha256.New()
	h.Write([]byte{5, 0}) // ASN.1 NULL
	h.Write([]byte(domain))
	h.Write(ed.Public().(ed25519.PublicKey))
	h.Write([]byte(origin))
	return [32]byte(h.Sum(nil))
}

func NewWitEnv(r *Run, rng *Rng, mirror bool) *WitEnv {
	e := &WitEnv{R: r, W: NewWorld(), Name: "verif.example/witness", Logs: map[string]*WitLog{}, byKey: map[[32]byte]*WitLog{}, byMirror: map[[32]byte]*WitLog{}}
	e.Ed = ed25519.NewKeyFromSeed(rng.Bytes(32))
	e.ML = detMLDSA(rng)
	e.Dir, _ = os.MkdirTemp(scratchRoot(), "wit-")
	if mirror {
		e.MirrorName = "verif.example/mirror"
		e.MK = detMLDSA(rng)
	}
	e.In = NewInst(e.W, "witness")
	e.W.Monitors = append(e.W.Monitors, e.monitor)
	return e
}

func (e *WitEnv) Cleanup() { os.RemoveAll(e.Dir) }

func (e *WitEnv) violate(id, f string, a ...any) {
	var info any
	if e.CaseInfo != nil {
		info = e.CaseInfo()
	}
	e.R.Violate(id, info, f, a...)
}

// Start (or restart) the witness process on the same stores.
func (e *WitEnv) Start() error {
	e.In = NewInst(e.W, "witness")
	e.Cfg = &witness.Config{Name: e.Name, KeyEd25519: e.Ed, KeyMLDSA44: e.ML, MirrorName: e.MirrorName, KeyMirror: e.MK,
		Backend: &ObjBackend{In: e.In}, Lock: &LockBackend{In: e.In}, Log: discardLogger}
	if e.BackendOverride != nil {
		e.Cfg.Backend = e.BackendOverride
	}
	w, err := witness.NewWitness(context.Background(), e.Cfg)
	if err != nil {
		return err
	}
	e.Wit = w
	var err1, err2, err3 error
	e.V1, err1 = torchwood.NewCosignatureVerifierFromKey(e.Name, e.Ed.Public())
	e.V2, err2 = torchwood.NewCosignatureVerifierFromKey(e.Name, e.ML.PublicKey())
	if e.MK != nil {
		e.VM, err3 = torchwood.NewCosignatureVerifierFromKey(e.MirrorName, e.MK.PublicKey())
	}
	for _, err := range []error{err1, err2, err3} {
		if err != nil {
			return err
		}
	}
	return nil
}

// StartOverlapping starts a further witness process on the same stores WITHOUT
// retiring the current one (an overlapping restart / a second machine): the
// returned witness has its own instance and knows the same logs.
func (e *WitEnv) StartOverlapping(name string, mirror bool) (*witness.Witness, *Inst, error) {
	in := NewInst(e.W, name)
	cfg := &witness.Config{Name: e.Name, KeyEd25519: e.Ed, KeyMLDSA44: e.ML, MirrorName: e.MirrorName, KeyMirror: e.MK,
		Backend: &ObjBackend{In: in}, Lock: &LockBackend{In: in}, Log: discardLogger}
	w, err := witness.NewWitness(context.Background(), cfg)
	if err != nil {
		return nil, nil, err
	}
	var b strings.Builder
	b.WriteString("# generated by the verification harness\nlogs/v0\n\n")
	for _, l := range e.Logs {
		fmt.Fprintf(&b, "vkey %s\n", l.VKey)
	}
	p := filepath.Join(e.Dir, fmt.Sprintf("list-%s.txt", name))
	os.WriteFile(p, []byte(b.String()), 0o644)
	if err := w.PullLogList(context.Background(), p, mirror); err != nil {
		return nil, nil, err
	}
	return w, in, nil
}

// PostTo is Post against a given witness instance.
func PostTo(w *witness.Witness, path string, body []byte) *httptest.ResponseRecorder {
	req := httptest.NewRequest("POST", path, bytes.NewReader(body))
	rec := httptest.NewRecorder()
	w.Handler().ServeHTTP(rec, req)
	return rec
}

// AddLogs installs logs through the real PullLogList from a generated list file.
func (e *WitEnv) AddLogs(mirror bool, logs ...*WitLog) error {
	var b strings.Builder
	b.WriteString("# generated by the verification harness\nlogs/v0\n\n")
	for _, l := range logs {
		fmt.Fprintf(&b, "vkey %s\n", l.VKey)
	}
	p := filepath.Join(e.Dir, fmt.Sprintf("list-%d.txt", len(e.Logs)))
	os.WriteFile(p, []byte(b.String()), 0o644)
	if err := e.Wit.PullLogList(context.Background(), p, mirror); err != nil {
		return err
	}
	for _, l := range logs {
		e.Logs[l.Origin] = l
		e.byKey[witnessLockKey(e.Ed, "witness log\n", l.Origin)] = l
		e.byMirror[witnessLockKey(e.Ed, "mirror log\n", l.Origin)] = l
	}
	return nil
}

func (e *WitEnv) Post(path string, body []byte, hdr map[string]string) *httptest.ResponseRecorder {
	req := httptest.NewRequest("POST", path, bytes.NewReader(body))
	for k, v := range hdr {
		req.Header.Set(k, v)
	}
	rec := httptest.NewRecorder()
	e.Wit.Handler().ServeHTTP(rec, req)
	return rec
}

// chainsMatching returns the chains of l whose tree of the given size has root.
func (l *WitLog) chainsMatching(size int64, root Hash) []int {
	var out []int
	for ci, c := range l.Chains {
		if int(size) <= len(c.lh) && c.root(int(size)) == root {
			out = append(out, ci)
		}
	}
	return out
}

// monitor: every applied write under a witness-checkpoint key must be a
// cosigned checkpoint of the right origin, with non-decreasing size, and all
// commits of one origin must lie on one chain of the ground truth.
func (e *WitEnv) monitor(w *World, c *Call) {
	if c.Kind == OpUpload && c.Applied && strings.HasSuffix(c.Key, "/checkpoint") {
		// a cosigned checkpoint becoming publicly readable must already be
		// recorded in the lock store
		for _, l := range e.Logs {
			oh := fmt.Sprintf("%x", sha256.Sum256([]byte(l.Origin)))
			var commits []witCommit
			switch c.Key {
			case oh + "/checkpoint":
				commits = l.Commits
			case "mirror/" + oh + "/checkpoint":
				commits = l.mirror
			default:
				continue
			}
			found := false
			for _, cm := range commits {
				if bytes.Equal(cm.Raw, c.Data) {
					found = true
				}
			}
			if !found {
				e.violate("cosigned-checkpoint-published-before-record", "%s was uploaded with a cosigned checkpoint that is not (yet) recorded in the lock store", c.Key)
			}
			e.R.Count("public_checkpoint_uploads_checked", 1)
		}
		return
	}
	if c.Kind != OpLockReplace || !c.Applied {
		return
	}
	if l := e.byMirror[c.LogID]; l != nil {
		l.mirror = append(l.mirror, witCommit{Raw: c.Data, Seq: c.Seq})
		if e.OnMirrorCommit != nil {
			e.OnMirrorCommit(l, c)
		}
		return
	}
	l := e.byKey[c.LogID]
	if l == nil {
		return
	}
	e.R.Count("witness_lock_commits", 1)
	n, err := refParseNote(c.Data)
	if err != nil {
		e.violate("witness-recorded-garbage", "witness recorded a value that is not a signed note: %v", err)
		return
	}
	cp, err := refParseCheckpointText(n.Text)
	if err != nil || cp.Origin != l.Origin || cp.Ext != "" {
		e.violate("witness-recorded-garbage", "witness recorded a checkpoint that does not parse / has another origin / has extension lines")
		return
	}
	// it must carry the log's signature and verify under it
	if _, err := note.Open(c.Data, note.VerifierList(mustVerifier(l.VKey))); err != nil {
		e.violate("witness-recorded-unsigned-checkpoint", "witness recorded a checkpoint not signed by the log key: %v", err)
	}
	if k := len(l.Commits); k > 0 {
		p := l.Commits[k-1]
		if cp.Size < p.Size {
			e.violate("witness-size-decreased", "witness recorded size %d after %d for %s", cp.Size, p.Size, l.Origin)
		}
	}
	l.Commits = append(l.Commits, witCommit{Size: cp.Size, Root: cp.Root, Raw: c.Data, Seq: c.Seq})
	// one chain: there must be a ground-truth chain containing every commit
	ok := false
	for ci := range l.Chains {
		all := true
		for _, cm := range l.Commits {
			found := false
			for _, m := range l.chainsMatching(cm.Size, cm.Root) {
				if m == ci {
					found = true
				}
			}
			if !found {
				all = false
				break
			}
		}
		if all {
			ok = true
			break
		}
	}
	if !ok {
		e.violate("witness-cosigned-two-histories", "the checkpoints recorded for %s do not lie on one append-only chain (latest: size %d)", l.Origin, cp.Size)
	}
}

var verifierCache sync.Map

func mustVerifier(vkey string) note.Verifier {
	if v, ok := verifierCache.Load(vkey); ok {
		return v.(note.Verifier)
	}
	v, err := note.NewVerifier(vkey)
	if err != nil {
		panic(err)
	}
	verifierCache.Store(vkey, v)
	return v
}

// recorded returns the (size, root) the lock store holds for the log.
func (e *WitEnv) recorded(l *WitLog) (int64, Hash, []byte) {
	raw, ok := e.W.LockGet(witnessLockKey(e.Ed, "witness log\n", l.Origin))
	if !ok || len(raw) == 0 {
		return 0, sha256.Sum256(nil), raw
	}
	n, err := refParseNote(raw)
	if err != nil {
		return -1, Hash{}, raw
	}
	cp, err := refParseCheckpointText(n.Text)
	if err != nil {
		return -1, Hash{}, raw
	}
	return cp.Size, cp.Root, raw
}

// checkCosigResponse verifies that a 200 body consists only of cosignature
// lines by the expected verifiers over the re-encoded (origin, size, root).
func checkCosigBody(body []byte, origin string, size int64, root Hash, vs ...*torchwood.CosignatureVerifier) string {
	if len(body) == 0 {
		return "empty body"
	}
	lines := strings.SplitAfter(string(body), "\n")
	if lines[len(lines)-1] == "" {
		lines = lines[:len(lines)-1]
	}
	text := refFormatCheckpoint(origin, size, root)
	seen := map[string]bool{}
	for _, line := range lines {
		ok := false
		for _, v := range vs {
			if v == nil {
				continue
			}
			if _, err := note.Open([]byte(text+"\n"+line), note.VerifierList(v)); err == nil {
				ok = true
				seen[v.Name()+fmt.Sprint(v.KeyHash())] = true
			}
		}
		if !ok {
			return fmt.Sprintf("line %q is not a cosignature by an expected key over the re-encoded checkpoint", truncateStr(line, 60))
		}
	}
	if len(seen) != len(lines) {
		return "duplicate cosignature lines"
	}
	return ""
}

var _ = http.StatusOK
