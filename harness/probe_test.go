package verifharness

import (
	"testing"

	_ "filippo.io/sunlight/internal/ctlog"
	_ "filippo.io/sunlight/internal/witness"
	_ "github.com/anishathalye/porcupine"
)

func TestProbe(t *testing.T) {}
