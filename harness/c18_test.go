package verifharness

import (
	"context"
	"fmt"
	"os"
	"os/exec"
	"path/filepath"
	"regexp"
	"strconv"
	"strings"
	"sync"
	"testing"

	"filippo.io/sunlight/internal/ctlog"
)

var rePartial = regexp.MustCompile(`^tile/(data|names|\d+)/((?:x\d{3}/)*\d{3})\.p(?:/(\d+))?$`)

// partialRemovalAllowed decides from the path alone (own parser) whether the
// cleanup tool may remove rel, given the tree size and the files that existed.
func partialRemovalAllowed(rel string, size int64, before map[string]fileInfo) (bool, string) {
	m := rePartial.FindStringSubmatch(filepath.ToSlash(rel))
	if m == nil {
		return false, "not a partial tile path"
	}
	level := 0
	if m[1] != "data" && m[1] != "names" {
		level, _ = strconv.Atoi(m[1])
	}
	var n int64
	for _, part := range strings.Split(m[2], "/") {
		v, _ := strconv.Atoi(strings.TrimPrefix(part, "x"))
		n = n*1000 + int64(v)
	}
	if m[3] != "" {
		w, _ := strconv.Atoi(m[3])
		if w < 1 || w > 255 {
			return false, "width out of range"
		}
	}
	full := strings.TrimSuffix(filepath.ToSlash(rel), "/"+m[3])
	full = strings.TrimSuffix(full, ".p")
	fi, ok := before[filepath.FromSlash(full)]
	if !ok || fi.Dir || fi.Size == 0 {
		return false, "the full tile " + full + " did not exist as a non-empty file"
	}
	span := int64(1)
	for i := 0; i <= level; i++ {
		span *= 256
	}
	if n >= size/span {
		return false, fmt.Sprintf("tile index %d is not left of the right edge (size %d, level %d)", n, size, level)
	}
	return true, ""
}

type c18Case struct {
	Size    int      `json:"size"`
	Hazards []string `json:"hazards"`
	// BigRounds: grow in rounds of up to 3000 entries until close to the size
	// (large logs), then in small rounds so that stale partials remain.
	BigRounds bool `json:"big_rounds,omitempty"`
	// Ahead: "" | "lock" (the process died right after the lock commit: no tile
	// of the next tree on disk) | "lock+tiles" (lock commit and all tiles done,
	// the checkpoint upload did not happen)
	Ahead  string `json:"ahead"`
	AheadN int    `json:"ahead_n"`
	Seed   int64  `json:"seed"`
}

func runAftersun(cfgPath string) (string, int) {
	cmd := exec.Command(verifBin("partial-aftersun"), "-c", cfgPath)
	out, err := cmd.CombinedOutput()
	code := 0
	if err != nil {
		code = 1
		if ee, ok := err.(*exec.ExitError); ok {
			code = ee.ExitCode()
		}
	}
	return string(out), code
}

func TestC18Cleanup(t *testing.T) {
	r := NewRun(t, "C18", "cleanup")
	r.Rule = "real log directories produced by the real sequencer on LocalBackend (sizes around 255-257, 511-513, 767-769 and seeded, grown in rounds of varied size so that stale partials exist at data/names/0/1 levels) with planted hazards {partial without its full tile, empty full tile, partial right of the edge, temp-file leftovers in and next to a partial directory, unrelated file, partial for a tile beyond the tree, a full tile left of the edge emptied or replaced by a directory while its partial survives} and with the lock store ahead of the published checkpoint {process died right after the lock commit; lock commit and all tiles of the next tree written but the checkpoint upload did not happen, the next tree crossing a tile boundary in a fixed part of the cases}; the built cmd/partial-aftersun runs on them; oracle: every removed path is a partial tile (or its emptied directory) whose non-empty full tile existed and lies strictly left of the right edge, nothing else changed, the trees at the published and the lock checkpoint are completely readable from disk, LoadLog succeeds and a further round commits, a second run removes nothing; distinct = (size, hazard set)"
	if _, err := os.Stat(verifBin("partial-aftersun")); err != nil {
		r.Inconcl("partial-aftersun binary not built: %v", err)
		return
	}
	rng := NewRng(r.Seed, "c18")
	sizes := []int{255, 256, 257, 300, 511, 512, 513, 600, 767, 769}
	hazards := []string{"partial-without-full", "empty-full", "partial-right-of-edge", "tmp-in-partial", "tmp-next-to-partial", "unrelated-file", "partial-beyond-tree", "emptied-full-left-of-edge", "full-is-directory-left-of-edge", "missing-full-left-of-edge"}
	n := pick(24, 300)
	for i := 0; i < n; i++ {
		crng := rng.Fork(fmt.Sprint(i))
		cc := &c18Case{Size: pickOne(crng, sizes) + crng.Intn(3)*crng.Intn(40), Seed: int64(crng.U64() >> 1)}
		switch crng.Intn(6) {
		case 0:
			cc.Ahead = "lock"
		case 1, 2:
			cc.Ahead = "lock+tiles"
		}
		for _, h := range hazards {
			if crng.Intn(5) == 0 && (!strings.HasSuffix(h, "-left-of-edge") || crng.Intn(2) == 0) {
				cc.Hazards = append(cc.Hazards, h)
			}
		}
		// fixed part of every run: the next tree crosses a tile boundary while
		// the published checkpoint still has its partial right edge; a broken
		// full tile left of the edge
		switch i {
		case 0, 1, 2:
			cc.Size, cc.Ahead, cc.Hazards = []int{255, 510, 767}[i], "lock+tiles", nil
		case 3:
			cc.Size, cc.Ahead, cc.Hazards = 600, "", []string{"emptied-full-left-of-edge"}
		case 4:
			cc.Size, cc.Ahead, cc.Hazards = 513, "", []string{"full-is-directory-left-of-edge"}
		case 5:
			cc.Size, cc.Ahead, cc.Hazards = 700, "", []string{"missing-full-left-of-edge"}
		}
		for _, h := range cc.Hazards {
			if strings.HasSuffix(h, "-left-of-edge") {
				cc.Ahead = "" // a damaged directory is judged on removals only
			}
		}
		if cc.Ahead != "" {
			cc.AheadN = 3
			if i < 3 || crng.Bool() {
				cc.AheadN = 256 - cc.Size%256 + 1 + crng.Intn(20) // crosses the next tile boundary
			}
		}
		if !mine(i) {
			continue
		}
		runC18Case(r, cc)
	}
	// the first level-1 full tile / level-2 partial (65 536 leaves); the first
	// two cases also in the quick tier
	{
		for i, cc := range []*c18Case{
			{Size: 65536 + 40, Seed: r.Seed*31 + 1},
			{Size: 65536, Seed: r.Seed*31 + 2},
			{Size: 65530, Seed: r.Seed*31 + 3, Ahead: "lock+tiles", AheadN: 30},
			{Size: 65536 + 300, Seed: r.Seed*31 + 4, Hazards: []string{"tmp-in-partial", "partial-right-of-edge"}},
		} {
			if !mine(n+i) || (!thorough() && i >= 2) {
				continue
			}
			cc.BigRounds = true
			runC18Case(r, cc)
			r.Count("cases_level1_boundary", 1)
		}
	}
	if r.Counter("partials_removed") == 0 {
		r.Inconcl("the tool never removed anything")
	}
}

func runC18Case(r *Run, cc *c18Case) {
	base, _ := os.MkdirTemp(scratchRoot(), "c18-")
	defer func() { unlockTree(base); os.RemoveAll(base) }()
	rng := NewRng(cc.Seed, "c18case")
	dir := filepath.Join(base, "log")
	simAuto.Store(true)
	defer simAuto.Store(false)
	d := newDiskLog(rng, dir, "verif.example/c18")
	defer d.Close()
	if cc.BigRounds {
		for len(d.Truth) < cc.Size-700 {
			if err := d.Grow(rng, min(cc.Size-700-len(d.Truth), 1000+rng.Intn(2000))); err != nil {
				panic(err)
			}
		}
	}
	d.GrowTo(rng, cc.Size)
	viol := func(id, f string, a ...any) { r.Violate(id, cc, f, a...) }
	r.Eval(1)
	r.DistinctKey(fmt.Sprintf("%d/%v/%v/%d", cc.Size, cc.Hazards, cc.Ahead, cc.AheadN))
	preBroken := false
	size := int64(cc.Size)
	// plant hazards
	write := func(rel string, data []byte) {
		p := filepath.Join(dir, filepath.FromSlash(rel))
		os.MkdirAll(filepath.Dir(p), 0o755)
		os.WriteFile(p, data, 0o444)
	}
	for _, h := range cc.Hazards {
		switch h {
		case "partial-without-full":
			write(fmt.Sprintf("tile/0/%03d.p/7", 900+rng.Intn(50)), rng.Bytes(7*32))
			write(fmt.Sprintf("tile/data/%03d.p/3", 900+rng.Intn(50)), refGzip([]byte("x")))
		case "empty-full":
			// a stale partial whose "full tile" is an empty file (a crashed write)
			write("tile/2/000", nil)
			write("tile/2/000.p/5", rng.Bytes(5*32))
		case "partial-right-of-edge":
			n := size/256 + 2
			write(fmt.Sprintf("tile/0/%03d", n), rng.Bytes(256*32))
			write(fmt.Sprintf("tile/0/%03d.p/9", n), rng.Bytes(9*32))
		case "tmp-in-partial":
			write("tile/data/000.p/.5123456789", []byte("leftover"))
		case "tmp-next-to-partial":
			write("tile/names/.000987654321", []byte("leftover"))
		case "unrelated-file":
			write("tile/README", []byte("not a tile"))
			write("notes.txt", []byte("operator notes"))
		case "partial-beyond-tree":
			write("tile/1/x001/234.p/1", rng.Bytes(32))
		case "emptied-full-left-of-edge", "full-is-directory-left-of-edge", "missing-full-left-of-edge":
			// a log that is already damaged: the entry NNN next to NNN.p/ is an
			// empty file (name persisted, data lost) or a directory. The partial
			// may be the only surviving copy; its full tile does not exist.
			if size < 256 {
				continue
			}
			kind := pickOne(rng, []string{"0", "data", "names"})
			full := filepath.Join(dir, "tile", kind, "000")
			exec.Command("chattr", "-i", full).Run()
			if h == "emptied-full-left-of-edge" {
				if err := os.Truncate(full, 0); err != nil {
					panic(err)
				}
			} else if h == "missing-full-left-of-edge" {
				// the full tile is gone altogether; tiles of the same name still
				// exist in the sibling level directories
				if err := os.Remove(full); err != nil {
					panic(err)
				}
			} else {
				os.Remove(full)
				if err := os.Mkdir(full, 0o755); err != nil {
					panic(err)
				}
			}
			if kind == "0" {
				write("tile/0/000.p/77", rng.Bytes(77*32))
			} else {
				write("tile/"+kind+"/000.p/77", refGzip(rng.Bytes(300)))
			}
			preBroken = true
		}
	}
	var aheadPes []*ctlog.PendingLogEntry
	for i := 0; i < cc.AheadN; i++ {
		e := genEntry(rng, cheapShape(rng))
		d.Log.VerifAddLeafToPool(context.Background(), e, false)
		aheadPes = append(aheadPes, e)
	}
	switch cc.Ahead {
	case "lock+tiles":
		d.FailKeys.setFail("checkpoint", true)
		// the failed checkpoint upload is a non-fatal error (reported to the
		// submitters, not to the sequencer loop); the published size is checked below
		d.Log.VerifSequence(context.Background())
		d.FailKeys.setFail("checkpoint", false)
		d.Close()
	case "lock":
		// crash after the CAS: lock store is ahead of storage
		in := d.Cfg.Lock.(*LockBackend).In
		// only the lock backend goes through the harness instance here: its first mutating call is the CAS
		_, want := (&RoundPlan{Crash: &CrashSpec{Phase: "idx", Idx: 0, Applied: true}}).Install(in)
		done := make(chan struct{})
		go func() { defer close(done); d.Log.VerifSequence(context.Background()) }()
		in.WaitParked(want(), 5e9)
		in.Release()
		<-done
		d.Close()
		d.Cfg.Lock = &LockBackend{In: NewInst(d.W, "restarted")}
	}
	pub := d.PublishedSTH()
	if pub == nil || pub.Size != size {
		r.Inconcl("published checkpoint unreadable or of unexpected size: %v want %d ahead=%v", pub, size, cc.Ahead)
		return
	}
	if cc.Ahead != "" {
		r.Count("cases_lock_ahead_"+cc.Ahead, 1)
		if (size+int64(cc.AheadN))/256 > size/256 {
			r.Count("cases_next_tree_crosses_tile_boundary", 1)
		}
	}
	cfgPath := filepath.Join(base, "sunlight.yaml")
	os.WriteFile(cfgPath, []byte(fmt.Sprintf("logs:\n  - shortname: c18\n    localdirectory: %s\n", dir)), 0o644)
	before := snapshotDir(dir)
	out, code := runAftersun(cfgPath)
	after := snapshotDir(dir)
	r.Count(fmt.Sprintf("tool_exit_%d", code), 1)
	removed := 0
	for _, p := range sortedPaths(before) {
		b := before[p]
		a, still := after[p]
		if still {
			if !b.Dir && (a.Sum != b.Sum || a.Mode != b.Mode) {
				viol("cleanup-changed-file", "%s changed (mode %v -> %v)", p, b.Mode, a.Mode)
			}
			if !b.Dir && a.Flags != b.Flags {
				// the tool clears the immutable flag only on files it is about to remove
				viol("cleanup-changed-flags", "inode flags of %s changed from %#x to %#x although the file was kept", p, b.Flags, a.Flags)
			}
			continue
		}
		removed++
		if ok, why := partialRemovalAllowed(p, size, before); !ok {
			viol("cleanup-removed-forbidden-path", "partial-aftersun removed %s: %s (tree size %d); tool output: %s", p, why, size, lastBytes([]byte(out), 200))
		}
	}
	for _, p := range sortedPaths(after) {
		if _, ok := before[p]; !ok {
			viol("cleanup-created-path", "partial-aftersun created %s", p)
		}
	}
	r.Count("partials_removed", int64(removed))
	r.Count("paths_compared", int64(len(before)))
	if preBroken {
		// the directory was damaged before the tool ran: only the removals are judged
		r.Count("cases_damaged_full_tile", 1)
		return
	}
	// the trees are still completely readable
	if msg := auditDiskTree(dir, size, d.Truth); msg != "" {
		viol("tree-unreadable-after-cleanup", "tree at the published checkpoint (size %d) after cleanup: %s", size, msg)
	}
	// restart and keep sequencing (recovers the staged round if the lock was ahead)
	l, err := ctlog.LoadLog(context.Background(), d.Cfg)
	if err != nil {
		viol("restart-failed-after-cleanup", "LoadLog after cleanup failed: %v", err)
		return
	}
	d.Log = l
	if cc.Ahead != "" {
		// the entries of the unpublished round are part of the lock-committed tree
		raw, _ := d.W.LockGet(d.LogID())
		lsth, err := refVerifyRFC6962Checkpoint(raw, d.Name, d.Key.Public())
		if err != nil || lsth.Size != size+int64(cc.AheadN) {
			r.Inconcl("lock checkpoint after the unpublished round: %v %v", lsth, err)
			return
		}
		for i, pe := range aheadPes {
			d.Truth = append(d.Truth, pendingToRef(pe, size+int64(i), lsth.Timestamp))
		}
		if msg := auditDiskTree(dir, lsth.Size, d.Truth); msg != "" {
			viol("lock-tree-unreadable-after-cleanup", "tree at the lock checkpoint (size %d) after cleanup and recovery: %s", lsth.Size, msg)
		}
	}
	if err := d.Grow(rng, 2); err != nil {
		viol("sequencing-stuck-after-cleanup", "round after cleanup failed: %v", err)
		return
	}
	if msg := auditDiskTree(dir, int64(len(d.Truth)), d.Truth); msg != "" {
		viol("tree-unreadable-after-cleanup", "tree after a further round: %s", msg)
	}
	// idempotence on an unchanged directory
	d.Close()
	b2 := snapshotDir(dir)
	runAftersun(cfgPath)
	a2 := snapshotDir(dir)
	for p := range b2 {
		if _, ok := a2[p]; !ok {
			if ok2, why := partialRemovalAllowed(p, int64(len(d.Truth)), b2); !ok2 {
				viol("cleanup-removed-forbidden-path", "second run removed %s: %s", p, why)
			}
		}
	}
}

var reMirrorPartial = regexp.MustCompile(`^tile/(entries|\d+)/((?:x\d{3}/)*\d{3})\.p(?:/(\d+))?$`)

// TestC18Mirror: the same oracle on mirror directories written by the real
// witness on LocalBackend.
func TestC18Mirror(t *testing.T) {
	r := NewRun(t, "C18", "mirror")
	r.Rule = "mirror directories produced by the real witness+mirror on LocalBackend (uploads committed at several mid-tile sizes so that stale partial hash tiles and entry bundles remain), plus planted hazards; the built partial-aftersun runs with the witness directory configured; same removal oracle with the size of the mirror checkpoint; afterwards the mirror tree is completely readable from disk and a client can resume uploading; distinct = (final mirror size, hazards)"
	if _, err := os.Stat(verifBin("partial-aftersun")); err != nil {
		r.Inconcl("partial-aftersun binary not built: %v", err)
		return
	}
	rng := NewRng(r.Seed, "c18m")
	n := pick(8, 120)
	for i := 0; i < n; i++ {
		crng := rng.Fork(fmt.Sprint(i))
		if !mine(i) {
			continue
		}
		runC18Mirror(r, crng, i)
	}
	if r.Counter("partials_removed") == 0 {
		r.Inconcl("the tool never removed anything from a mirror directory")
	}
}

func runC18Mirror(r *Run, rng *Rng, hn int) {
	base, _ := os.MkdirTemp(scratchRoot(), "c18m-")
	defer func() { unlockTree(base); os.RemoveAll(base) }()
	wdir := filepath.Join(base, "witness")
	os.MkdirAll(wdir, 0o755)
	e := NewWitEnv(r, rng.Fork("env"), true)
	defer e.Cleanup()
	lb, err := ctlog.NewLocalBackend(context.Background(), wdir, discardLogger)
	if err != nil {
		panic(err)
	}
	e.BackendOverride = lb
	if err := e.Start(); err != nil {
		panic(err)
	}
	logLen := 1400
	l := newWitLog(rng.Fork("log"), fmt.Sprintf("verif.example/log-c18m-%d", hn), logLen, nil, 0)
	if err := e.AddLogs(true, l); err != nil {
		panic(err)
	}
	cr := &c15Run{r: r, e: e, l: l, rng: rng, tickets: map[int][]byte{}, noStoreAudit: true}
	info := map[string]any{"workload": "mirror-cleanup"}
	e.CaseInfo = func() any { return info }
	// commit at several sizes
	size := 0
	var sizes []int
	for size < 520+rng.Intn(300) {
		size += pickOne(rng, []int{1, 7, 100, 200, 256, 300})
		if size > logLen {
			size = logLen
		}
		cr.addCheckpoint(size)
		_, m := cr.state()
		code, _ := cr.postEntries(cr.entriesBody(m, int64(size), nil, "ok", int64(size)), false, int64(size), "grow")
		if code != 200 {
			cr.wellBehavedClient("grow")
		}
		sizes = append(sizes, size)
	}
	info["sizes"] = sizes
	if _, m0 := cr.state(); (hn%2 == 0) && m0%256 != 0 && int(m0/256+1)*256+42 <= logLen {
		// tiles ahead of the mirror checkpoint: an upload that crosses the next
		// tile boundary writes its tiles, then its commit (lock Replace) fails.
		// The full tile next to the mirror checkpoint's right-edge partial exists.
		target := int(m0/256+1)*256 + 1 + rng.Intn(40)
		cr.addCheckpoint(target)
		var mu sync.Mutex
		armed := true
		e.In.Plan = func(c *Call) Decision {
			mu.Lock()
			defer mu.Unlock()
			if armed && c.Kind == OpLockReplace {
				armed = false
				return Decision{Apply: false, Err: rotatingInjectedErr()}
			}
			return decideOK
		}
		code, _ := cr.postEntries(cr.entriesBody(m0, int64(target), nil, "ok", int64(target)), false, int64(target), "tiles-ahead")
		e.In.Plan = nil
		info["tiles_ahead"] = map[string]any{"mirror": m0, "target": target, "status": code}
		if _, m1 := cr.state(); m1 == m0 && code != 200 {
			r.Count("cases_tiles_ahead_of_mirror_checkpoint", 1)
		} else {
			r.Count(fmt.Sprintf("tiles_ahead_attempt_status_%d", code), 1)
		}
	}
	_, msize := cr.state()
	mdir := filepath.Join(wdir, "mirror", fmt.Sprintf("%x", refSHA([]byte(l.Origin))))
	// hazards
	hz := []string{}
	write := func(rel string, data []byte) {
		p := filepath.Join(mdir, filepath.FromSlash(rel))
		os.MkdirAll(filepath.Dir(p), 0o755)
		os.WriteFile(p, data, 0o444)
	}
	if rng.Bool() {
		write("tile/0/950.p/4", rng.Bytes(128))
		hz = append(hz, "partial-without-full")
	}
	if rng.Bool() {
		write(fmt.Sprintf("tile/entries/%03d", msize/256+3), refGzip([]byte("zz")))
		write(fmt.Sprintf("tile/entries/%03d.p/9", msize/256+3), refGzip([]byte("z")))
		hz = append(hz, "partial-right-of-edge")
	}
	if rng.Bool() {
		write("tile/README", []byte("x"))
		hz = append(hz, "unrelated-file")
	}
	info["hazards"] = hz
	r.Eval(1)
	r.DistinctKey(fmt.Sprintf("%d/%v", msize, hz))
	cfgPath := filepath.Join(base, "sunlight.yaml")
	os.WriteFile(cfgPath, []byte(fmt.Sprintf("witness:\n  localdirectory: %s\n", wdir)), 0o644)
	before := snapshotDir(wdir)
	out, code := runAftersun(cfgPath)
	after := snapshotDir(wdir)
	r.Count(fmt.Sprintf("tool_exit_%d", code), 1)
	mrel, _ := filepath.Rel(wdir, mdir)
	removed := 0
	for _, p := range sortedPaths(before) {
		b := before[p]
		a, still := after[p]
		if still {
			if !b.Dir && (a.Sum != b.Sum || a.Mode != b.Mode || a.Flags != b.Flags) {
				r.Violate("cleanup-changed-file", info, "%s changed", p)
			}
			continue
		}
		removed++
		rel := strings.TrimPrefix(filepath.ToSlash(p), filepath.ToSlash(mrel)+"/")
		if rel == filepath.ToSlash(p) {
			r.Violate("cleanup-removed-forbidden-path", info, "partial-aftersun removed %s, which is outside the mirror tile tree", p)
			continue
		}
		sub := map[string]fileInfo{}
		for k, v := range before {
			sub[strings.TrimPrefix(filepath.ToSlash(k), filepath.ToSlash(mrel)+"/")] = v
		}
		rel2 := strings.Replace(rel, "tile/entries/", "tile/data/", 1)
		sub2 := map[string]fileInfo{}
		for k, v := range sub {
			sub2[filepath.FromSlash(strings.Replace(k, "tile/entries/", "tile/data/", 1))] = v
		}
		if ok, why := partialRemovalAllowed(rel2, msize, sub2); !ok {
			r.Violate("cleanup-removed-forbidden-path", info, "partial-aftersun removed %s: %s (mirror size %d); output: %s", p, why, msize, lastBytes([]byte(out), 200))
		}
	}
	r.Count("partials_removed", int64(removed))
	// the mirror tree is still completely served from disk
	w2 := NewWorld()
	for p, fi := range after {
		if !fi.Dir {
			b, _ := os.ReadFile(filepath.Join(wdir, p))
			w2.Objs[filepath.ToSlash(p)] = []ObjVersion{{Data: b}}
		}
	}
	if msg := auditMirror(w2, l, l.Chains[0], msize, l.Chains[0].root(int(msize))); msg != "" {
		r.Violate("mirror-unreadable-after-cleanup", info, "mirror tree of size %d after cleanup: %s", msize, msg)
	}
	// uploads can resume after a restart
	if err := e.Start(); err != nil {
		r.Violate("witness-restart-failed", info, "NewWitness after cleanup: %v", err)
		return
	}
	if int(msize)+50 <= logLen {
		cr.addCheckpoint(int(msize) + 50)
		cr.wellBehavedClient("after-cleanup")
	}
}
