package verifharness

import (
	"bytes"
	"context"
	"crypto/sha256"
	"fmt"
	"io/fs"
	"os"
	"os/exec"
	"path/filepath"
	"runtime"
	"sort"
	"strings"
	"sync"
	"sync/atomic"
	"syscall"
	"testing"
	"time"
	"unsafe"

	"filippo.io/sunlight/internal/ctlog"
)

func unlockTree(dir string) { exec.Command("chattr", "-R", "-i", dir).Run() }

func inodeFlags(path string) (int32, error) {
	f, err := os.Open(path)
	if err != nil {
		return 0, err
	}
	defer f.Close()
	var flags int32
	_, _, e := syscall.Syscall(syscall.SYS_IOCTL, f.Fd(), 0x80086601 /* FS_IOC_GETFLAGS */, uintptr(unsafe.Pointer(&flags)))
	if e != 0 {
		return 0, e
	}
	return flags, nil
}

// ---- 1. durability over a recorded syscall trace ---------------------------

func TestC13Durability(t *testing.T) {
	r := NewRun(t, "C13", "durability")
	r.Rule = "a helper process performs seeded LocalBackend uploads (new nested directories, existing directories, overwrites of mutable keys, immutable keys, partial-tile directories, empty / 16 KiB / 4 MiB bodies, the concurrent batch shape) under strace -f -y -ttt -T; the recorded trace is checked offline: at every rename the file data is complete and covered by a finished fsync, at every upload return every directory entry from the backend root to the object is covered by an fsync of its parent that started after the entry was made, no final name is written in place; afterwards the real files are compared with the bodies; distinct = (key class, body class, new directories?)"
	r.Assume("crash model: file data durable after fsync(file) that started after the last write; a directory entry durable after fsync of that directory that started after the operation; everything else may be lost or reordered at any instant")
	if _, err := exec.LookPath("strace"); err != nil {
		r.Inconcl("strace not available")
		return
	}
	rng := NewRng(r.Seed, "c13d")
	n := pick(6, 60)
	for i := 0; i < n; i++ {
		seed := int64(rng.U64() >> 1)
		if !mine(i) {
			continue
		}
		runTracedUploads(r, seed, pick(8, 12), false)
	}
	// Concurrent uploads into one brand-new directory, with the exit of mkdirat
	// delayed by the tracer (an injected delay at a real suspension point): the
	// other uploaders find the directory, skip MkdirAll's fsyncs and return.
	for i := 0; i < pick(2, 8); i++ {
		seed := int64(rng.U64() >> 1)
		if !mine(i) {
			continue
		}
		runTracedUploads(r, seed, pick(6, 10), true)
	}
	// Injected system-call errors (the tracer makes the K-th write / fsync /
	// rename / open / chmod of a thread fail): an Upload that still returns
	// success must be complete and durable, and whatever a key holds afterwards
	// must be the complete body of one upload of that key.
	faults := []string{"write:error=ENOSPC", "write:error=EIO", "fsync:error=EIO", "renameat:error=EIO", "renameat:error=ENOSPC", "openat:error=EMFILE", "fchmod:error=EPERM", "close:error=EIO"}
	for i := 0; i < pick(16, 160); i++ {
		seed := int64(rng.U64() >> 1)
		f := fmt.Sprintf("%s:when=%d", faults[i%len(faults)], 1+rng.Intn(pickOne(rng, []int{3, 8, 20})))
		if rng.Intn(3) == 0 {
			f += "+" // every occurrence from the K-th on
		}
		if !mine(i) {
			continue
		}
		runTracedUploadsFault(r, seed, pick(8, 12), false, f)
	}
}

func runTracedUploads(r *Run, seed int64, uploads int, mkdirRace bool) {
	runTracedUploadsFault(r, seed, uploads, mkdirRace, "")
}

func runTracedUploadsFault(r *Run, seed int64, uploads int, mkdirRace bool, fault string) {
	base, _ := os.MkdirTemp(scratchRoot(), "fs-")
	defer func() { unlockTree(base); os.RemoveAll(base) }()
	dir := filepath.Join(base, "backend")
	os.MkdirAll(dir, 0o755)
	markers := filepath.Join(base, "markers.log")
	trace := filepath.Join(base, "trace.txt")
	info := map[string]any{"workload": "traced-uploads", "seed": seed, "uploads": uploads}
	args := []string{"-f", "-y", "-ttt", "-T", "-s", "160", "-e", "trace=openat,renameat,renameat2,rename,mkdirat,mkdir,unlinkat,unlink,fsync,fdatasync,write,pwrite64,ftruncate,linkat"}
	race := "0"
	if mkdirRace {
		args = append(args, "-e", "inject=mkdirat:delay_exit=40000")
		race = "1"
		info["mkdirat_exit_delayed_us"] = 40000
	}
	if fault != "" {
		args = append(args, "-e", "inject="+fault)
		info["injected"] = fault
		r.Count("fault_injection_runs", 1)
	}
	args = append(args, "-o", trace, os.Args[0], "-test.run", "^TestHelperFS$")
	cmd := exec.Command("strace", args...)
	cmd.Env = append(os.Environ(), "VERIF_FS_FAULTS="+fault, "VERIF_FS_RACE="+race, "VERIF_HELPER=fshelper", "VERIF_FS_DIR="+dir, "VERIF_FS_MARKERS="+markers, fmt.Sprint("VERIF_FS_SEED=", seed), fmt.Sprint("VERIF_FS_UPLOADS=", uploads), "VERIF_OUT=")
	if out, err := cmd.CombinedOutput(); err != nil && fault == "" {
		r.Inconcl("traced helper failed: %v: %s", err, lastBytes(out, 300))
		return
	}
	evs, err := parseStrace(trace)
	if err != nil || len(evs) == 0 {
		r.Inconcl("cannot parse the strace log: %v", err)
		return
	}
	rep := checkTrace(evs, dir, markers)
	r.Eval(int64(rep.Ends))
	r.Count("trace_events", int64(rep.Events))
	r.Count("renames_checked", int64(rep.Renames))
	r.Count("upload_returns_checked", int64(rep.Ends))
	r.Count("fsyncs_seen", int64(rep.Fsyncs))
	r.Count("mkdirs_seen", int64(rep.Mkdirs))
	if fault != "" {
		failed := 0
		for _, u := range rep.Uploads {
			if u.end > 0 && !u.ok {
				failed++
			}
		}
		r.Count("uploads_failed_under_injection", int64(failed))
		r.DistinctKey(fmt.Sprintf("inject/%s/failed>0=%v", strings.SplitN(fault, ":when", 2)[0], failed > 0))
	} else if rep.Ends == 0 || rep.Renames == 0 || rep.Fsyncs == 0 {
		r.Inconcl("trace shows %d upload returns, %d renames, %d fsyncs: checker blind", rep.Ends, rep.Renames, rep.Fsyncs)
	}
	for _, p := range rep.Problems {
		r.Violate("durability:"+p.Class, info, "%s", p.Msg)
	}
	// the real files: every successful upload is completely readable
	last := map[string][]*fsUpload{}
	for _, u := range rep.Uploads {
		last[u.key] = append(last[u.key], u)
		bc := "small"
		switch {
		case u.size == 0:
			bc = "empty"
		case u.size >= 1<<20:
			bc = "4MiB"
		case u.size == 16384:
			bc = "16KiB"
		}
		r.DistinctKey(fmt.Sprintf("%s/%s/imm=%v", keyClass(u.key), bc, u.imm))
	}
	for key, us := range last {
		b, err := os.ReadFile(filepath.Join(dir, filepath.FromSlash(key)))
		anyOK := false
		for _, u := range us {
			anyOK = anyOK || u.ok
		}
		if !anyOK {
			// no upload of this key reported success: the key is absent or holds
			// the complete body of one of them (applied although an error was
			// reported); anything else is a torn object under a final name
			if err == nil {
				sum := fmt.Sprintf("%x", sha256.Sum256(b))
				match := false
				for _, u := range us {
					match = match || u.sha == sum
				}
				if !match {
					r.Violate("torn-object-after-failed-upload", info, "%s holds %d bytes that are not the complete body of any upload of that key, after uploads that all reported failure", key, len(b))
				}
			}
			continue
		}
		if err != nil {
			r.Violate("uploaded-object-unreadable", info, "%s was uploaded successfully but cannot be read: %v", key, err)
			continue
		}
		sum := fmt.Sprintf("%x", sha256.Sum256(b))
		match := false
		for _, u := range us {
			if u.sha == sum {
				match = true
			}
		}
		if !match {
			r.Violate("uploaded-object-content", info, "%s holds %d bytes that are not the body of any upload of that key", key, len(b))
		}
	}
}

// ---- 2. atomic visibility ----------------------------------------------------

func TestC13Atomic(t *testing.T) {
	r := NewRun(t, "C13", "atomic")
	r.Rule = "2-3 writers overwrite 2-3 mutable keys with self-describing bodies (id, length, one repeated byte) while 4-8 readers Fetch in a loop: every read is exactly one body ever written (or not-found before the first write); run under the race detector as well; distinct = (key, body length class)"
	rng := NewRng(r.Seed, "c13a")
	dir, _ := os.MkdirTemp(scratchRoot(), "atomic-")
	defer func() { unlockTree(dir); os.RemoveAll(dir) }()
	b, err := ctlog.NewLocalBackend(context.Background(), dir, discardLogger)
	if err != nil {
		t.Fatal(err)
	}
	keys := []string{"checkpoint", "_roots.pem", "sub/dir/mutable"}
	mk := func(id, n int) []byte {
		h := []byte(fmt.Sprintf("%08d:%08d:", id, n))
		return append(h, bytes.Repeat([]byte{byte('a' + id%26)}, n)...)
	}
	valid := func(p []byte) bool {
		var id, n int
		if len(p) < 18 {
			return false
		}
		if _, err := fmt.Sscanf(string(p[:18]), "%08d:%08d:", &id, &n); err != nil {
			return false
		}
		return len(p) == 18+n && bytes.Count(p[18:], []byte{byte('a' + id%26)}) == n
	}
	var stop atomic.Bool
	var wg sync.WaitGroup
	var reads, writes atomic.Int64
	for w := 0; w < 3; w++ {
		wrng := rng.Fork(fmt.Sprint("w", w))
		wg.Add(1)
		go func() {
			defer wg.Done()
			for i := 0; !stop.Load(); i++ {
				n := pickOne(wrng, []int{0, 1, 100, 4095, 4096, 4097, 70000, 300000})
				key := keys[wrng.Intn(len(keys))]
				if err := b.Upload(context.Background(), key, mk(w*1000000+i, n), &ctlog.UploadOptions{}); err != nil {
					r.Violate("mutable-upload-failed", map[string]any{"key": key}, "upload of mutable key %s failed: %v", key, err)
					return
				}
				writes.Add(1)
				r.DistinctKey(fmt.Sprintf("%s/%d", key, n))
			}
		}()
	}
	for rd := 0; rd < 6; rd++ {
		rrng := rng.Fork(fmt.Sprint("r", rd))
		wg.Add(1)
		go func() {
			defer wg.Done()
			for !stop.Load() {
				key := keys[rrng.Intn(len(keys))]
				p, err := b.Fetch(context.Background(), key)
				if err != nil {
					if os.IsNotExist(err) {
						continue
					}
					r.Violate("fetch-error-under-writes", map[string]any{"key": key}, "Fetch(%s) failed while being overwritten: %v", key, err)
					return
				}
				reads.Add(1)
				if !valid(p) {
					r.Violate("torn-read", map[string]any{"key": key, "len": len(p), "head": string(p[:min(len(p), 40)])}, "Fetch(%s) returned %d bytes that are not one complete body ever written", key, len(p))
					return
				}
			}
		}()
	}
	time.Sleep(time.Duration(pick(2500, 20000)) * time.Millisecond)
	stop.Store(true)
	wg.Wait()
	r.Eval(reads.Load())
	r.Count("reads", reads.Load())
	r.Count("writes", writes.Load())
	if reads.Load() < 100 || writes.Load() < 20 {
		r.Inconcl("too few operations: %d reads, %d writes", reads.Load(), writes.Load())
	}
}

// ---- 3. immutability ---------------------------------------------------------

// callWithWatchdog runs f; if it has not returned after the budget, three
// stack samples 200 ms apart are taken: when all show the call still inside the
// same function the verdict is non-termination (the wall clock only decides
// when to sample).
func callWithWatchdog(f func() error) (err error, hung bool, where string) {
	done := make(chan error, 1)
	go func() { done <- f() }()
	select {
	case err = <-done:
		return err, false, ""
	case <-time.After(20 * time.Second):
	}
	var seen []string
	for i := 0; i < 3; i++ {
		buf := make([]byte, 1<<20)
		buf = buf[:runtime.Stack(buf, true)]
		loc := ""
		for _, g := range strings.Split(string(buf), "\n\n") {
			if strings.Contains(g, "callWithWatchdog.func1") {
				for _, line := range strings.Split(g, "\n") {
					if strings.Contains(line, "filippo.io/sunlight/internal/") {
						loc = strings.TrimSpace(line)
						break
					}
				}
			}
		}
		seen = append(seen, loc)
		select {
		case err = <-done:
			return err, false, ""
		case <-time.After(200 * time.Millisecond):
		}
	}
	if seen[0] != "" && seen[0] == seen[1] && seen[1] == seen[2] {
		return nil, true, seen[0]
	}
	select {
	case err = <-done:
		return err, false, ""
	case <-time.After(30 * time.Second):
		return nil, true, "unknown location"
	}
}

func TestC13Immutable(t *testing.T) {
	r := NewRun(t, "C13", "immutable")
	r.Rule = "for body lengths {0,1,16383,16384,16385,32768,1 MiB,5 MiB}+seeded: upload immutable; re-upload identical => nil; upload with one byte changed at the start / middle / end, one byte shorter, one byte longer, empty, or a proper prefix => error and the stored bytes, mode (0444) and immutable inode flag unchanged; every call under a non-termination watchdog; distinct = (length, variant)"
	rng := NewRng(r.Seed, "c13i")
	dir, _ := os.MkdirTemp(scratchRoot(), "imm-")
	defer func() { unlockTree(dir); os.RemoveAll(dir) }()
	b, err := ctlog.NewLocalBackend(context.Background(), dir, discardLogger)
	if err != nil {
		t.Fatal(err)
	}
	lens := []int{1, 16383, 16384, 16385, 32768, 1 << 20, 5 << 20, 2 + rng.Intn(40000), 0}
	if thorough() {
		for i := 0; i < 40; i++ {
			lens = append(lens, rng.Intn(100000))
		}
	}
	imm := &ctlog.UploadOptions{Immutable: true}
	flagSupported := true
	for li, n := range lens {
		if !mine(li) {
			continue
		}
		key := fmt.Sprintf("tile/data/%03d", li)
		body := rng.Bytes(n)
		info := map[string]any{"length": n}
		up := func(what string, data []byte) (error, bool) {
			err, hung, where := callWithWatchdog(func() error { return b.Upload(context.Background(), key, data, imm) })
			r.Eval(1)
			r.DistinctKey(fmt.Sprintf("%d/%s", n, what))
			if hung {
				id := "upload-does-not-terminate"
				if n == 0 {
					id += ":empty-object"
				}
				r.Violate(id, map[string]any{"length": n, "variant": what, "stuck_at": where}, "Upload (%s) of a %d-byte immutable object does not return (three stack samples at %s)", what, n, where)
			}
			return err, hung
		}
		if err, hung := up("first", body); err != nil || hung {
			if err != nil {
				r.Violate("immutable-first-upload-failed", info, "first upload failed: %v", err)
			}
			continue
		}
		path := filepath.Join(dir, filepath.FromSlash(key))
		st0, _ := os.Stat(path)
		fl0, ferr := inodeFlags(path)
		if ferr != nil || fl0&0x10 == 0 {
			flagSupported = false
		}
		if st0.Mode().Perm() != 0o444 {
			r.Violate("immutable-mode", info, "immutable object has mode %v", st0.Mode().Perm())
		}
		if err, hung := up("identical", bytes.Clone(body)); hung {
			break // the spinning goroutine keeps a core busy; stop here
		} else if err != nil {
			r.Violate("identical-reupload-refused", info, "re-uploading identical bytes (%d) failed: %v", n, err)
		}
		variants := map[string][]byte{}
		if n > 0 {
			for name, pos := range map[string]int{"first-byte": 0, "middle-byte": n / 2, "last-byte": n - 1} {
				v := bytes.Clone(body)
				v[pos] ^= 0x40
				variants[name] = v
			}
			variants["shorter"] = body[:n-1]
			variants["empty"] = []byte{}
			if n > 16384 {
				variants["first-chunk-only"] = body[:16384]
			}
		}
		variants["longer"] = append(bytes.Clone(body), 'x')
		hungAny := false
		for name, v := range variants {
			err, hung := up(name, v)
			if hung {
				hungAny = true
				break
			}
			if err == nil {
				r.Violate("different-bytes-accepted:"+name, map[string]any{"length": n, "variant": name}, "uploading different bytes (%s) over an immutable %d-byte object succeeded", name, n)
			}
			got, _ := os.ReadFile(path)
			if !bytes.Equal(got, body) {
				r.Violate("immutable-object-changed:"+name, map[string]any{"length": n, "variant": name}, "stored bytes changed after a refused upload (%s)", name)
			}
			st, _ := os.Stat(path)
			if st.Mode() != st0.Mode() {
				r.Violate("immutable-mode-changed", info, "mode changed from %v to %v", st0.Mode(), st.Mode())
			}
			if fl, err := inodeFlags(path); flagSupported && (err != nil || fl != fl0) {
				r.Violate("immutable-flag-changed", info, "inode flags changed from %#x to %#x", fl0, fl)
			}
		}
		if hungAny {
			break
		}
	}
	if !flagSupported {
		r.Notes["immutable_inode_flag"] = "not settable here: flag sub-check skipped"
	} else {
		r.Count("immutable_flag_observed", 1)
	}
}

// ---- 4. confinement ----------------------------------------------------------

func snapshotTree(root string, skip ...string) map[string]string {
	out := map[string]string{}
	filepath.WalkDir(root, func(p string, d fs.DirEntry, err error) error {
		if err != nil {
			return nil
		}
		rel, _ := filepath.Rel(root, p)
		if d.IsDir() {
			for _, s := range skip {
				if p == s {
					out[rel+"/"] = "dir"
					return filepath.SkipDir
				}
			}
			out[rel+"/"] = "dir"
			return nil
		}
		b, _ := os.ReadFile(p)
		out[rel] = fmt.Sprintf("%x", sha256.Sum256(b))
		return nil
	})
	return out
}

func TestC13Confinement(t *testing.T) {
	r := NewRun(t, "C13", "confinement")
	r.Rule = "hostile keys (.., a/../../b, absolute, //, NUL, backslash, ., empty, trailing slash, very long, device and reserved names) through Upload / Fetch / Discard of a backend directory surrounded by a canary tree; oracle: the call errors, or everything it touched is inside the backend directory; the canary tree is byte-identical afterwards and Fetch never returns canary content; distinct = (key pattern, operation, outcome)"
	rng := NewRng(r.Seed, "c13c")
	base, _ := os.MkdirTemp(scratchRoot(), "conf-")
	defer func() { unlockTree(base); os.RemoveAll(base) }()
	dir := filepath.Join(base, "outer", "backend")
	os.MkdirAll(dir, 0o755)
	os.MkdirAll(filepath.Join(base, "outer", "sibling"), 0o755)
	os.WriteFile(filepath.Join(base, "outer", "sibling", "secret"), []byte("CANARY-sibling"), 0o644)
	os.WriteFile(filepath.Join(base, "outer", "secret"), []byte("CANARY-parent"), 0o644)
	os.WriteFile(filepath.Join(base, "secret"), []byte("CANARY-grandparent"), 0o644)
	// siblings whose NAME extends the backend directory's name (a confinement
	// check by string prefix would let them through)
	for _, sib := range []string{"backend-backup", "backend2", "backend.old", "backendx/deep"} {
		os.MkdirAll(filepath.Join(base, "outer", sib), 0o755)
		os.WriteFile(filepath.Join(base, "outer", sib, "secret"), []byte("CANARY-"+sib), 0o644)
		os.WriteFile(filepath.Join(base, "outer", sib, "checkpoint"), []byte("CANARY-checkpoint-"+sib), 0o644)
	}
	b, err := ctlog.NewLocalBackend(context.Background(), dir, discardLogger)
	if err != nil {
		t.Fatal(err)
	}
	keys := []string{"..", "../secret", "../sibling/secret", "../../secret", "a/../../secret", "a/../../sibling/new", "tile/../../secret", "/etc/passwd", base + "/secret", "//secret", "a//b",
		"a/./b", ".", "", "a/", "a\x00b", "..\\secret", "a\\..\\..\\secret", "tile/0/..", "tile/0/../..", "tile/0/../../../secret", "./../secret", "....//secret", "%2e%2e/secret",
		"../backend-backup/secret", "../backend-backup/checkpoint", "../backend2/secret", "../backend.old/checkpoint", "../backendx/deep/secret", "tile/../../backend-backup/checkpoint",
		"a/b/../../../backend2/new-object", "../backend-backup/new-object", "../backend", "../backend/x",
		"link/secret", "link/new", "link/../secret", strings.Repeat("a/", 150) + "x", strings.Repeat("x", 5000), "CON", "nul", "a/../b", "ok/normal/key"}
	for i := 0; i < pick(100, 2000); i++ {
		parts := []string{"..", ".", "a", "", "link", "secret", "sibling", "x\x00", "..\\", "tile", "backend-backup", "backend2", "checkpoint"}
		var k []string
		for j := 0; j < 1+rng.Intn(5); j++ {
			k = append(k, pickOne(rng, parts))
		}
		key := strings.Join(k, "/")
		if rng.Intn(8) == 0 {
			key = "/" + key
		}
		keys = append(keys, key)
	}
	before := snapshotTree(base, dir)
	outside := func() string {
		after := snapshotTree(base, dir)
		rel, _ := filepath.Rel(base, dir)
		var diffs []string
		for p, h := range after {
			if strings.HasPrefix(p, rel+"/") || p == rel+"/" {
				continue
			}
			if before[p] != h {
				diffs = append(diffs, p)
			}
		}
		for p := range before {
			if _, ok := after[p]; !ok && !strings.HasPrefix(p, rel+"/") {
				diffs = append(diffs, "-"+p)
			}
		}
		sort.Strings(diffs)
		return strings.Join(diffs, ",")
	}
	for i, key := range keys {
		if !mine(i) {
			continue
		}
		info := map[string]any{"key": key}
		pat := key
		if len(pat) > 24 {
			pat = pat[:24] + "…"
		}
		body := []byte("PAYLOAD-" + fmt.Sprint(i))
		for _, opts := range []*ctlog.UploadOptions{{}, {Immutable: true}} {
			err := b.Upload(context.Background(), key, body, opts)
			r.Eval(1)
			r.DistinctKey(fmt.Sprintf("%q/upload/err=%v", pat, err != nil))
			if d := outside(); d != "" {
				r.Violate("upload-escaped-directory", info, "Upload(%q) changed paths outside the backend directory: %s", key, d)
				before = snapshotTree(base, dir)
			}
		}
		p, err := b.Fetch(context.Background(), key)
		r.Eval(1)
		r.DistinctKey(fmt.Sprintf("%q/fetch/err=%v", pat, err != nil))
		if err == nil && bytes.HasPrefix(p, []byte("CANARY")) {
			r.Violate("fetch-escaped-directory", info, "Fetch(%q) returned the content of a file outside the backend directory", key)
		}
		err = b.Discard(context.Background(), key)
		r.Eval(1)
		r.DistinctKey(fmt.Sprintf("%q/discard/err=%v", pat, err != nil))
		if d := outside(); d != "" {
			r.Violate("discard-escaped-directory", info, "Discard(%q) changed paths outside the backend directory: %s", key, d)
			before = snapshotTree(base, dir)
		}
	}
}
