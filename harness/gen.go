package verifharness

// Seeded generators for log entries and X.509 material.

import (
	"crypto/ecdsa"
	"crypto/elliptic"
	"crypto/rand"
	"crypto/x509"
	"crypto/x509/pkix"
	"fmt"
	"math/big"
	"net"
	"sync"
	"sync/atomic"
	"time"

	"filippo.io/sunlight/internal/ctlog"
)

var entryCounter atomic.Int64

// issuerPool is a small set of issuer blobs shared by blob entries so that
// issuer objects are reused across entries.
func issuerBlob(i int) []byte {
	return []byte(fmt.Sprintf("\x01issuer-blob-%d-%s", i, "0123456789abcdef0123456789abcdef"[:8+i%8]))
}

type simpleCA struct {
	key  *ecdsa.PrivateKey
	cert *x509.Certificate
	der  []byte
}

var genCA = sync.OnceValue(func() *simpleCA {
	k, err := ecdsa.GenerateKey(elliptic.P256(), rand.Reader)
	if err != nil {
		panic(err)
	}
	tmpl := &x509.Certificate{
		SerialNumber: big.NewInt(1), Subject: pkix.Name{CommonName: "verif gen CA", Organization: []string{"Verif"}},
		NotBefore: time.Date(2020, 1, 1, 0, 0, 0, 0, time.UTC), NotAfter: time.Date(2090, 1, 1, 0, 0, 0, 0, time.UTC),
		IsCA: true, BasicConstraintsValid: true, KeyUsage: x509.KeyUsageCertSign,
	}
	der, err := x509.CreateCertificate(rand.Reader, tmpl, tmpl, k.Public(), k)
	if err != nil {
		panic(err)
	}
	c, _ := x509.ParseCertificate(der)
	return &simpleCA{k, c, der}
})

var genLeafKey = sync.OnceValue(func() *ecdsa.PrivateKey {
	k, _ := ecdsa.GenerateKey(elliptic.P256(), rand.Reader)
	return k
})

// realCert makes a parseable end-entity certificate with names that exercise
// the names tile (subject fields, DNS and IP SANs).
func realCert(rng *Rng, id int64) []byte {
	ca := genCA()
	tmpl := &x509.Certificate{
		SerialNumber: big.NewInt(1000 + id),
		Subject:      pkix.Name{CommonName: fmt.Sprintf("host%d.verif.test", id)},
		NotBefore:    time.Date(2025, 1, 1, 0, 0, 0, 0, time.UTC), NotAfter: time.Date(2026, 1, 1, 0, 0, 0, 0, time.UTC),
		KeyUsage: x509.KeyUsageDigitalSignature, ExtKeyUsage: []x509.ExtKeyUsage{x509.ExtKeyUsageServerAuth},
	}
	switch rng.Intn(4) {
	case 0:
		tmpl.DNSNames = []string{fmt.Sprintf("host%d.verif.test", id), fmt.Sprintf("www.host%d.verif.test", id)}
	case 1:
		tmpl.Subject.Organization = []string{"Org \"quoted\" <&>", "Second"}
		tmpl.Subject.Country = []string{"IT"}
		tmpl.Subject.Locality = []string{"Roma"}
		tmpl.IPAddresses = []net.IP{net.IPv4(192, 0, 2, byte(id)), net.ParseIP("2001:db8::1")}
	case 2:
		tmpl.Subject = pkix.Name{}
		tmpl.DNSNames = []string{fmt.Sprintf("xn--h%d.verif.test", id)}
	case 3:
		tmpl.Subject.Province = []string{"Lazio"}
		tmpl.Subject.StreetAddress = []string{"Via Verifica 1"}
		tmpl.Subject.PostalCode = []string{"00100"}
		tmpl.Subject.OrganizationalUnit = []string{"OU"}
	}
	der, err := x509.CreateCertificate(rand.Reader, tmpl, ca.cert, genLeafKey().Public(), ca.key)
	if err != nil {
		panic(err)
	}
	return der
}

// Entry shapes.
const (
	ShapeBlobX509 = iota
	ShapeBlobPrecert
	ShapeRealX509
	ShapeRealPrecert // precert whose PreCertificate is a real certificate, TBS a blob
	ShapeBig
	shapeCount
)

// genEntry makes a unique pending entry of the given shape.
func genEntry(rng *Rng, shape int) *ctlog.PendingLogEntry {
	id := entryCounter.Add(1)
	e := &ctlog.PendingLogEntry{}
	tag := []byte(fmt.Sprintf("\x02e%d-", id))
	switch shape {
	case ShapeBlobX509:
		e.Certificate = append(tag, rng.Bytes(4+rng.Intn(40))...)
	case ShapeBlobPrecert:
		e.IsPrecert = true
		e.Certificate = append(tag, rng.Bytes(4+rng.Intn(40))...)
		e.PreCertificate = append([]byte("\x03p"), rng.Bytes(1+rng.Intn(30))...)
		copy(e.IssuerKeyHash[:], rng.Bytes(32))
	case ShapeRealX509:
		e.Certificate = realCert(rng, id)
	case ShapeRealPrecert:
		e.IsPrecert = true
		e.Certificate = append(tag, rng.Bytes(4+rng.Intn(40))...)
		e.PreCertificate = realCert(rng, id)
		copy(e.IssuerKeyHash[:], rng.Bytes(32))
	case ShapeBig:
		e.Certificate = append(tag, rng.Bytes(60_000)...)
	}
	switch rng.Intn(5) {
	case 0:
	case 1:
		e.Issuers = [][]byte{issuerBlob(rng.Intn(6))}
	case 2:
		e.Issuers = [][]byte{issuerBlob(rng.Intn(6)), issuerBlob(6 + rng.Intn(3))}
	case 3:
		e.Issuers = [][]byte{issuerBlob(rng.Intn(3)), issuerBlob(3 + rng.Intn(3)), issuerBlob(6 + rng.Intn(3))}
	case 4:
		e.Issuers = [][]byte{genCA().der}
	}
	return e
}

func genShape(rng *Rng) int {
	// mostly small blobs (cheap), some real certificates, rarely big
	switch v := rng.Intn(100); {
	case v < 40:
		return ShapeBlobX509
	case v < 70:
		return ShapeBlobPrecert
	case v < 83:
		return ShapeRealX509
	case v < 96:
		return ShapeRealPrecert
	default:
		return ShapeBig
	}
}

func cloneEntry(e *ctlog.PendingLogEntry) *ctlog.PendingLogEntry {
	c := *e
	return &c
}
