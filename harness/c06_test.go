package verifharness

import (
	"context"
	"errors"
	"fmt"
	"os"
	"path/filepath"
	"sort"
	"strings"
	"sync"
	"testing"
	"time"

	"filippo.io/sunlight/internal/ctlog"
)

type c06Case struct {
	Start    int   `json:"start"`
	Pools    []int `json:"pools"`    // pool size per instance
	Schedule []int `json:"schedule"` // instance to step next; afterwards round-robin
	Overlap  bool  `json:"overlap"`  // instances also submit one common entry
}

func (c *c06Case) String() string {
	var s strings.Builder
	for _, x := range c.Schedule {
		s.WriteByte(byte('A' + x))
	}
	return fmt.Sprintf("start=%d pools=%v overlap=%v schedule=%s", c.Start, c.Pools, c.Overlap, s.String())
}

func copyFile(dst, src string) {
	if b, err := os.ReadFile(src); err == nil {
		os.WriteFile(dst, b, 0o644)
	}
}

func runC06Case(r *Run, bases *baseStates, cc *c06Case) {
	env := bases.envs[cc.Start].Fork()
	env.CaseInfo = func() any { return cc }
	defer env.Cleanup()
	r.Eval(1)
	n := len(cc.Pools)
	rng := NewRng(int64(cc.Start*31+n), "c06")
	sched := NewScheduler()
	insts := make([]*LogInst, n)
	aws := make([]*asyncWaiters, n)
	for i := range insts {
		cache := filepath.Join(env.Dir, fmt.Sprintf("cache-%d.db", i))
		copyFile(cache, env.Cache)
		li, err := env.LoadCache(string(rune('A'+i)), nil, cache)
		if err != nil {
			env.violate("load-of-base-failed", "%v", err)
			return
		}
		insts[i] = li
		aws[i] = &asyncWaiters{}
	}
	common := genEntry(rng, ShapeBlobX509)
	for i, li := range insts {
		for j := 0; j < cc.Pools[i]; j++ {
			aws[i].start(li, li.Submit(genEntry(rng, cheapShape(rng)), false))
		}
		if cc.Overlap {
			aws[i].start(li, li.Submit(cloneEntry(common), false))
		}
	}
	simNow.Add(13)
	lockBefore := len(env.lockObsSnapshot())
	errs := make([]error, n)
	var wg sync.WaitGroup
	for i, li := range insts {
		sched.Attach(li.In, i)
		li.BeginRound()
		wg.Add(1)
		go func() {
			defer wg.Done()
			errs[i] = li.Log.VerifSequence(context.Background())
			sched.Finished(i)
		}()
	}
	for _, id := range cc.Schedule {
		if id < n {
			sched.Step(id, 15*time.Second)
		}
	}
	for alive := true; alive; {
		alive = false
		for id := 0; id < n; id++ {
			if _, ok := sched.Step(id, 15*time.Second); ok {
				alive = true
			}
		}
	}
	wg.Wait()
	r.DistinctKey("trace:" + strings.Join(sched.Trace, " "))
	// oracle
	obs := env.lockObsSnapshot()
	commits := obs[lockBefore:]
	winners := map[string]bool{}
	for _, o := range commits {
		winners[o.By] = true
	}
	if len(commits) > 1 {
		env.violate("two-instances-extended-one-checkpoint", "%d lock commits from one starting checkpoint in one round each: %v", len(commits), winners)
	}
	if len(commits) == 0 {
		env.violate("no-instance-committed", "no instance committed although no fault was injected")
	}
	for i, li := range insts {
		won := winners[li.In.Name]
		switch {
		case won && errs[i] != nil:
			r.Count("winner_returned_error", 1) // allowed (later step failed), not expected without faults
		case !won && errs[i] == nil:
			env.violate("loser-did-not-stop", "instance %s did not commit but its round returned no fatal error", li.In.Name)
		case !won && !errors.Is(errs[i], ctlog.VerifErrFatal):
			env.violate("loser-error-not-fatal", "instance %s lost the compare-and-swap with a non-fatal error: %v", li.In.Name, errs[i])
		}
		aws[i].wg.Wait()
		for _, a := range aws[i].acks {
			if a.OK && !won && a.Sub.Source != "cache" {
				env.violate("loser-acknowledged", "instance %s lost the round but acknowledged submission %d (index %d)", li.In.Name, a.Sub.ID, a.Index)
			}
			if !a.OK && won && errs[i] == nil {
				env.violate("winner-waiter-failed", "winner %s returned success but a waiter got %v", li.In.Name, a.Err)
			}
		}
		if won {
			r.Count("winners", 1)
		} else {
			r.Count("losers", 1)
		}
	}
	// the loser is stale for good: it must never commit again
	for i, li := range insts {
		if winners[li.In.Name] {
			continue
		}
		li.In.Plan, li.In.Trace = nil, nil
		s := li.Submit(genEntry(rng, ShapeBlobX509), false)
		simNow.Add(3)
		before := len(env.lockObsSnapshot())
		err, _ := li.Sequence(nil)
		if len(env.lockObsSnapshot()) != before {
			env.violate("stale-instance-committed", "stale instance %s committed a checkpoint after losing", li.In.Name)
		}
		if err == nil {
			env.violate("loser-did-not-stop", "stale instance %s ran another round without a fatal error", li.In.Name)
		}
		if a := li.WaitAck(context.Background(), s); a.OK {
			env.violate("loser-acknowledged", "stale instance %s acknowledged a submission", li.In.Name)
		}
		_ = i
	}
	// the winner keeps going and storage is complete at the lock checkpoint
	for _, li := range insts {
		if !winners[li.In.Name] {
			continue
		}
		li.In.Plan, li.In.Trace = nil, nil
		s := li.Submit(genEntry(rng, ShapeBlobX509), false)
		simNow.Add(3)
		if err, _ := li.Sequence(nil); err != nil {
			env.violate("winner-stuck", "winner %s failed its next round: %v", li.In.Name, err)
		}
		li.WaitAck(context.Background(), s)
	}
	sched.Drain()
	for _, li := range insts {
		li.Abandon()
	}
	if lock := env.LockSTH(); lock != nil && !env.broken {
		for _, p := range env.Audit(lock.Size, lock.Timestamp, 0) {
			env.violate("post-race-audit:"+p.Class, "storage at the lock checkpoint (size %d) after the race: %s", lock.Size, p.Msg)
		}
	}
	env.FinalChecks()
	env.CheckAcks()
}

// allInterleavings enumerates all merges of a steps of 0 and b steps of 1.
func allInterleavings(a, b int) [][]int {
	var out [][]int
	var rec func(cur []int, a, b int)
	rec = func(cur []int, a, b int) {
		if a == 0 && b == 0 {
			out = append(out, append([]int(nil), cur...))
			return
		}
		if a > 0 {
			rec(append(cur, 0), a-1, b)
		}
		if b > 0 {
			rec(append(cur, 1), a, b-1)
		}
	}
	rec(nil, a, b)
	return out
}

func TestC06Schedules(t *testing.T) {
	r := NewRun(t, "C06", "schedules")
	r.Rule = "2-3 instances loaded from the same lock checkpoint, one round each, every backend call gated by a central scheduler; all interleavings enumerated for (pool 0 vs 0), (0 vs 1), (1 vs 0) and prefixes of length <= 9 for (1 vs 1), seeded schedules for larger pools and three instances; distinct = realised operation trace"
	rng := NewRng(r.Seed, "c06")
	starts := []int{0, 255, 256}
	if thorough() {
		starts = []int{0, 1, 255, 256, 257, 511}
	}
	bases := buildBases(r, rng, starts)
	defer bases.Cleanup()
	var rc c06Case
	if replayCase("C06", "schedules", &rc) {
		runC06Case(r, bases, &rc)
		return
	}
	var cases []*c06Case
	for _, start := range starts {
		for _, s := range allInterleavings(2, 2) {
			cases = append(cases, &c06Case{Start: start, Pools: []int{0, 0}, Schedule: s})
		}
		for _, s := range allInterleavings(2, 7) {
			cases = append(cases, &c06Case{Start: start, Pools: []int{0, 1}, Schedule: s})
		}
		// prefixes for 1 vs 1: all merges of the first 4 ops of each (staging, CAS, first tiles)
		lim := pick(4, 5)
		for _, s := range allInterleavings(lim, lim) {
			cases = append(cases, &c06Case{Start: start, Pools: []int{1, 1}, Schedule: s, Overlap: len(cases)%2 == 0})
		}
		for i := 0; i < pick(50, 400); i++ {
			cc := &c06Case{Start: start, Pools: []int{pickOne(rng, []int{0, 1, 2, 3, 257}), pickOne(rng, []int{0, 1, 2, 258})}, Overlap: rng.Bool()}
			if rng.Intn(3) == 0 {
				cc.Pools = append(cc.Pools, pickOne(rng, []int{0, 1, 2}))
			}
			for j := 0; j < 4+rng.Intn(14); j++ {
				cc.Schedule = append(cc.Schedule, rng.Intn(len(cc.Pools)))
			}
			cases = append(cases, cc)
		}
	}
	for i, cc := range cases {
		if !mine(i) {
			continue
		}
		runC06Case(r, bases, cc)
		if i%173 == 0 {
			r.Sample(cc.String())
		}
	}
	if r.Counter("losers") == 0 || r.Counter("winners") == 0 {
		r.Inconcl("no winner/loser pair observed")
	}
}

// ---- start-up matrix -------------------------------------------------------

type startupCase struct {
	Start int    `json:"start"`
	State string `json:"state"`
}

func snapshotStores(w *World) string {
	var parts []string
	for _, k := range w.Keys() {
		b, _ := w.Get(k)
		parts = append(parts, fmt.Sprintf("%s=%x", k, refLeafHash(b)))
	}
	w.mu.Lock()
	for id, vs := range w.Locks {
		parts = append(parts, fmt.Sprintf("lock:%x=%x", id[:4], refLeafHash(vs[len(vs)-1].Data)))
	}
	w.mu.Unlock()
	sort.Strings(parts)
	return strings.Join(parts, "\n")
}

func TestC06Startup(t *testing.T) {
	r := NewRun(t, "C06", "startup")
	r.Rule = "generated start-up states that must make LoadLog / CreateLog return an error and leave both stores byte-identical: storage ahead of the lock store (lock rolled back to each older committed value), same size other root, foreign key, foreign name, extension line, timestamp in the future, missing checkpoint / right-edge tile / data tile / staging bundle with the lock ahead; CreateLog over an existing lock value or storage checkpoint; two concurrent CreateLogs under all interleavings; distinct = (start size, state)"
	rng := NewRng(r.Seed, "c06s")
	starts := []int{1, 255, 256, 257, 513}
	bases := buildBases(r, rng, starts)
	defer bases.Cleanup()
	states := []string{"lock-rolled-back", "same-size-other-root", "published-foreign-key", "published-foreign-name", "published-extension", "published-future", "lock-future",
		"missing-checkpoint", "missing-edge-hash-tile", "missing-edge-data-tile", "missing-staging-lock-ahead", "lock-foreign-key", "lock-garbage",
		"create-over-lock", "create-over-storage-only",
		// the same with the lock one round ahead and its staging bundle still in
		// storage (the committing instance died before publishing)
		"same-size-other-root-staged", "published-ahead-staged", "published-foreign-key-staged"}
	n := 0
	for _, start := range starts {
		for _, st := range states {
			n++
			if !mine(n) {
				continue
			}
			runStartupCase(r, bases, rng.Fork(fmt.Sprint(start, st)), &startupCase{Start: start, State: st})
		}
	}
	// concurrent creation
	for _, s := range allInterleavings(4, 4) {
		n++
		if !mine(n) {
			continue
		}
		runConcurrentCreate(r, rng.Fork(fmt.Sprint(s)), s)
	}
}

func runStartupCase(r *Run, bases *baseStates, rng *Rng, sc *startupCase) {
	env := bases.envs[sc.Start].Fork()
	env.AuditPub = false
	env.CaseInfo = func() any { return sc }
	defer env.Cleanup()
	r.Eval(1)
	r.DistinctKey(fmt.Sprintf("%d/%s", sc.Start, sc.State))
	lock := env.LockSTH()
	signWith := func(name string, rngKey *Rng, n int64, root Hash, ts int64) []byte {
		cfg := env.config(NewInst(env.W, "forger"))
		if name != "" {
			cfg.Name = name
		}
		if rngKey != nil {
			cfg.Key = detECDSA(rngKey)
		}
		cp, err := ctlog.VerifSignTreeHead(cfg, n, root, ts)
		if err != nil {
			panic(err)
		}
		return cp
	}
	create := false
	switch sc.State {
	case "lock-rolled-back":
		h := env.W.LockHistory(env.LogID)
		var older []LockVersion
		for _, v := range h {
			if sth, err := refVerifyRFC6962Checkpoint(v.Data, env.Name, env.Key.Public()); err == nil && sth.Size < lock.Size {
				older = append(older, v)
			}
		}
		if len(older) == 0 {
			r.Count("state_not_applicable", 1)
			return
		}
		env.W.LockSet(env.LogID, older[rng.Intn(len(older))].Data)
	case "same-size-other-root":
		var root Hash
		copy(root[:], rng.Bytes(32))
		env.W.Put("checkpoint", signWith("", nil, lock.Size, root, lock.Timestamp))
	case "published-foreign-key":
		env.W.Put("checkpoint", signWith("", rng.Fork("k"), lock.Size, lock.Root, lock.Timestamp))
	case "published-foreign-name":
		env.W.Put("checkpoint", signWith("other.example/log", nil, lock.Size, lock.Root, lock.Timestamp))
	case "published-extension":
		cur, _ := env.W.Get("checkpoint")
		i := strings.Index(string(cur), "\n\n")
		env.W.Put("checkpoint", []byte(string(cur[:i+1])+"extension line\n"+string(cur[i+1:])))
	case "published-future":
		env.W.Put("checkpoint", signWith("", nil, lock.Size, lock.Root, simNow.Load()+3_600_000))
	case "lock-future":
		env.W.LockSet(env.LogID, signWith("", nil, lock.Size, lock.Root, simNow.Load()+3_600_000))
	case "lock-foreign-key":
		env.W.LockSet(env.LogID, signWith("", rng.Fork("k"), lock.Size, lock.Root, lock.Timestamp))
	case "lock-garbage":
		env.W.LockSet(env.LogID, rng.Bytes(100))
	case "missing-checkpoint":
		env.W.Delete("checkpoint")
	case "missing-edge-hash-tile":
		ks := keysOfClass(env.W, "hash-edge", lock.Size)
		if len(ks) == 0 {
			r.Count("state_not_applicable", 1)
			return
		}
		env.W.Delete(ks[rng.Intn(len(ks))])
	case "missing-edge-data-tile":
		w := int(lock.Size % 256)
		n := lock.Size / 256
		if w == 0 {
			w, n = 256, n-1
		}
		env.W.Delete(refTilePath(TileCoord{-1, n, w}))
	case "missing-staging-lock-ahead":
		li, err := env.Load("A", nil)
		if err != nil {
			env.violate("load-of-base-failed", "%v", err)
			return
		}
		li.Submit(genEntry(rng, ShapeBlobX509), false)
		simNow.Add(5)
		_, want := (&RoundPlan{Crash: &CrashSpec{Phase: "tiles", Mask: 0}}).Install(li.In)
		li.Sequence(want)
		li.Abandon()
		l2 := env.LockSTH()
		env.W.Delete(fmt.Sprintf("staging/%d-%x", l2.Size, l2.Root))
	case "same-size-other-root-staged", "published-ahead-staged", "published-foreign-key-staged":
		li, err := env.Load("A", nil)
		if err != nil {
			env.violate("load-of-base-failed", "%v", err)
			return
		}
		li.Submit(genEntry(rng, ShapeBlobX509), false)
		simNow.Add(5)
		_, want := (&RoundPlan{Crash: &CrashSpec{Phase: "tiles", Mask: rng.U64()}}).Install(li.In)
		li.Sequence(want)
		li.Abandon()
		l2 := env.LockSTH()
		if _, ok := env.W.Get(fmt.Sprintf("staging/%d-%x", l2.Size, l2.Root)); !ok || l2.Size != lock.Size+1 {
			r.Count("state_not_applicable", 1)
			return
		}
		var root Hash
		copy(root[:], rng.Bytes(32))
		switch sc.State {
		case "same-size-other-root-staged":
			env.W.Put("checkpoint", signWith("", nil, l2.Size, root, l2.Timestamp))
		case "published-ahead-staged":
			env.W.Put("checkpoint", signWith("", nil, l2.Size+1, root, l2.Timestamp))
		case "published-foreign-key-staged":
			env.W.Put("checkpoint", signWith("", rng.Fork("k"), lock.Size, lock.Root, lock.Timestamp))
		}
	case "create-over-lock":
		create = true
		env.W.Delete("checkpoint")
	case "create-over-storage-only":
		create = true
		// a lock store without this log, storage still has the checkpoint
		env.W.mu.Lock()
		delete(env.W.Locks, env.LogID)
		env.W.mu.Unlock()
	}
	simNow.Add(5)
	before := snapshotStores(env.W)
	var err error
	if create {
		err = env.Create(nil)
	} else {
		var li *LogInst
		li, err = env.Load("S", nil)
		if err == nil {
			li.Abandon()
		}
	}
	if err == nil {
		env.violate("startup-not-refused:"+sc.State, "start-up state %q (size %d) was accepted", sc.State, sc.Start)
	} else {
		r.Count("startup_refused", 1)
	}
	if after := snapshotStores(env.W); after != before {
		env.violate("startup-refusal-modified-stores:"+sc.State, "refused start-up (%q) modified the stores", sc.State)
	}
}

func runConcurrentCreate(r *Run, rng *Rng, schedule []int) {
	env := NewLogEnv(r, rng.Fork("env"))
	env.CaseInfo = func() any { return map[string]any{"workload": "concurrent-create", "schedule": schedule} }
	defer env.Cleanup()
	r.Eval(1)
	simNow.Add(5)
	sched := NewScheduler()
	errs := make([]error, 2)
	var wg sync.WaitGroup
	for i := 0; i < 2; i++ {
		in := NewInst(env.W, fmt.Sprint("create", i))
		sched.Attach(in, i)
		cfg := env.config(in)
		cfg.Cache = filepath.Join(env.Dir, fmt.Sprintf("cc-%d.db", i))
		wg.Add(1)
		go func() {
			defer wg.Done()
			errs[i] = ctlog.CreateLog(context.Background(), cfg)
			sched.Finished(i)
		}()
	}
	for _, id := range schedule {
		sched.Step(id, 15*time.Second)
	}
	for alive := true; alive; {
		alive = false
		for id := 0; id < 2; id++ {
			if _, ok := sched.Step(id, 15*time.Second); ok {
				alive = true
			}
		}
	}
	wg.Wait()
	r.DistinctKey("create-trace:" + strings.Join(sched.Trace, " "))
	ok := 0
	for _, e := range errs {
		if e == nil {
			ok++
		}
	}
	if ok != 1 {
		env.violate("concurrent-create-winners", "%d of two concurrent CreateLog calls succeeded (want exactly 1): %v", ok, errs)
	}
	if h := env.W.LockHistory(env.LogID); len(h) != 1 {
		env.violate("concurrent-create-lock-history", "lock store has %d values after concurrent creation", len(h))
	}
	// the created log must be loadable and its published checkpoint committed
	simNow.Add(5)
	li, err := env.Load("after", nil)
	if err != nil {
		env.violate("created-log-not-loadable", "log created under concurrent CreateLog cannot be loaded: %v", err)
		return
	}
	li.Abandon()
}
