package verifharness

import (
	"context"
	"fmt"
	"runtime"
	"sync"
	"testing"
	"time"

	"filippo.io/sunlight/internal/ctlog"
)

// asyncWaiters starts one goroutine per submission that blocks in the wait
// function and records the acknowledgement (with the world sequence number at
// that instant) as soon as it returns -- so a sequencer that releases waiters
// before the checkpoint is readable is caught in the act.
type asyncWaiters struct {
	wg   sync.WaitGroup
	mu   sync.Mutex
	acks []*Ack
}

func (aw *asyncWaiters) start(li *LogInst, s *Sub) {
	aw.wg.Add(1)
	go func() {
		defer aw.wg.Done()
		a := li.WaitAck(context.Background(), s)
		aw.mu.Lock()
		aw.acks = append(aw.acks, a)
		aw.mu.Unlock()
	}()
}

// slowCheckpoint wraps a plan so that the effect of the checkpoint upload is
// delayed at the real suspension point (inside the backend call).
func slowCheckpoint(in *Inst) {
	prev := in.Plan
	in.Plan = func(c *Call) Decision {
		d := decideOK
		if prev != nil {
			d = prev(c)
		}
		if c.Kind == OpUpload && c.Key == "checkpoint" {
			d.Gate = func() {
				for i := 0; i < 20; i++ {
					runtime.Gosched()
				}
				time.Sleep(300 * time.Microsecond)
			}
		}
		return d
	}
}

type c02Case struct {
	Start int        `json:"start"`
	Pool  int        `json:"pool"`
	Dups  int        `json:"dups"`
	Plan  *RoundPlan `json:"plan"`
	Next  *RoundPlan `json:"next_round_crash"`
	// Clock: the serving round runs with the clock stalled at ("stall"), before
	// ("back") or one millisecond after ("plus1") the last committed tree head.
	Clock string `json:"clock,omitempty"`
}

func (c *c02Case) String() string {
	return fmt.Sprintf("start=%d pool=%d dups=%d plan=%s next=%s clock=%s", c.Start, c.Pool, c.Dups, c.Plan.String(), c.Next.String(), c.Clock)
}

func runC02Case(r *Run, bases *baseStates, cc *c02Case) {
	env := bases.envs[cc.Start].Fork()
	env.CaseInfo = func() any { return cc }
	defer env.Cleanup()
	r.Eval(1)
	li, err := env.Load("A", nil)
	if err != nil {
		env.violate("load-of-base-failed", "LoadLog failed: %v", err)
		return
	}
	rng := NewRng(int64(cc.Start*131+cc.Pool), "c02")
	aw := &asyncWaiters{}
	var entries []*ctlog.PendingLogEntry
	for i := 0; i < cc.Pool; i++ {
		e := genEntry(rng, genShapeCheap(rng, cc.Pool))
		entries = append(entries, e)
		aw.start(li, li.Submit(e, false))
	}
	for i := 0; i < cc.Dups && len(entries) > 0; i++ {
		aw.start(li, li.Submit(cloneEntry(entries[rng.Intn(len(entries))]), false)) // duplicate of a pending entry
	}
	simNow.Add(17)
	resume := simNow.Load()
	if lock := env.LockSTH(); lock != nil {
		switch cc.Clock {
		case "stall":
			simNow.Store(lock.Timestamp)
		case "back":
			simNow.Store(lock.Timestamp - int64(1+rng.Intn(3000)))
		case "plus1":
			simNow.Store(lock.Timestamp + 1)
		}
	}
	ps, want := cc.Plan.Install(li.In)
	slowCheckpoint(li.In)
	err, crashed := li.Sequence(want)
	li.In.Plan = nil
	if cc.Clock != "" {
		r.Count("clock_anomaly_rounds:"+cc.Clock, 1)
		simNow.Store(resume + 3)
	}
	r.DistinctKey("ops:" + opsShape(ps.Recorded()))
	if crashed || err != nil {
		li.Abandon()
		aw.wg.Wait()
		for _, a := range aw.acks {
			if a.OK && !a.Zombie {
				env.violate("ack-from-failed-round", "submission %d acknowledged although its round crashed or failed fatally", a.Sub.ID)
			}
		}
	} else {
		aw.wg.Wait()
		// resubmission of acknowledged entries while alive: served from cache
		aw2 := &asyncWaiters{}
		for i := 0; i < cc.Dups && len(entries) > 0; i++ {
			aw2.start(li, li.Submit(cloneEntry(entries[rng.Intn(len(entries))]), false))
		}
		if len(entries) >= 256 {
			// a pool larger than one tile (and than any internal batch size):
			// EVERY entry of it is resubmitted and must be answered with its own leaf
			for _, e := range entries {
				aw2.start(li, li.Submit(cloneEntry(e), false))
			}
			r.Count("large_pool_full_resubmissions", 1)
		}
		// next round: serves resubmissions that were not deduplicated (after a
		// non-fatal failure), and is where the process dies right after the
		// acknowledgements of the first round (at a chosen op).
		for i := 0; i < 2; i++ {
			li.Submit(genEntry(rng, cheapShape(rng)), false)
		}
		simNow.Add(5)
		_, want := cc.Next.Install(li.In)
		li.Sequence(want)
		li.Abandon()
		aw2.wg.Wait()
		aw.acks = append(aw.acks, aw2.acks...)
	}
	nOK := 0
	for _, a := range aw.acks {
		if a.OK && !a.Zombie {
			nOK++
		}
	}
	r.Count("acks_ok", int64(nOK))
	// restart, recover, one more round: acknowledged entries stay
	simNow.Add(5)
	lj, err := env.Load("B", nil)
	if err != nil {
		env.violate("restart-failed", "LoadLog failed after %s: %v", cc.String(), err)
		return
	}
	s := lj.Submit(genEntry(rng, ShapeBlobX509), false)
	simNow.Add(5)
	if err, _ := lj.Sequence(nil); err != nil {
		env.violate("sequencing-stuck-after-recovery", "round after restart failed: %v", err)
	}
	lj.WaitAck(context.Background(), s)
	lj.Abandon()
	env.FinalChecks()
	env.CheckAcks()
	env.CheckAcksFinal()
}

func TestC02Phases(t *testing.T) {
	r := NewRun(t, "C02", "phases")
	r.Rule = "one serving round per case with waiters blocked concurrently in their wait functions (ack instant = world sequence number when the wait function returns; checkpoint upload delayed inside the backend call): every fault placement of the round x {applied, not}, clean rounds with duplicate submissions, and a crash at every op of the following round, then restart; distinct = (start, pool, plan, next-round crash)"
	rng := NewRng(r.Seed, "c02")
	starts := []int{0, 255, 256, 511}
	if thorough() {
		starts = []int{0, 1, 255, 256, 257, 511, 512, 513, 700}
	}
	bases := buildBases(r, rng, starts)
	defer bases.Cleanup()
	var rc c02Case
	if replayCase("C02", "phases", &rc) {
		runC02Case(r, bases, &rc)
		return
	}
	n := 0
	for _, start := range starts {
		for _, pool := range []int{1, 3, 257, 300, 600} {
			if !thorough() && pool >= 257 && !(start == 255 && pool == 257) && !(start == 0 && pool == 300) && !(start == 256 && pool == 600) {
				continue
			}
			var cases []*c02Case
			cases = append(cases, &c02Case{Start: start, Pool: pool, Dups: 2})
			for i := 0; i < 12; i++ {
				for _, ap := range []bool{false, true} {
					cases = append(cases, &c02Case{Start: start, Pool: pool, Dups: i % 2, Plan: &RoundPlan{Faults: []FaultSpec{{Idx: i, Applied: ap, Kind: faultKinds[(i+len(cases))%len(faultKinds)]}}}})
				}
			}
			for i := 0; i < 9; i++ {
				for _, ap := range []bool{false, true} {
					cases = append(cases, &c02Case{Start: start, Pool: pool, Dups: 1, Next: &RoundPlan{Crash: &CrashSpec{Phase: "idx", Idx: i, Applied: ap}}})
				}
			}
			for _, clk := range []string{"stall", "back", "plus1"} {
				cases = append(cases, &c02Case{Start: start, Pool: pool, Dups: 1, Clock: clk})
				cases = append(cases, &c02Case{Start: start, Pool: pool, Clock: clk, Plan: &RoundPlan{Faults: []FaultSpec{{Idx: 2 + len(cases)%4, Applied: true}}}})
			}
			for i := 0; i < pick(3, 12); i++ {
				cases = append(cases, &c02Case{Start: start, Pool: pool, Dups: 1, Next: &RoundPlan{Crash: &CrashSpec{Phase: "tiles", Mask: rng.U64()}}})
				cases = append(cases, &c02Case{Start: start, Pool: pool, Plan: &RoundPlan{Crash: &CrashSpec{Phase: "tiles", Mask: rng.U64()}}})
			}
			for _, cc := range cases {
				n++
				if !mine(n) {
					continue
				}
				runC02Case(r, bases, cc)
				r.DistinctKey(cc.String())
				if n%97 == 0 {
					r.Sample(cc.String())
				}
			}
		}
	}
	if r.Counter("acks_ok") == 0 {
		r.Inconcl("no successful acknowledgement observed")
	}
}

// TestC02Stress: a free-running sequencer against concurrent submitters.
func TestC02Stress(t *testing.T) {
	r := NewRun(t, "C02", "stress")
	r.Rule = "free-running RunSequencer (2 ms period) against 8-24 concurrent submitter goroutines drawing new and duplicate entries, seeded delays inside the checkpoint upload; every acknowledgement is judged against the object store as of its instant and against the final stored leaves; distinct = (round, source label, size mod 256 at ack)"
	rng := NewRng(r.Seed, "c02s")
	reps, per := pick(3, 8), pick(300, 400)
	if raceEnabled {
		reps, per = pick(1, 3), pick(80, 120)
	}
	shard, _ := shardInfo()
	for rep := 0; rep < reps; rep++ {
		runStress(r, rng.Fork(fmt.Sprint(rep, "/", shard)), 8+rng.Intn(17), per, "C02")
	}
}

func runStress(r *Run, rng *Rng, submitters, perSubmitter int, prop string) {
	env := NewLogEnv(r, rng.Fork("env"))
	lowFrac := 0
	if rng.Intn(2) == 0 {
		// bounded pool with low-priority traffic: rate limiting and eviction paths
		env.PoolSize = 2 + rng.Intn(7)
		lowFrac = 40
		r.Count("runs_with_bounded_pool", 1)
	}
	env.NoTruth = true
	env.AuditPub = true
	env.CaseInfo = func() any {
		return map[string]any{"workload": "stress", "submitters": submitters, "per_submitter": perSubmitter}
	}
	defer env.Cleanup()
	simAuto.Store(true)
	defer simAuto.Store(false)
	if err := env.Create(nil); err != nil {
		panic(err)
	}
	li, err := env.Load("S", nil)
	if err != nil {
		panic(err)
	}
	in := li.In
	drng := rng.Fork("delay")
	var dmu sync.Mutex
	in.Plan = func(c *Call) Decision {
		d := decideOK
		if c.Kind == OpUpload && (c.Key == "checkpoint" || c.Kind == OpLockReplace) {
			dmu.Lock()
			n := drng.Intn(400)
			dmu.Unlock()
			d.Gate = func() {
				runtime.Gosched()
				time.Sleep(time.Duration(n) * time.Microsecond)
			}
		}
		return d
	}
	ctx, cancel := context.WithCancel(context.Background())
	seqDone := make(chan error, 1)
	go func() { seqDone <- li.Log.RunSequencer(ctx, 2*time.Millisecond) }()
	// a shared universe so that duplicates hit pool, in-sequencing map and cache
	var umu sync.Mutex
	var universe []*ctlog.PendingLogEntry
	var wg sync.WaitGroup
	for g := 0; g < submitters; g++ {
		grng := rng.Fork(fmt.Sprint("g", g))
		wg.Add(1)
		go func() {
			defer wg.Done()
			for i := 0; i < perSubmitter; i++ {
				var e *ctlog.PendingLogEntry
				umu.Lock()
				if len(universe) > 0 && grng.Intn(3) == 0 {
					e = cloneEntry(universe[grng.Intn(len(universe))])
				} else {
					e = genEntry(grng, cheapShape(grng))
					universe = append(universe, e)
				}
				umu.Unlock()
				s := li.SubmitConcurrent(e, grng.Intn(100) < lowFrac)
				a := li.WaitAck(context.Background(), s)
				if a.OK {
					r.DistinctKey(fmt.Sprintf("%s/%d", s.Source, a.Index%256))
				}
				r.Count("submissions_"+s.Source, 1)
			}
		}()
	}
	wg.Wait()
	cancel()
	<-seqDone
	li.Abandon()
	r.Eval(int64(submitters * perSubmitter))
	env.FinalChecks()
	env.CheckAcks()
	env.CheckAcksFinal()
	checkDedupFinal(env)
	if sth := env.PubSTH(); sth != nil {
		r.Count("final_tree_leaves", sth.Size)
	}
}
