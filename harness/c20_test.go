package verifharness

import (
	"bytes"
	"fmt"
	"os"
	"os/exec"
	"path/filepath"
	"strings"
	"testing"
	"time"

	"filippo.io/sunlight/internal/ctlog"
	"filippo.io/torchwood"
	"golang.org/x/mod/sumdb/note"
)

type c20Break struct {
	Target string `json:"target"` // log:<short> | witness:<origin> | mirror:<origin> | witness-meta | mirror-meta
	Cond   string `json:"cond"`
}

func (b c20Break) String() string { return b.Target + "/" + b.Cond }

// c20State applies breaks to the fixture directories and restores them.
type c20State struct {
	f       *skyFixture
	backups map[string][]byte // path -> original bytes (nil: did not exist)
}

func (s *c20State) save(p string) {
	if _, ok := s.backups[p]; ok {
		return
	}
	b, err := os.ReadFile(p)
	if err != nil {
		s.backups[p] = nil
		return
	}
	s.backups[p] = b
}

func (s *c20State) put(p string, data []byte) {
	s.save(p)
	writeFileForce(p, data)
}

func (s *c20State) del(p string) {
	s.save(p)
	exec.Command("chattr", "-i", p).Run() // LocalBackend sets the immutable inode flag
	if err := os.Remove(p); err != nil && !os.IsNotExist(err) {
		panic(err)
	}
}

func (s *c20State) restore() {
	for p, b := range s.backups {
		if b == nil {
			os.Remove(p)
		} else {
			writeFileForce(p, b)
		}
	}
	s.backups = map[string][]byte{}
}

func TestC20Health(t *testing.T) {
	r := NewRun(t, "C20", "health")
	r.Rule = "one running skylight binary re-reads real directories on every /health request while the harness mutates them: for each log (staging and non-staging), witness checkpoint and mirror checkpoint each condition is broken alone (checkpoint missing / truncated / foreign key / other origin / stale; metadata missing / unparsable; past the read-only date with no / wrong final tree root / size / timestamp / correct final tree; witness.v0.json and mirror.v0.json missing / without keys / with foreign keys; checkpoint under another origin's hash; right-edge tile missing / flipped; mirror ahead of pending; pending unverifiable) and in seeded pairs/triples; oracle: status 200 iff no non-staging condition is broken, failures name the broken entry, healthy entries still report OK, staging breaks are reported as ignored; freshness is wall-clock-proof (fresh = signed one hour ahead, stale = one hour behind); distinct = (break set, status)"
	if _, err := os.Stat(verifBin("skylight")); err != nil {
		r.Inconcl("skylight binary not built: %v", err)
		return
	}
	rng := NewRng(r.Seed, "c20")
	shard, _ := shardInfo()
	rng = rng.Fork(fmt.Sprint(shard))
	f := newSkyFixture(r, rng, []int{270, 40, 20})
	f.Logs[2].Staging = true
	defer f.Stop()
	if err := f.Start(); err != nil {
		r.Inconcl("%v", err)
		return
	}
	st := &c20State{f: f, backups: map[string][]byte{}}
	transportFailed := false
	health := func() (int, string) {
		// a transport error (loaded machine) is not an answer: ask again
		var last string
		for try := 0; try < 6; try++ {
			resp, err := f.Get("any.verif.test", "/health", "verif@harness.test")
			if err == nil && resp.Status != 0 {
				return resp.Status, string(resp.Body)
			}
			if err != nil {
				last = err.Error()
			}
			time.Sleep(200 * time.Millisecond)
		}
		transportFailed = true
		return 0, last
	}
	// sanity: the pristine fixture is healthy
	if code, body := health(); code != 200 {
		r.Inconcl("pristine fixture is not healthy: %d %s", code, truncateStr(body, 400))
		return
	}
	plain, mirrored, pow2 := f.WitLogs[0], f.WitLogs[1], f.WitLogs[2]
	hashOf := func(l *WitLog) string { return fmt.Sprintf("%x", refSHA([]byte(l.Origin))) }
	foreignML := detMLDSA(rng)
	apply := func(b c20Break) (label string, nonStaging bool, readOnlyOK bool, ok bool) {
		kind, name, _ := strings.Cut(b.Target, ":")
		switch kind {
		case "log":
			var l *skyLog
			for _, x := range f.Logs {
				if x.Short == name {
					l = x
				}
			}
			d := l.D
			cpPath := filepath.Join(d.Dir, "checkpoint")
			cur, _ := os.ReadFile(cpPath)
			sth := d.PublishedSTH()
			switch b.Cond {
			case "checkpoint-missing":
				st.del(cpPath)
			case "checkpoint-truncated":
				st.put(cpPath, cur[:len(cur)/2])
			case "checkpoint-foreign-key":
				cfg := *d.Cfg
				cfg.Key = detECDSA(rng)
				cp, _ := ctlog.VerifSignTreeHead(&cfg, sth.Size, sth.Root, time.Now().Add(time.Hour).UnixMilli())
				st.put(cpPath, cp)
			case "checkpoint-other-origin":
				cfg := *d.Cfg
				cfg.Name = d.Name + "-other"
				cp, _ := ctlog.VerifSignTreeHead(&cfg, sth.Size, sth.Root, time.Now().Add(time.Hour).UnixMilli())
				st.put(cpPath, cp)
			case "checkpoint-stale":
				st.put(cpPath, d.freshCheckpoint(-time.Hour))
			case "metadata-missing":
				st.del(filepath.Join(d.Dir, "log.v3.json"))
			case "metadata-unparsable":
				st.put(filepath.Join(d.Dir, "log.v3.json"), []byte("{not json"))
			case "readonly-no-final-tree", "readonly-wrong-root", "readonly-wrong-size", "readonly-wrong-timestamp", "readonly-correct":
				// past the read-only date: the checkpoint may be old, but must equal the final tree
				st.save(filepath.Join(d.Dir, "log.v3.json"))
				old := d.Limit
				d.Limit = time.Now().Add(-30 * 24 * time.Hour)
				stale := d.freshCheckpoint(-time.Hour)
				st.put(cpPath, stale)
				ssth, _ := refVerifyRFC6962Checkpoint(stale, d.Name, d.Key.Public())
				fin := *ssth
				switch b.Cond {
				case "readonly-no-final-tree":
					exec0(func() { d.writeLogJSON(nil) })
				case "readonly-wrong-root":
					fin.Root[0] ^= 1
					exec0(func() { d.writeLogJSON(&fin) })
				case "readonly-wrong-size":
					fin.Size++
					exec0(func() { d.writeLogJSON(&fin) })
				case "readonly-wrong-timestamp":
					fin.Timestamp++
					exec0(func() { d.writeLogJSON(&fin) })
				case "readonly-correct":
					exec0(func() { d.writeLogJSON(&fin) })
				}
				d.Limit = old
				readOnlyOK = b.Cond == "readonly-correct"
			default:
				return "", false, false, false
			}
			return l.Short, !l.Staging, readOnlyOK, true
		case "witness", "mirror":
			l := plain
			run := f.WitRun
			switch name {
			case "mirrored":
				l = mirrored
			case "pow2":
				l, run = pow2, f.WitRun2
			}
			h := hashOf(l)
			root := f.WitDir
			if kind == "mirror" {
				if l == plain {
					return "", false, false, false
				}
				root = filepath.Join(f.WitDir, "mirror")
			}
			cpPath := filepath.Join(root, h, "checkpoint")
			cur, _ := os.ReadFile(cpPath)
			switch b.Cond {
			case "checkpoint-missing":
				st.del(cpPath)
			case "checkpoint-truncated":
				st.put(cpPath, cur[:len(cur)/3])
			case "checkpoint-foreign-key":
				// same text, signatures by a foreign cosigner only
				n, _ := refParseNote(cur)
				name := f.Wit.Name
				if kind == "mirror" {
					name = f.Wit.MirrorName
				}
				fs, _ := torchwood.NewCosignatureSigner(name, foreignML)
				signed, _ := note.Sign(&note.Note{Text: n.Text}, fs)
				st.put(cpPath, signed)
			case "checkpoint-of-other-origin":
				other := plain
				if l == plain {
					other = mirrored
				}
				ob, err := os.ReadFile(filepath.Join(f.WitDir, hashOf(other), "checkpoint"))
				if err != nil || kind == "mirror" {
					return "", false, false, false
				}
				st.put(cpPath, ob)
			case "edge-tile-missing", "edge-tile-flipped":
				if kind != "mirror" {
					return "", false, false, false
				}
				_, msize := run.state()
				// the highest-level right-edge tile: it holds the top hash of the
				// right edge, so every verifying read of the edge needs it
				var top TileCoord
				for _, tc := range refLayout(msize, false) {
					if tc.L >= top.L && tc.L >= 0 {
						top = tc
					}
				}
				tp := refTlogTilePath(top)
				p := filepath.Join(root, h, filepath.FromSlash(tp))
				tb, err := os.ReadFile(p)
				if err != nil {
					return "", false, false, false
				}
				if b.Cond == "edge-tile-missing" {
					st.del(p)
				} else {
					tb = bytes.Clone(tb)
					tb[len(tb)-1] ^= 1
					st.put(p, tb)
				}
			case "mirror-ahead-of-pending":
				if kind != "mirror" {
					return "", false, false, false
				}
				// roll the pending (witness) checkpoint back to an older cosigned one
				if len(l.Commits) < 2 || l == pow2 {
					return "", false, false, false
				}
				st.put(filepath.Join(f.WitDir, h, "checkpoint"), l.Commits[0].Raw)
			case "pending-unverifiable":
				if kind != "mirror" {
					return "", false, false, false
				}
				st.put(filepath.Join(f.WitDir, h, "checkpoint"), []byte("garbage\n"))
			default:
				return "", false, false, false
			}
			return l.Origin, !f.WitStaging, false, true
		case "witness-meta", "mirror-meta":
			p := filepath.Join(f.WitDir, "witness.v0.json")
			if kind == "mirror-meta" {
				p = filepath.Join(f.WitDir, "mirror", "mirror.v0.json")
			}
			switch b.Cond {
			case "missing":
				st.del(p)
			case "no-keys":
				st.put(p, []byte(`{"name":"x","verifier_keys":[]}`))
			case "foreign-keys":
				fs, _ := torchwood.NewCosignatureSigner(f.Wit.Name, foreignML)
				st.put(p, []byte(fmt.Sprintf(`{"verifier_keys":[%q]}`, fs.Verifier().String())))
			case "unparsable":
				st.put(p, []byte("{"))
			default:
				return "", false, false, false
			}
			lbl := "witness"
			if kind == "mirror-meta" {
				lbl = "mirror"
			}
			return lbl, !f.WitStaging, false, true
		}
		return "", false, false, false
	}
	var singles []c20Break
	for _, l := range f.Logs {
		for _, c := range []string{"checkpoint-missing", "checkpoint-truncated", "checkpoint-foreign-key", "checkpoint-other-origin", "checkpoint-stale", "metadata-missing", "metadata-unparsable",
			"readonly-no-final-tree", "readonly-wrong-root", "readonly-wrong-size", "readonly-wrong-timestamp", "readonly-correct"} {
			singles = append(singles, c20Break{"log:" + l.Short, c})
		}
	}
	for _, c := range []string{"checkpoint-missing", "checkpoint-truncated", "checkpoint-foreign-key", "checkpoint-of-other-origin"} {
		singles = append(singles, c20Break{"witness:plain", c}, c20Break{"witness:mirrored", c})
	}
	for _, c := range []string{"checkpoint-missing", "checkpoint-truncated", "checkpoint-foreign-key", "edge-tile-missing", "edge-tile-flipped", "mirror-ahead-of-pending", "pending-unverifiable"} {
		singles = append(singles, c20Break{"mirror:mirrored", c}, c20Break{"mirror:pow2", c})
	}
	for _, c := range []string{"missing", "no-keys", "foreign-keys", "unparsable"} {
		singles = append(singles, c20Break{"witness-meta", c}, c20Break{"mirror-meta", c})
	}
	var cases [][]c20Break
	for _, s := range singles {
		cases = append(cases, []c20Break{s})
	}
	for i := 0; i < pick(150, 3000); i++ {
		k := 2 + rng.Intn(2)
		var set []c20Break
		used := map[string]bool{}
		for len(set) < k {
			b := singles[rng.Intn(len(singles))]
			if used[b.Target] {
				continue
			}
			used[b.Target] = true
			set = append(set, b)
		}
		cases = append(cases, set)
	}
	flipped := map[string]bool{}
	for ci, set := range cases {
		if ci >= len(singles) && !mine(ci) {
			continue
		}
		expectFail := false
		type exp struct {
			label      string
			nonStaging bool
			readOnly   bool
			brk        c20Break
		}
		var exps []exp
		applied := 0
		for _, b := range set {
			label, ns, ro, ok := apply(b)
			if !ok {
				continue
			}
			applied++
			exps = append(exps, exp{label, ns, ro, b})
			if ns && !ro {
				expectFail = true
			}
		}
		if applied == 0 {
			st.restore()
			continue
		}
		code, body := health()
		if transportFailed {
			r.Inconcl("/health could not be reached: %s", truncateStr(body, 200))
			st.restore()
			return
		}
		r.Eval(1)
		info := map[string]any{"breaks": set, "status": code, "body": truncateStr(body, 600)}
		key := fmt.Sprint(set)
		r.DistinctKey(fmt.Sprintf("%s=>%d", key, code))
		want := 200
		if expectFail {
			want = 500
		}
		if code != want {
			id := "health-green-despite-break"
			if want == 200 {
				id = "health-red-without-nonstaging-break"
			}
			r.Violate(id+":"+set[0].Cond, info, "/health answered %d, expected %d with breaks %v", code, want, set)
		}
		for _, e := range exps {
			if len(set) == 1 && code == 500 {
				flipped[e.brk.Cond+"@"+strings.Split(e.brk.Target, ":")[0]] = true
			}
			var line string
			for _, ln := range strings.Split(body, "\n") {
				if strings.Contains(ln, e.label) || strings.Contains(ln, fmt.Sprintf("%x", refSHA([]byte(e.label)))) {
					line = ln
					if !strings.HasSuffix(ln, ": OK") {
						break
					}
				}
			}
			switch {
			case e.readOnly:
				if !strings.Contains(line, "read-only") {
					r.Violate("readonly-not-reported", info, "a log past its read-only date with the correct final tree is reported as %q", line)
				}
			case e.nonStaging:
				// naming is demanded for a single violated condition; in combinations
				// a broader failure (e.g. missing verifier keys) may mask the rest
				if len(set) == 1 && (line == "" || strings.HasSuffix(line, ": OK")) {
					r.Violate("failure-does-not-name-the-log:"+e.brk.Cond, info, "the failure output does not name %s as failing (break %s)", e.label, e.brk)
				}
			default:
				if !strings.Contains(line, "(ignored)") {
					r.Violate("staging-break-not-ignored", info, "a broken staging entry is reported as %q", line)
				}
			}
		}
		// healthy logs still report OK
		broken := map[string]bool{}
		for _, e := range exps {
			broken[e.label] = true
		}
		for _, l := range f.Logs {
			if !broken[l.Short] && !strings.Contains(body, l.Short+": OK") {
				r.Violate("healthy-log-not-ok", info, "healthy log %s is not reported OK", l.Short)
			}
		}
		st.restore()
		if code2, body2 := health(); transportFailed {
			r.Inconcl("/health could not be reached: %s", truncateStr(body2, 200))
			return
		} else if code2 != 200 {
			r.Violate("health-not-restored", info, "after restoring the directories /health is %d: %s", code2, truncateStr(body2, 300))
			return
		}
	}
	for _, s := range singles {
		k := s.Cond + "@" + strings.Split(s.Target, ":")[0]
		if !flipped[k] && s.Cond != "readonly-correct" && !strings.HasPrefix(s.Target, "log:"+f.Logs[2].Short) {
			r.Notes["never_flipped_"+k] = "this condition never turned /health red alone"
		}
	}
	r.Count("conditions_flipped_alone", int64(len(flipped)))
}

func exec0(f func()) { f() }
