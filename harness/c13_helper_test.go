package verifharness

import (
	"context"
	"crypto/sha256"
	"fmt"
	"os"
	"strings"
	"sync"
	"syscall"
	"testing"
	"time"

	"filippo.io/sunlight/internal/ctlog"
)

// TestHelperFS is the strace target: a seeded sequence of LocalBackend uploads
// with BEGIN/END markers written (one write syscall each) to a marker file.
func TestHelperFS(t *testing.T) {
	if os.Getenv("VERIF_HELPER") != "fshelper" {
		t.Skip("helper")
	}
	dir := os.Getenv("VERIF_FS_DIR")
	mf, err := os.OpenFile(os.Getenv("VERIF_FS_MARKERS"), os.O_WRONLY|os.O_CREATE|os.O_APPEND, 0o644)
	if err != nil {
		t.Fatal(err)
	}
	var mmu sync.Mutex
	var moff int64
	if st, err := mf.Stat(); err == nil {
		moff = st.Size()
	}
	mark := func(s string) {
		// pwrite64, not write: the tracer may be injecting errors into write(2)
		mmu.Lock()
		b := []byte("VERIFMARK " + s + "\n")
		syscall.Pwrite(int(mf.Fd()), b, moff)
		moff += int64(len(b))
		mmu.Unlock()
	}
	b, err := ctlog.NewLocalBackend(context.Background(), dir, discardLogger)
	if err != nil {
		if os.Getenv("VERIF_FS_FAULTS") != "" {
			return // an injected error hit the start-up
		}
		t.Fatal(err)
	}
	rng := NewRng(envInt("VERIF_FS_SEED", 1), "fshelper")
	n := int(envInt("VERIF_FS_UPLOADS", 10))
	id := 0
	upload := func(key string, body []byte, imm bool) {
		mmu.Lock()
		id++
		my := id
		mmu.Unlock()
		mark(fmt.Sprintf("BEGIN %d %s %x %v %d", my, key, sha256.Sum256(body), imm, len(body)))
		err := b.Upload(context.Background(), key, body, &ctlog.UploadOptions{Immutable: imm})
		rc := "ok"
		if err != nil {
			rc = "err"
		}
		mark(fmt.Sprintf("END %d %s", my, rc))
	}
	body := func() []byte {
		switch rng.Intn(8) {
		case 0:
			return []byte{}
		case 1:
			return rng.Bytes(4 << 20)
		case 2:
			return rng.Bytes(16384)
		}
		return rng.Bytes(1 + rng.Intn(3000))
	}
	for i := 0; i < n; i++ {
		shape := rng.Intn(6)
		if envInt("VERIF_FS_RACE", 0) != 0 && i%2 == 0 {
			shape = 6
		}
		switch shape {
		case 0: // mutable singleton, overwritten again and again
			upload("checkpoint", append([]byte(fmt.Sprintf("cp-%d-", i)), body()...), false)
		case 1: // immutable key in a new nested directory
			upload(fmt.Sprintf("tile/%d/x%03d/%03d", rng.Intn(3), i, rng.Intn(1000)), body(), true)
		case 2: // immutable key in an existing directory
			upload(fmt.Sprintf("issuer/%064x", rng.U64()), body(), true)
		case 3: // partial tile: directory named like a file plus .p
			upload(fmt.Sprintf("tile/data/%03d.p/%d", i, 1+rng.Intn(255)), body(), true)
		case 4: // the concurrent batch shape of applyStagedUploads
			var wg sync.WaitGroup
			for j := 0; j < 2+rng.Intn(4); j++ {
				key := fmt.Sprintf("tile/%d/b%03d/%03d", j%2, i, j)
				bd := body()
				wg.Add(1)
				go func() {
					defer wg.Done()
					upload(key, bd, true)
				}()
			}
			wg.Wait()
		case 6: // many goroutines into ONE brand-new directory (mkdir race)
			var wg sync.WaitGroup
			for j := 0; j < 8; j++ {
				key := fmt.Sprintf("tile/3/n%03d/%03d", i, j)
				bd := rng.Bytes(1 + rng.Intn(200))
				wg.Add(1)
				go func() {
					defer wg.Done()
					time.Sleep(time.Duration(j) * 2 * time.Millisecond) // the first goroutine creates the directory
					upload(key, bd, true)
				}()
			}
			wg.Wait()
		case 5: // second mutable key
			upload("_roots.pem", body(), false)
		}
	}
	_ = strings.TrimSpace
}
