// Package verifharness is the runtime-monitoring harness for the properties in
// /verif/properties.jsonl. See /verif/DESIGN.md.
package verifharness
