package verifharness

import (
	"bytes"
	"context"
	"encoding/json"
	"fmt"
	"net/http/httptest"
	"runtime"
	"strings"
	"sync"
	"testing"
	"time"

	"filippo.io/sunlight/internal/ctlog"
)

// TestC17HTTP: the status mapping of the admission outcomes over the real
// handler: full pool => 503 + Retry-After for low priority, eviction => 503 +
// Retry-After for exactly one pending low-priority request, read-only => 410.
func TestC17HTTP(t *testing.T) {
	r := NewRun(t, "C17", "http")
	r.Rule = "real HTTP handler with a bounded pool (size 2-4) and a slow sequencer (real time): the pool is filled with low-priority precertificates (NotBefore older than 48 h), further low-priority and high-priority chains are posted, then the shard end + 7 days passes; oracle on statuses and headers: low into a full pool => 503 with Retry-After; high with a pending low => 200 and exactly one pending low-priority request is answered 503 with Retry-After and never sequenced; after the read-only instant pending and new submissions => 410 and the tree stops growing; distinct = (pool size, scenario step, status)"
	rng := NewRng(r.Seed, "c17h")
	reps := pick(2, 12)
	for rep := 0; rep < reps; rep++ {
		if !mine(rep) {
			continue
		}
		runC17HTTP(r, rng.Fork(fmt.Sprint(rep)), 2+rng.Intn(3))
	}
}

func runC17HTTP(r *Run, rng *Rng, poolSize int) {
	env := NewLogEnv(r, rng.Fork("env"))
	now := time.Now()
	// read-only instant (limit + 7 days) lies 6 s in the future
	env.NotAfterLimit = now.Add(6000 * time.Millisecond).Add(-ctlog.ReadOnlyAfter)
	env.NotAfterStart = env.NotAfterLimit.Add(-400 * 24 * time.Hour)
	env.PoolSize = poolSize
	env.NoTruth = true
	env.AuditPub = true
	info := map[string]any{"workload": "http-admission", "pool_size": poolSize}
	env.CaseInfo = func() any { return info }
	defer env.Cleanup()
	simAuto.Store(true)
	defer simAuto.Store(false)
	if err := env.Create(nil); err != nil {
		panic(err)
	}
	li, err := env.Load("H", nil)
	if err != nil {
		panic(err)
	}
	root := makeCA(rng, "c17 root", nil)
	if err := li.Log.SetRootsFromPEM(context.Background(), pemOf(root)); err != nil {
		panic(err)
	}
	ctx, cancel := context.WithCancel(context.Background())
	defer cancel()
	seqDone := make(chan error, 1)
	seqFinished := make(chan struct{})
	go func() {
		err := li.Log.RunSequencer(ctx, 2500*time.Millisecond)
		close(seqFinished)
		seqDone <- err
	}()
	defer func() {
		// the cache is closed only once the sequencer loop has returned
		cancel()
		select {
		case <-seqFinished:
		case <-time.After(60 * time.Second):
		}
		li.Abandon()
	}()
	h := li.Log.Handler()
	type res struct {
		code  int
		retry string
		at    time.Duration
		body  string
	}
	var rngMu sync.Mutex
	mkBody := func(low bool, id int64) (string, []byte) {
		sp := leafSpec{NotAfter: env.NotAfterLimit.Add(-24 * time.Hour), EKU: "server"}
		ep := "add-chain"
		if low {
			sp.Poison = "ok" // precertificate whose NotBefore is months old: low priority
			ep = "add-pre-chain"
		}
		rngMu.Lock()
		leaf := makeLeaf(rng, id, root, sp)
		rngMu.Unlock()
		body, _ := json.Marshal(map[string]any{"chain": [][]byte{leaf.DER}})
		return ep, body
	}
	postBody := func(ep string, body []byte) res {
		req := httptest.NewRequest("POST", "/ct/v1/"+ep, bytes.NewReader(body))
		rec := httptest.NewRecorder()
		h.ServeHTTP(rec, req)
		return res{rec.Code, rec.Header().Get("Retry-After"), time.Since(now), truncateStr(rec.Body.String(), 80)}
	}
	post := func(low bool, id int64) res {
		ep, body := mkBody(low, id)
		return postBody(ep, body)
	}
	r.Eval(1)
	// any sequencing round (tick) between here and the end of step 3 rotates
	// the pool under the scenario: it is then skipped, not judged
	ticksAtStart := r.Counter("lock_commits")
	overtaken := func() bool {
		if r.Counter("lock_commits") != ticksAtStart {
			r.Count("scenario_overtaken_by_tick", 1)
			return true
		}
		return false
	}
	var mu sync.Mutex
	var lows []res
	dups := map[int]res{} // second submitter of the same pending low-priority chain
	firsts := map[int]res{}
	var wg sync.WaitGroup
	// 1. fill the pool with low-priority submissions (they block until sequenced or evicted)
	bodies := make([][]byte, poolSize)
	for i := 0; i < poolSize; i++ {
		_, bodies[i] = mkBody(true, int64(1000+i))
		wg.Add(1)
		go func() {
			defer wg.Done()
			x := postBody("add-pre-chain", bodies[i])
			mu.Lock()
			lows = append(lows, x)
			firsts[i] = x
			mu.Unlock()
		}()
	}
	// wait (logically, not by the clock) until all fillers sit in their wait function
	admitted := func() int {
		buf := make([]byte, 1<<20)
		buf = buf[:runtime.Stack(buf, true)]
		return strings.Count(string(buf), "ctlog.(*Log).addLeafToPool.func")
	}
	for i := 0; i < 400 && admitted() < poolSize; i++ {
		time.Sleep(5 * time.Millisecond)
	}
	if admitted() < poolSize {
		r.Inconcl("pool fillers were not admitted in time (%d of %d)", admitted(), poolSize)
		cancel()
		wg.Wait()
		return
	}
	// 1b. every pending chain gets a second, concurrent submitter (a duplicate
	// waits on the same pool entry and shares its fate, eviction included)
	for i := 0; i < poolSize; i++ {
		wg.Add(1)
		go func() {
			defer wg.Done()
			x := postBody("add-pre-chain", bodies[i])
			mu.Lock()
			dups[i] = x
			mu.Unlock()
		}()
	}
	for i := 0; i < 400 && admitted() < 2*poolSize; i++ {
		time.Sleep(5 * time.Millisecond)
	}
	if admitted() < 2*poolSize {
		r.Inconcl("duplicate submitters did not reach their wait function in time (%d of %d)", admitted(), 2*poolSize)
		cancel()
		wg.Wait()
		return
	}
	// 2. one more low-priority submission: rate limited at once
	x := post(true, 2000)
	if overtaken() {
		cancel()
		wg.Wait()
		return
	}
	r.DistinctKey(fmt.Sprintf("%d/low-into-full/%d", poolSize, x.code))
	if x.code == 410 || time.Since(now) > 5600*time.Millisecond {
		// the read-only instant (wall clock, 6 s after the start) overtook the
		// scenario on a loaded machine: nothing to judge
		r.Count("scenario_overtaken_by_readonly_instant", 1)
		cancel()
		wg.Wait()
		return
	}
	if x.code != 503 || x.retry == "" {
		env.violate("low-priority-into-full-pool-status", "low-priority submission into a full pool answered %d (Retry-After %q)", x.code, x.retry)
	}
	// 3. a high-priority submission: admitted, evicting exactly one pending low
	var high res
	wg.Add(1)
	go func() { defer wg.Done(); high = post(false, 3000) }()
	// the high-priority request must be in the pool before the tick
	for i := 0; i < 400 && admitted() < 2*poolSize; i++ {
		time.Sleep(5 * time.Millisecond)
	}
	midRounds := r.Counter("lock_commits")
	lateForReadOnly := time.Since(now) > 5600*time.Millisecond
	wg.Wait()
	if lateForReadOnly {
		r.Count("scenario_overtaken_by_readonly_instant", 1)
		return
	}
	if midRounds != ticksAtStart {
		// a tick rotated the pool in the middle of the scenario (loaded machine): not a verdict
		r.Count("scenario_overtaken_by_tick", 1)
		return
	}
	r.DistinctKey(fmt.Sprintf("%d/high-evicting/%d", poolSize, high.code))
	if high.code != 200 {
		env.violate("high-priority-not-admitted", "high-priority submission with low-priority entries pending answered %d: %s", high.code, high.body)
	}
	ev, ok := 0, 0
	for _, l := range lows {
		switch l.code {
		case 503:
			ev++
			if l.retry == "" {
				env.violate("evicted-without-retry-after", "evicted submission answered 503 without Retry-After")
			}
		case 200:
			ok++
		default:
			env.violate("pending-low-priority-status", "pending low-priority submission answered %d", l.code)
		}
	}
	for i := 0; i < poolSize; i++ {
		f, d := firsts[i], dups[i]
		r.DistinctKey(fmt.Sprintf("%d/duplicate-of-pending/first=%d/dup=%d", poolSize, f.code, d.code))
		if f.code != d.code {
			env.violate("duplicate-submitter-other-status", "two concurrent submitters of one pending low-priority chain were answered %d and %d (%s)", f.code, d.code, d.body)
		}
		if d.code == 503 && d.retry == "" {
			env.violate("evicted-without-retry-after", "the second submitter of an evicted chain was answered 503 without Retry-After")
		}
	}
	r.DistinctKey(fmt.Sprintf("%d/evicted=%d", poolSize, ev))
	if ev != 1 || ok != poolSize-1 {
		env.violate("eviction-count-http", "of %d pending low-priority requests %d were answered 503 and %d 200 (want 1 and %d)", poolSize, ev, ok, poolSize-1)
	}
	if sth := env.PubSTH(); sth == nil || sth.Size != int64(poolSize) {
		env.violate("tree-size-after-eviction", "tree holds %v leaves after a round of a pool of %d with one eviction", sth, poolSize)
	}
	// 4. after the read-only instant: pending and new submissions get 410
	time.Sleep(time.Until(now.Add(7700 * time.Millisecond)))
	select {
	case err := <-seqDone:
		var se ctlog.SunsetLogError
		if !asSunset(err, &se) {
			env.violate("readonly-sequencer-error", "sequencer stopped with %v at the read-only date", err)
		}
	case <-time.After(20 * time.Second):
		env.violate("sequencer-still-running-after-readonly", "sequencer did not stop after the read-only instant")
	}
	before := env.PubSTH()
	for _, low := range []bool{true, false} {
		y := post(low, 4000)
		r.DistinctKey(fmt.Sprintf("%d/after-readonly/%d", poolSize, y.code))
		if y.code != 410 {
			env.violate("readonly-status", "submission after the read-only date answered %d: %s", y.code, y.body)
		}
	}
	if after := env.PubSTH(); before != nil && after != nil && after.Size != before.Size {
		env.violate("checkpoint-signed-after-stop", "tree grew after the read-only date")
	}
	r.Count("http_admission_scenarios", 1)
}

func asSunset(err error, se *ctlog.SunsetLogError) bool {
	for err != nil {
		if s, ok := err.(ctlog.SunsetLogError); ok {
			*se = s
			return true
		}
		u, ok := err.(interface{ Unwrap() error })
		if !ok {
			return false
		}
		err = u.Unwrap()
	}
	return false
}
