package verifharness

import (
	"bytes"
	"context"
	"crypto"
	"crypto/sha256"
	"crypto/x509"
	"fmt"
	"net/http"
	"net/http/httptest"
	"os"
	"path/filepath"
	"strings"
	"sync"
	"sync/atomic"
	"testing"
	"time"

	"filippo.io/sunlight"
	"filippo.io/sunlight/internal/ctlog"
	"golang.org/x/mod/sumdb/tlog"
)

type c12Log struct {
	env   *LogEnv
	objs  map[string][]byte
	truth []*RefEntry
	sth   *RefSTH
	cp    []byte
}

type c12Server struct {
	srv  *httptest.Server
	cur  atomic.Pointer[map[string][]byte]
	hits atomic.Int64
}

func newC12Server() *c12Server {
	s := &c12Server{}
	s.srv = httptest.NewServer(http.HandlerFunc(func(w http.ResponseWriter, r *http.Request) {
		s.hits.Add(1)
		m := s.cur.Load()
		key := strings.TrimPrefix(r.URL.Path, "/")
		b, ok := (*m)[key]
		if !ok {
			http.NotFound(w, r)
			return
		}
		if strings.HasPrefix(key, "tile/data/") || strings.HasPrefix(key, "tile/names/") {
			w.Header().Set("Content-Encoding", "gzip")
		}
		w.Write(b)
	}))
	return s
}

func buildC12Log(r *Run, rng *Rng, size int) *c12Log {
	bs := buildBases(r, rng, []int{size})
	env := bs.envs[size]
	l := &c12Log{env: env, objs: map[string][]byte{}}
	for _, k := range env.W.Keys() {
		b, _ := env.W.Get(k)
		l.objs[k] = b
	}
	env.mu.Lock()
	l.truth = append([]*RefEntry(nil), env.Truth...)
	env.mu.Unlock()
	l.sth = env.PubSTH()
	l.cp = l.objs["checkpoint"]
	return l
}

type c12Tamper struct {
	Kind string `json:"kind"`
	Key  string `json:"key"`
	Arg  int    `json:"arg"`
}

func coveredEqual(e *sunlight.LogEntry, t *RefEntry) bool {
	return e.IsPrecert == t.IsPrecert && bytes.Equal(e.Certificate, t.Cert) && e.Timestamp == t.Timestamp && e.LeafIndex == t.LeafIndex &&
		(!t.IsPrecert || e.IssuerKeyHash == t.IssuerKeyHash)
}

// applyC12Tamper returns the overridden object map (copy-on-write).
func applyC12Tamper(rng *Rng, l *c12Log, other *c12Log, tm *c12Tamper) map[string][]byte {
	m := make(map[string][]byte, len(l.objs)+2)
	for k, v := range l.objs {
		m[k] = v
	}
	var keys []string
	class := "hash"
	switch tm.Kind {
	case "data-flip-payload", "data-truncate-payload", "data-swap", "data-reorder", "data-alter-uncovered", "data-alter-timestamp", "data-alter-index", "data-alter-and-fix-level0", "data-flip-compressed", "data-other-log", "data-delete", "data-duplicate-entry", "data-retype", "data-append-entry", "data-append-junk", "data-extra-gzip-member":
		class = "data"
	}
	for k := range l.objs {
		if keyClass(k) == class {
			keys = append(keys, k)
		}
	}
	if len(keys) == 0 {
		return nil
	}
	sortStrings(keys)
	key := keys[tm.Arg%len(keys)]
	tm.Key = key
	cur := l.objs[key]
	t, _ := refParseTilePath(key)
	reencode := func(es []*RefEntry) []byte {
		var raw []byte
		for _, e := range es {
			raw = refTileLeaf(raw, e)
		}
		return refGzip(raw)
	}
	decode := func() []*RefEntry {
		raw, err := refGunzip(cur)
		if err != nil {
			return nil
		}
		es, _ := refDecodeDataTile(raw, t.W)
		out := make([]*RefEntry, len(es))
		for i, e := range es {
			c := *e
			out[i] = &c
		}
		return out
	}
	switch tm.Kind {
	case "hash-flip":
		b := bytes.Clone(cur)
		b[rng.Intn(len(b))] ^= 1 << uint(rng.Intn(8))
		m[key] = b
	case "hash-truncate":
		m[key] = bytes.Clone(cur[:rng.Intn(len(cur))])
	case "hash-swap", "data-swap":
		o := keys[(tm.Arg+1+rng.Intn(len(keys)))%len(keys)]
		if o == key {
			return nil
		}
		m[key], m[o] = l.objs[o], cur
	case "hash-other-log", "data-other-log":
		if other == nil || other.objs[key] == nil {
			return nil
		}
		m[key] = other.objs[key]
	case "hash-delete", "data-delete":
		delete(m, key)
	case "data-flip-payload":
		raw, _ := refGunzip(cur)
		raw[rng.Intn(len(raw))] ^= 1 << uint(rng.Intn(8))
		m[key] = refGzip(raw)
	case "data-truncate-payload":
		raw, _ := refGunzip(cur)
		m[key] = refGzip(raw[:rng.Intn(len(raw))])
	case "data-flip-compressed":
		b := bytes.Clone(cur)
		b[10+rng.Intn(len(b)-10)] ^= 1 << uint(rng.Intn(8))
		m[key] = b
	case "data-reorder":
		es := decode()
		if len(es) < 2 {
			return nil
		}
		i := rng.Intn(len(es) - 1)
		es[i], es[i+1] = es[i+1], es[i]
		m[key] = reencode(es)
	case "data-duplicate-entry":
		es := decode()
		if len(es) < 2 {
			return nil
		}
		i := rng.Intn(len(es) - 1)
		es[i+1] = es[i]
		m[key] = reencode(es)
	case "data-alter-uncovered":
		es := decode()
		e := es[rng.Intn(len(es))]
		if e.IsPrecert && rng.Bool() {
			e.PreCert = append(bytes.Clone(e.PreCert), 'x')
		} else {
			e.Fingerprints = append(e.Fingerprints, Hash{1, 2, 3})
		}
		m[key] = reencode(es)
	case "data-alter-timestamp":
		es := decode()
		es[rng.Intn(len(es))].Timestamp += int64(1 + rng.Intn(5))
		m[key] = reencode(es)
	case "data-alter-index":
		es := decode()
		es[rng.Intn(len(es))].LeafIndex += int64(1 + rng.Intn(3))
		m[key] = reencode(es)
	case "data-append-entry":
		// a further well-formed leaf after the W entries of the tile
		raw, _ := refGunzip(cur)
		extra := refTileLeaf(nil, &RefEntry{Timestamp: 1, Cert: rng.Bytes(12), LeafIndex: t.N*256 + int64(t.W)})
		m[key] = refGzip(append(raw, extra...))
	case "data-append-junk":
		raw, _ := refGunzip(cur)
		m[key] = refGzip(append(raw, rng.Bytes(1+rng.Intn(30))...))
	case "data-extra-gzip-member":
		// a second gzip member holding other entries, concatenated
		es := decode()
		if len(es) == 0 {
			return nil
		}
		es[0].Cert = append(bytes.Clone(es[0].Cert), 1)
		m[key] = append(bytes.Clone(cur), reencode(es[:1])...)
	case "data-retype":
		// the same certificate bytes presented under the other entry type: an
		// x509 leaf as a precert_entry with a forged issuer key hash and an empty
		// (or non-empty) pre_certificate, or a precertificate as an x509 leaf
		es := decode()
		e := es[rng.Intn(len(es))]
		if e.IsPrecert {
			e.IsPrecert, e.IssuerKeyHash, e.PreCert = false, [32]byte{}, nil
		} else {
			e.IsPrecert = true
			copy(e.IssuerKeyHash[:], rng.Bytes(32))
			if rng.Bool() {
				e.PreCert = rng.Bytes(1 + rng.Intn(20))
			} else {
				e.PreCert = nil
			}
		}
		m[key] = reencode(es)
	case "data-alter-and-fix-level0":
		es := decode()
		i := rng.Intn(len(es))
		if rng.Bool() {
			es[i].Timestamp++
		} else {
			es[i].Cert = append(bytes.Clone(es[i].Cert), 0)
		}
		m[key] = reencode(es)
		hk := refTilePath(TileCoord{0, t.N, t.W})
		if hb, ok := l.objs[hk]; ok {
			hb = bytes.Clone(hb)
			h := refLeafHash(refMerkleTreeLeaf(es[i]))
			copy(hb[32*i:], h[:])
			m[hk] = hb
		}
	default:
		return nil
	}
	return m
}

func sortStrings(s []string) {
	for i := 1; i < len(s); i++ {
		for j := i; j > 0 && s[j] < s[j-1]; j-- {
			s[j], s[j-1] = s[j-1], s[j]
		}
	}
}

func refSCT(logID [32]byte, ts int64, ext []byte, sig []byte) []byte {
	b := []byte{0}
	b = append(b, logID[:]...)
	b = putU64(b, uint64(ts))
	b = putU16(b, len(ext))
	b = append(b, ext...)
	return append(b, sig...)
}

func TestC12Client(t *testing.T) {
	r := NewRun(t, "C12", "client")
	r.Rule = "ground-truth logs rendered by the real sequencer at sizes {1,2,255,256,257,511,513,700} served by an adversarial HTTP server (every fourth case through a gzip+file:// directory instead) with one tampering per case (hash tile: flip/truncate/swap/other log/delete; data tile: payload flip, truncation, compressed-byte flip, swap, other log, delete, reorder, duplicate entry, uncovered-field edit, timestamp/index edit, edit with recomputed level-0 tile) and read through Entries/AllEntries from start in {0,1,255,256,N-1,N}, Entry(i), CheckInclusion(valid and altered SCTs), Checkpoint(variants); oracle: every yielded/returned entry equals the ground truth in all Merkle-covered fields; distinct = (size, tamper kind, call, outcome)"
	rng := NewRng(r.Seed, "c12")
	shard, shards := shardInfo()
	sizes := []int{1, 2, 255, 256, 257, 511, 513, 700}
	srv := newC12Server()
	defer srv.srv.Close()
	kinds := []string{"none", "hash-flip", "hash-truncate", "hash-swap", "hash-other-log", "hash-delete", "data-flip-payload", "data-truncate-payload", "data-swap", "data-other-log", "data-delete",
		"data-reorder", "data-duplicate-entry", "data-alter-uncovered", "data-alter-timestamp", "data-alter-index", "data-alter-and-fix-level0", "data-flip-compressed", "data-retype", "data-retype", "data-append-entry", "data-append-junk", "data-extra-gzip-member"}
	for si, size := range sizes {
		if si%shards != shard {
			continue
		}
		l := buildC12Log(r, rng.Fork(fmt.Sprint("log", size)), size)
		other := buildC12Log(r, rng.Fork(fmt.Sprint("other", size)), size)
		tree := tlog.Tree{N: l.sth.Size, Hash: tlog.Hash(l.sth.Root)}
		cl, err := sunlight.NewClient(&sunlight.ClientConfig{MonitoringPrefix: srv.srv.URL, PublicKey: l.env.Key.Public(), UserAgent: "verif-harness (verif@harness.test)", Timeout: 250 * time.Millisecond})
		if err != nil {
			t.Fatal(err)
		}
		// positive controls (untampered log, valid SCT, the log's own checkpoint)
		// must succeed: they use a patient client so that a loaded machine cannot
		// turn a slow answer into a refusal
		patient, err := sunlight.NewClient(&sunlight.ClientConfig{MonitoringPrefix: srv.srv.URL, PublicKey: l.env.Key.Public(), UserAgent: "verif-harness (verif@harness.test)", Timeout: 30 * time.Second})
		if err != nil {
			t.Fatal(err)
		}
		checkYield := func(call string, tm *c12Tamper, i int64, e *sunlight.LogEntry) bool {
			r.Count("entries_yielded", 1)
			if i < 0 || i >= int64(len(l.truth)) {
				r.Violate("yield-out-of-range", map[string]any{"size": size, "tamper": tm, "call": call}, "%s yielded index %d of a tree of size %d", call, i, size)
				return false
			}
			if !coveredEqual(e, l.truth[i]) {
				r.Violate("unauthenticated-entry-yielded:"+tm.Kind, map[string]any{"size": size, "tamper": tm, "call": call, "index": i}, "%s returned an entry at index %d that differs from the leaf the tree head commits to (tamper %s on %s)", call, i, tm.Kind, tm.Key)
				return false
			}
			le := logEntryToRef(e)
			if !le.Equal(l.truth[i]) {
				r.Count("harmless_uncovered_difference_passed", 1)
			}
			return true
		}
		reps := pick(24, 420)
		for _, kind := range kinds {
			for rep := 0; rep < reps; rep++ {
				if kind == "none" && rep > 2 {
					break
				}
				if kind == "data-flip-compressed" && rep > reps/7 {
					break // each costs a client timeout
				}
				tm := &c12Tamper{Kind: kind, Arg: rng.Intn(1 << 20)}
				m := l.objs
				if kind != "none" {
					m = applyC12Tamper(rng, l, other, tm)
					if m == nil {
						continue
					}
				}
				srv.cur.Store(&m)
				r.Eval(1)
				client := cl
				mode := "http"
				if rep%4 == 3 {
					// the same objects through the gzip+file:// reader
					fdir, _ := os.MkdirTemp(scratchRoot(), "c12fs-")
					for k, v := range m {
						p := filepath.Join(fdir, filepath.FromSlash(k))
						os.MkdirAll(filepath.Dir(p), 0o755)
						os.WriteFile(p, v, 0o644)
					}
					fc, err := sunlight.NewClient(&sunlight.ClientConfig{MonitoringPrefix: "gzip+file://" + fdir, PublicKey: l.env.Key.Public()})
					if err == nil {
						client, mode = fc, "file"
					}
					defer os.RemoveAll(fdir)
				}
				cl := client
				ctx, cancel := context.WithTimeout(context.Background(), 2*time.Second)
				if kind == "none" {
					cancel()
					ctx, cancel = context.WithTimeout(context.Background(), 90*time.Second)
					if mode == "http" {
						cl = patient
					}
				}
				starts := []int64{0, 1, 255, 256, int64(size) - 1, int64(size)}
				start := starts[rng.Intn(len(starts))]
				if start > int64(size) {
					start = 0
				}
				all := rng.Bool()
				call := "Entries"
				it := cl.Entries(ctx, tree, start)
				if all {
					call = "AllEntries"
					it = cl.AllEntries(ctx, tree, start)
				}
				n := 0
				next := start
				for i, e := range it {
					if i != next {
						r.Violate("yield-order", map[string]any{"size": size, "tamper": tm, "call": call}, "%s yielded index %d, expected %d", call, i, next)
						break
					}
					next++
					n++
					if !checkYield(call, tm, i, e) {
						break
					}
				}
				errd := cl.Err() != nil
				if kind == "none" {
					if errd {
						r.Violate("pristine-log-unreadable", map[string]any{"size": size, "call": call, "start": start}, "%s from %d failed on the untampered log: %v", call, start, cl.Err())
					}
					if all && next != int64(size) {
						r.Violate("pristine-log-incomplete", map[string]any{"size": size, "call": call, "start": start}, "AllEntries from %d stopped at %d of %d", start, next, size)
					}
				}
				r.DistinctKey(fmt.Sprintf("%d/%s/%s/%s/err=%v/yielded>0=%v", size, kind, mode, call, errd, n > 0))
				r.Count("cases_"+mode, 1)
				// Entry(i)
				for k := 0; k < 3; k++ {
					idx := int64(rng.Intn(size))
					e, _, err := cl.Entry(ctx, tree, idx)
					if err == nil {
						if e.LeafIndex != idx {
							r.Violate("entry-wrong-index", map[string]any{"size": size, "tamper": tm}, "Entry(%d) returned an entry with index %d", idx, e.LeafIndex)
						}
						checkYield("Entry", tm, idx, e)
					} else if kind == "none" {
						r.Violate("pristine-log-unreadable", map[string]any{"size": size, "call": "Entry", "index": idx}, "Entry(%d) failed on the untampered log: %v", idx, err)
					}
					r.DistinctKey(fmt.Sprintf("%d/%s/Entry/err=%v", size, kind, err != nil))
				}
				cancel()
			}
		}
		// SCT inclusion checks against the pristine and a tampered server
		c12SCTs(r, rng, l, cl, patient, srv, tree, size)
		c12Checkpoints(r, rng, l, other, cl, patient, srv, size)
		l.env.Cleanup()
		other.env.Cleanup()
	}
}

func c12SCTs(r *Run, rng *Rng, l *c12Log, cl, patient *sunlight.Client, srv *c12Server, tree tlog.Tree, size int) {
	cfg := &ctlog.Config{Key: l.env.Key}
	m := l.objs
	srv.cur.Store(&m)
	n := pick(12, 200)
	for k := 0; k < n; k++ {
		i := int64(rng.Intn(size))
		j := int64(rng.Intn(size))
		e := l.truth[i]
		sigOf := func(x *RefEntry) []byte {
			s, err := ctlog.VerifDigitallySign(cfg, refMerkleTreeLeaf(x))
			if err != nil {
				panic(err)
			}
			return s
		}
		ext := refExtensions(e)
		type variant struct {
			name string
			sct  []byte
		}
		sig := sigOf(e)
		badID := l.env.LogID
		badID[3] ^= 1
		flipSig := bytes.Clone(sig)
		flipSig[len(flipSig)-3] ^= 4
		vs := []variant{
			{"valid", refSCT(l.env.LogID, e.Timestamp, ext, sig)},
			{"log-id", refSCT(badID, e.Timestamp, ext, sig)},
			{"timestamp+1", refSCT(l.env.LogID, e.Timestamp+1, ext, sig)},
			{"signature-flip", refSCT(l.env.LogID, e.Timestamp, ext, flipSig)},
			{"index-of-other", refSCT(l.env.LogID, e.Timestamp, refExtensions(l.truth[j]), sig)},
			{"sct-of-other-with-this-index", refSCT(l.env.LogID, l.truth[j].Timestamp, ext, sigOf(l.truth[j]))},
			{"unknown-ext-then-index", refSCT(l.env.LogID, e.Timestamp, append([]byte{9, 0, 1, 7}, ext...), sig)},
			{"no-extension", refSCT(l.env.LogID, e.Timestamp, nil, sig)},
			{"trailing-byte", append(refSCT(l.env.LogID, e.Timestamp, ext, sig), 0)},
			{"version-1", append([]byte{1}, refSCT(l.env.LogID, e.Timestamp, ext, sig)[1:]...)},
		}
		for _, v := range vs {
			ctx, cancel := context.WithTimeout(context.Background(), time.Second)
			ccl := cl
			if v.name == "valid" {
				cancel()
				ctx, cancel = context.WithTimeout(context.Background(), 90*time.Second)
				ccl = patient
			}
			got, _, err := ccl.CheckInclusion(ctx, tree, v.sct)
			cancel()
			r.Eval(1)
			r.DistinctKey(fmt.Sprintf("%d/sct/%s/ok=%v", size, v.name, err == nil))
			info := map[string]any{"size": size, "variant": v.name, "i": i, "j": j}
			if v.name == "valid" && err != nil {
				r.Violate("valid-sct-refused", info, "CheckInclusion refused a valid SCT: %v", err)
			}
			if err != nil {
				r.Count("sct_refused", 1)
				continue
			}
			r.Count("sct_confirmed", 1)
			// independent judgement of the SCT bytes against the truth
			if msg := refJudgeSCT(v.sct, l, got); msg != "" {
				r.Violate("sct-confirmed-wrongly:"+v.name, info, "CheckInclusion confirmed an SCT that does not match the authentic leaf: %s", msg)
			}
		}
	}
}

// refJudgeSCT parses the SCT independently and checks it against the truth.
func refJudgeSCT(sct []byte, l *c12Log, got *sunlight.LogEntry) string {
	rd := &rdr{b: sct}
	ver := rd.u(1)
	id := rd.take(32)
	tsb := rd.take(8)
	ext := rd.vec(2)
	if rd.err != nil {
		return "SCT does not parse"
	}
	sig := rd.b
	// DigitallySigned: hash(1) sig(1) opaque<0..2^16-1>; bytes after it are not
	// part of the SCT fields the property names (log id, timestamp, index,
	// signature), so they are ignored here as well.
	if len(sig) >= 4 {
		if l := 4 + (int(sig[2])<<8 | int(sig[3])); l <= len(sig) {
			sig = sig[:l]
		}
	}
	if ver != 0 {
		return "version is not v1"
	}
	if !bytes.Equal(id, l.env.LogID[:]) {
		return "log id differs"
	}
	ts := int64(0)
	for _, c := range tsb {
		ts = ts<<8 | int64(c)
	}
	// leaf_index: first extension of type 0
	idx := int64(-1)
	er := &rdr{b: ext}
	for len(er.b) > 0 && er.err == nil {
		typ := er.u(1)
		data := er.vec(2)
		if er.err == nil && typ == 0 && len(data) == 5 {
			idx = int64(data[0])<<32 | int64(data[1])<<24 | int64(data[2])<<16 | int64(data[3])<<8 | int64(data[4])
			break
		}
	}
	if idx < 0 || idx >= int64(len(l.truth)) {
		return "no usable leaf_index"
	}
	t := l.truth[idx]
	if !t.Archival && t.LeafIndex != idx {
		return fmt.Sprintf("the SCT claims leaf index %d but the authentic leaf at that position carries index %d", idx, t.LeafIndex)
	}
	if t.Timestamp != ts {
		return fmt.Sprintf("timestamp %d is not the leaf's %d", ts, t.Timestamp)
	}
	if err := refVerifySCT(l.env.Key.Public(), t, sig); err != nil {
		return "signature does not verify over the authentic leaf: " + err.Error()
	}
	if got != nil && !coveredEqual(got, t) {
		return "returned entry differs from the authentic leaf"
	}
	return ""
}

func c12Checkpoints(r *Run, rng *Rng, l *c12Log, other *c12Log, cl, patient *sunlight.Client, srv *c12Server, size int) {
	cfg := l.env.config(NewInst(l.env.W, "signer"))
	sign := func(name string, foreignKey bool, n int64, root Hash, ts int64) []byte {
		c := *cfg
		if name != "" {
			c.Name = name
		}
		if foreignKey {
			c.Key = other.env.Key
		}
		cp, err := ctlog.VerifSignTreeHead(&c, n, root, ts)
		if err != nil {
			panic(err)
		}
		return cp
	}
	text := func(cp []byte) string { i := bytes.Index(cp, []byte("\n\n")); return string(cp[:i+1]) }
	sigs := func(cp []byte) string { i := bytes.Index(cp, []byte("\n\n")); return string(cp[i+1:]) }
	variants := map[string][]byte{
		"pristine":            l.cp,
		"foreign-key":         sign("", true, l.sth.Size, l.sth.Root, l.sth.Timestamp),
		"other-origin-signed": sign("other.example/log", false, l.sth.Size, l.sth.Root, l.sth.Timestamp),
		"other-log":           other.cp,
		"size-edited":         []byte(strings.Replace(text(l.cp), fmt.Sprintf("\n%d\n", l.sth.Size), fmt.Sprintf("\n%d\n", l.sth.Size+1), 1) + sigs(l.cp)),
		"origin-edited":       []byte("x" + string(l.cp)),
		"extension-line":      []byte(text(l.cp) + "ext\n" + sigs(l.cp)),
		"truncated":           l.cp[:len(l.cp)/2],
		"empty":               {},
	}
	for name, cp := range variants {
		m := map[string][]byte{}
		for k, v := range l.objs {
			m[k] = v
		}
		m["checkpoint"] = cp
		srv.cur.Store(&m)
		ctx, cancel := context.WithTimeout(context.Background(), time.Second)
		ccl := cl
		if name == "pristine" {
			cancel()
			ctx, cancel = context.WithTimeout(context.Background(), 90*time.Second)
			ccl = patient
		}
		c, _, err := ccl.Checkpoint(ctx)
		cancel()
		r.Eval(1)
		r.DistinctKey(fmt.Sprintf("%d/checkpoint/%s/ok=%v", size, name, err == nil))
		info := map[string]any{"size": size, "variant": name}
		if name == "pristine" && err != nil {
			r.Violate("pristine-checkpoint-refused", info, "Checkpoint() refused the log's own checkpoint: %v", err)
		}
		if err != nil {
			continue
		}
		origin, _, _ := strings.Cut(string(cp), "\n")
		sth, verr := refVerifyRFC6962Checkpoint(cp, origin, l.env.Key.Public())
		if verr != nil {
			r.Violate("unsigned-checkpoint-returned:"+name, info, "Checkpoint() returned a checkpoint that does not verify under the configured key: %v", verr)
			continue
		}
		if c.Origin != sth.Origin || c.N != sth.Size || Hash(c.Hash) != sth.Root {
			r.Violate("checkpoint-tuple-differs", info, "Checkpoint() returned (%s,%d) but the signed note says (%s,%d)", c.Origin, c.N, sth.Origin, sth.Size)
		}
		if refHasExt(cp) {
			r.Violate("checkpoint-with-extension-returned", info, "Checkpoint() returned a checkpoint with an extension line")
		}
	}
}

func refHasExt(cp []byte) bool {
	n, err := refParseNote(cp)
	if err != nil {
		return false
	}
	c, err := refParseCheckpointText(n.Text)
	return err == nil && c.Ext != ""
}

var _ = sync.Mutex{}
var _ = sha256.Sum256

// renderRefLog renders a complete Static CT object set for an arbitrary leaf
// sequence with the reference encoders (used for logs an honest sequencer would
// never produce, e.g. leaves whose leaf_index differs from their position).
func renderRefLog(entries []*RefEntry) (map[string][]byte, Hash) {
	lh := make([]Hash, len(entries))
	for i, e := range entries {
		lh[i] = refLeafHash(refMerkleTreeLeaf(e))
	}
	mc := newMerkleCache(lh)
	objs := map[string][]byte{}
	for _, t := range refLayout(int64(len(entries)), false) {
		switch {
		case t.L >= 0:
			objs[refTilePath(t)] = refHashTile(mc, t)
		case t.L == -1:
			var raw []byte
			for i := 0; i < t.W; i++ {
				raw = refTileLeaf(raw, entries[int(t.N)*256+i])
			}
			objs[refTilePath(t)] = refGzip(raw)
		}
	}
	return objs, mc.Root(len(entries))
}

// TestC12IndexMismatch: a (dishonest but internally consistent) log commits
// leaves whose leaf_index differs from their position; clients with and without
// AllowRFC6962ArchivalLeafs must not confirm an SCT whose index is not the
// authentic leaf's, and Entry(i) must not hand out a non-archival leaf whose
// index is not i.
func TestC12IndexMismatch(t *testing.T) {
	r := NewRun(t, "C12", "indexmismatch")
	r.Rule = "logs rendered by the reference encoders in which two non-archival leaves carry each other's leaf_index (tree head, hash and data tiles all consistent), plus genuine archival leaves; clients with AllowRFC6962ArchivalLeafs false and true; Entry(i) and CheckInclusion over SCTs claiming the position or the embedded index; distinct = (size, allow-archival, call, outcome)"
	rng := NewRng(r.Seed, "c12m")
	srv := newC12Server()
	defer srv.srv.Close()
	key := detECDSA(rng)
	spki, _ := x509MarshalPKIX(key.Public())
	logID := sha256.Sum256(spki)
	cfg := &ctlog.Config{Key: key}
	for si, size := range []int{3, 9, 257, 300} {
		if !mine(si) {
			continue
		}
		var entries []*RefEntry
		for i := 0; i < size; i++ {
			e := genRefEntry(rng, false)
			if len(e.Cert) > 2000 {
				e.Cert = e.Cert[:100]
			}
			e.PreCert = truncate(e.PreCert, 100)
			e.Archival = false
			e.LeafIndex = int64(i)
			e.Timestamp = 1750000000000 + int64(i)
			entries = append(entries, e)
		}
		p, q := rng.Intn(size), rng.Intn(size)
		for q == p {
			q = rng.Intn(size)
		}
		entries[p].LeafIndex, entries[q].LeafIndex = int64(q), int64(p)
		arch := -1
		if size > 3 {
			arch = rng.Intn(size)
			for arch == p || arch == q {
				arch = rng.Intn(size)
			}
			entries[arch].Archival, entries[arch].LeafIndex = true, 0
		}
		objs, root := renderRefLog(entries)
		srv.cur.Store(&objs)
		tree := tlog.Tree{N: int64(size), Hash: tlog.Hash(root)}
		l := &c12Log{truth: entries, env: &LogEnv{Key: key, LogID: logID}}
		for _, allow := range []bool{false, true} {
			cl, err := sunlight.NewClient(&sunlight.ClientConfig{MonitoringPrefix: srv.srv.URL, PublicKey: key.Public(), UserAgent: "verif-harness (verif@harness.test)", Timeout: 250 * time.Millisecond, AllowRFC6962ArchivalLeafs: allow})
			if err != nil {
				t.Fatal(err)
			}
			ctx := context.Background()
			for _, pos := range []int{p, q, arch, (p + 1) % size} {
				if pos < 0 {
					continue
				}
				e, _, err := cl.Entry(ctx, tree, int64(pos))
				r.Eval(1)
				r.DistinctKey(fmt.Sprintf("%d/allow=%v/Entry/pos-kind=%v/err=%v", size, allow, pos == p || pos == q, err != nil))
				info := map[string]any{"size": size, "allow_archival": allow, "position": pos, "embedded_index": entries[pos].LeafIndex, "archival": entries[pos].Archival}
				if err != nil {
					continue
				}
				if !coveredEqual(e, entries[pos]) {
					r.Violate("unauthenticated-entry-yielded:indexmismatch", info, "Entry(%d) returned an entry differing from the committed leaf", pos)
				}
				if !e.RFC6962ArchivalLeaf && e.LeafIndex != int64(pos) {
					r.Violate("entry-with-foreign-index-returned", info, "Entry(%d) returned a non-archival leaf whose leaf_index is %d", pos, e.LeafIndex)
				}
				if e.RFC6962ArchivalLeaf && !allow {
					r.Violate("archival-leaf-returned-without-opt-in", info, "Entry(%d) returned an archival leaf although AllowRFC6962ArchivalLeafs is false", pos)
				}
			}
			// SCTs for the leaf committed at position p (whose embedded index is q)
			e := entries[p]
			sig, _ := ctlog.VerifDigitallySign(cfg, refMerkleTreeLeaf(e))
			for name, claimed := range map[string]int64{"claims-position": int64(p), "claims-embedded-index": int64(q)} {
				sct := refSCT(logID, e.Timestamp, refExtensions(&RefEntry{LeafIndex: claimed}), sig)
				got, _, err := cl.CheckInclusion(ctx, tree, sct)
				r.Eval(1)
				r.DistinctKey(fmt.Sprintf("%d/allow=%v/sct-%s/ok=%v", size, allow, name, err == nil))
				if err != nil {
					r.Count("sct_refused", 1)
					continue
				}
				info := map[string]any{"size": size, "allow_archival": allow, "variant": name, "position": p, "embedded_index": q}
				if msg := refJudgeSCT(sct, l, got); msg != "" {
					r.Violate("sct-confirmed-wrongly:"+name, info, "CheckInclusion confirmed an SCT that does not match the authentic leaf: %s", msg)
				}
			}
		}
	}
}

func x509MarshalPKIX(pub crypto.PublicKey) ([]byte, error) { return x509.MarshalPKIXPublicKey(pub) }
