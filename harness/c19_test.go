package verifharness

import (
	"bytes"
	"context"
	"fmt"
	"net"
	"net/http"
	"os"
	"path/filepath"
	"strings"
	"testing"
	"time"

	"filippo.io/sunlight"
	"golang.org/x/mod/sumdb/tlog"
)

type c19Prefix struct {
	Host, Path string
	Dir        string // directory configured for the prefix
	Sub        string // sub-directory the URL space maps to ("" for logs, "<hash>" / "mirror/<hash>" for witness)
	Index      map[[32]byte]string
	Kind       string // log | witness | mirror
}

func expectHeaders(url string, kind string) map[string]string {
	h := map[string]string{"Access-Control-Allow-Origin": "*"}
	switch {
	case strings.HasSuffix(url, "/checkpoint"):
		h["Content-Type"] = "text/plain; charset=utf-8"
		h["Cache-Control"] = "no-store"
	case strings.HasSuffix(url, ".json"):
		h["Content-Type"] = "application/json"
	case strings.Contains(url, "/issuer/"):
		h["Content-Type"] = "application/pkix-cert"
		h["Cache-Control"] = "public, max-age=604800, immutable"
	case strings.Contains(url, "/tile/names/"):
		h["Content-Type"] = "application/jsonl; charset=utf-8"
		h["Content-Encoding"] = "gzip"
		h["Cache-Control"] = "public, max-age=604800, immutable"
	case strings.Contains(url, "/tile/data/") || strings.Contains(url, "/tile/entries/"):
		h["Content-Type"] = "application/octet-stream"
		h["Content-Encoding"] = "gzip"
		h["Cache-Control"] = "public, max-age=604800, immutable"
	case strings.Contains(url, "/tile/"):
		h["Content-Type"] = "application/octet-stream"
		h["Cache-Control"] = "public, max-age=604800, immutable"
		h["Content-Encoding"] = ""
	}
	return h
}

func TestC19Serve(t *testing.T) {
	r := NewRun(t, "C19", "serve")
	r.Rule = "the built cmd/skylight (plain HTTP on a loopback port) over real log directories (host-only, path-prefixed, deep path prefix), a witness prefix and its mirror, next to canary files no prefix configures; raw HTTP/1.1 requests: every existing file through its layout URL under every host/prefix combination (right and wrong), layout URLs of non-existing coordinates, and traversal / confusion targets (.., %2e%2e, %2f, %5c, //, /./, trailing slash, directories, dot-files, symbolic links leading out of the directory, checkpoint/.., other log's prefix, origin = .. / mirror, absolute-form targets, long paths); oracle: 200 => body is bytewise a regular file inside the directory of the prefix the request addresses, for layout URLs exactly the named file, with the prescribed headers; plus an unmodified sunlight.Client reading each whole log through the server; distinct = (prefix kind, target class, status)"
	if _, err := os.Stat(verifBin("skylight")); err != nil {
		r.Inconcl("skylight binary not built: %v", err)
		return
	}
	rng := NewRng(r.Seed, "c19")
	f := newSkyFixture(r, rng, []int{pick(300, 700), 257, 40})
	defer f.Stop()
	// a dot-file and a nested non-layout file inside one log directory
	os.WriteFile(filepath.Join(f.Logs[0].D.Dir, ".hidden"), []byte("dotfile inside the log directory"), 0o644)
	if err := f.Start(); err != nil {
		r.Inconcl("%v", err)
		return
	}
	var prefixes []*c19Prefix
	for _, l := range f.Logs {
		prefixes = append(prefixes, &c19Prefix{Host: l.Host, Path: l.Path, Dir: l.D.Dir, Kind: "log", Index: dirIndex(l.D.Dir)})
	}
	for _, wl := range f.WitLogs {
		oh := fmt.Sprintf("%x", refSHA([]byte(wl.Origin)))
		prefixes = append(prefixes, &c19Prefix{Host: f.WitHost, Path: f.WitPath + "/" + oh, Dir: f.WitDir, Sub: oh, Kind: "witness", Index: dirIndex(f.WitDir)})
		if _, err := os.Stat(filepath.Join(f.WitDir, "mirror", oh)); err == nil {
			prefixes = append(prefixes, &c19Prefix{Host: f.WitHost, Path: f.WitPath + "/mirror/" + oh, Dir: f.WitDir, Sub: "mirror/" + oh, Kind: "mirror", Index: dirIndex(f.WitDir)})
		}
	}
	canary := map[[32]byte]bool{}
	for _, p := range []string{filepath.Join(f.Canary, "checkpoint"), filepath.Join(f.Canary, "tile", "0", "000"), filepath.Join(f.Base, "secret.txt")} {
		b, _ := os.ReadFile(p)
		canary[refSHA(b)] = true
	}
	ua := "verif-harness (verif@harness.test)"
	judge := func(px *c19Prefix, host, target, class string, wantFile string) {
		resp, err := f.Get(host, target, ua)
		r.Eval(1)
		if err != nil {
			r.Count("request_errors", 1)
			return
		}
		r.DistinctKey(fmt.Sprintf("%s/%s/%d", px.Kind, class, resp.Status))
		info := map[string]any{"host": host, "target": target, "class": class, "status": resp.Status, "prefix": px.Host + px.Path}
		if resp.Status >= 300 && resp.Status < 400 {
			if loc := resp.Header.Get("Location"); strings.HasSuffix(loc, "/") && class == "directory" {
				r.Violate("redirect-into-directory", info, "request for a directory was redirected to %q", loc)
			}
		}
		if resp.Status != 200 {
			if wantFile != "" && host == px.Host {
				r.Violate("layout-file-not-served:"+px.Kind, info, "existing layout file %s was answered %d", wantFile, resp.Status)
			}
			return
		}
		sum := refSHA(resp.Body)
		if canary[sum] {
			r.Violate("canary-served", info, "a file outside every configured directory was served")
			return
		}
		if bytes.Contains(resp.Body, []byte("<pre>")) && bytes.Contains(resp.Body, []byte("<a href=")) {
			r.Violate("directory-listing", info, "an HTML directory listing was served")
			return
		}
		rel, inDir := px.Index[sum]
		if !inDir {
			if class == "meta" {
				return // /health, /metrics, /logs.json are generated, not files
			}
			r.Violate("served-content-not-a-file-of-the-prefix", info, "200 body (%d bytes) is not the content of any regular file inside the directory configured for %s%s", len(resp.Body), px.Host, px.Path)
			return
		}
		if host != px.Host {
			r.Violate("served-under-wrong-host", info, "content of %s served for Host %s", rel, host)
		}
		if wantFile != "" {
			want, _ := os.ReadFile(filepath.Join(px.Dir, filepath.FromSlash(wantFile)))
			if !bytes.Equal(resp.Body, want) {
				r.Violate("layout-url-served-other-file", info, "layout URL for %s served the content of %s", wantFile, rel)
			}
			for k, v := range expectHeaders(target, px.Kind) {
				if got := resp.Header.Get(k); got != v {
					r.Violate("layout-header:"+k, info, "%s: header %s = %q, want %q", target, k, got, v)
				}
			}
			r.Count("layout_files_served", 1)
		} else if px.Sub != "" && !strings.HasPrefix(rel, px.Sub+"/") {
			// witness prefixes map to one origin's sub-tree only (same content may exist elsewhere: compare by path when unique)
			same := 0
			for _, p := range px.Index {
				if p == rel {
					same++
				}
			}
			r.Count("witness_served_outside_subtree_candidates", int64(same))
		}
	}
	// 1. every existing file through its layout URL, under the right and the wrong hosts
	for _, px := range prefixes {
		root := px.Dir
		if px.Sub != "" {
			root = filepath.Join(px.Dir, filepath.FromSlash(px.Sub))
		}
		n := 0
		for rel, fi := range snapshotDir(root) {
			if fi.Dir {
				continue
			}
			relS := filepath.ToSlash(rel)
			isLayout := relS == "checkpoint" || strings.HasPrefix(relS, "tile/") || strings.HasPrefix(relS, "issuer/") || relS == "log.v3.json"
			if px.Kind != "log" && strings.HasPrefix(relS, "mirror/") {
				continue
			}
			n++
			if n > pick(400, 100000) {
				break
			}
			want := relS
			if px.Sub != "" {
				want = px.Sub + "/" + relS
			}
			if isLayout && !strings.Contains(relS, "/.") && !strings.HasPrefix(relS, "staging/") {
				judge(px, px.Host, px.Path+"/"+relS, "layout", want)
				if n%7 == 0 {
					judge(px, "other.verif.test", px.Path+"/"+relS, "layout-wrong-host", "")
				}
			} else {
				judge(px, px.Host, px.Path+"/"+relS, "non-layout-file", "")
			}
		}
	}
	// 1b. layout URLs that name NO file although a sibling exists (the partial of
	// a full tile, another width of a partial tile, the full tile of a partial):
	// there is no "file that path names", so the answer must not be a 200
	for _, px := range prefixes {
		root := px.Dir
		if px.Sub != "" {
			root = filepath.Join(px.Dir, filepath.FromSlash(px.Sub))
		}
		snap := snapshotDir(root)
		n := 0
		for _, rel := range sortedPaths(snap) {
			relS := filepath.ToSlash(rel)
			if snap[rel].Dir || !strings.HasPrefix(relS, "tile/") || strings.Contains(relS, "/.") {
				continue
			}
			var cands []string
			if i := strings.Index(relS, ".p/"); i >= 0 {
				cands = append(cands, relS[:i], relS[:i]+".p/"+fmt.Sprint(1+rng.Intn(255)))
			} else {
				cands = append(cands, relS+".p/"+fmt.Sprint(1+rng.Intn(255)), relS+".p/255")
			}
			for _, c := range cands {
				if _, exists := snap[filepath.FromSlash(c)]; exists {
					continue
				}
				n++
				if n > pick(120, 5000) {
					break
				}
				resp, err := f.Get(px.Host, px.Path+"/"+c, ua)
				r.Eval(1)
				if err != nil {
					continue
				}
				r.DistinctKey(fmt.Sprintf("%s/layout-names-no-file/%d", px.Kind, resp.Status))
				r.Count("layout_urls_naming_no_file", 1)
				if resp.Status == 200 || resp.Status == 206 {
					r.Violate("layout-url-without-file-answered", map[string]any{"host": px.Host, "target": px.Path + "/" + c, "sibling": relS}, "%s names no file (its sibling %s exists) but was answered %d with %d bytes", c, relS, resp.Status, len(resp.Body))
				}
			}
		}
	}
	// 1c. range requests on layout files: a partial-content answer is a
	// successful answer and carries the same metadata; its body is that range
	for _, px := range prefixes {
		root := px.Dir
		if px.Sub != "" {
			root = filepath.Join(px.Dir, filepath.FromSlash(px.Sub))
		}
		snap := snapshotDir(root)
		n := 0
		for _, rel := range sortedPaths(snap) {
			relS := filepath.ToSlash(rel)
			isLayout := relS == "checkpoint" || strings.HasPrefix(relS, "tile/") || strings.HasPrefix(relS, "issuer/")
			if snap[rel].Dir || !isLayout || strings.Contains(relS, "/.") || snap[rel].Size < 24 || (px.Kind != "log" && strings.HasPrefix(relS, "mirror/")) {
				continue
			}
			n++
			if n%5 != 0 {
				continue
			}
			if n > pick(600, 100000) {
				break
			}
			from, to := int64(rng.Intn(8)), int64(8+rng.Intn(15))
			target := px.Path + "/" + relS
			resp, err := f.GetH(px.Host, target, ua, fmt.Sprintf("Range: bytes=%d-%d\r\n", from, to))
			r.Eval(1)
			if err != nil {
				continue
			}
			r.DistinctKey(fmt.Sprintf("%s/range/%d", px.Kind, resp.Status))
			if resp.Status != 206 && resp.Status != 200 {
				continue
			}
			info := map[string]any{"host": px.Host, "target": target, "range": fmt.Sprintf("%d-%d", from, to), "status": resp.Status}
			want, _ := os.ReadFile(filepath.Join(root, rel))
			if resp.Status == 206 {
				want = want[from : to+1]
				r.Count("partial_content_answers", 1)
			}
			if !bytes.Equal(resp.Body, want) {
				r.Violate("range-answer-wrong-bytes", info, "range answer for %s is not that range of the file", relS)
			}
			for k, v := range expectHeaders(target, px.Kind) {
				if got := resp.Header.Get(k); got != v {
					r.Violate("layout-header:"+k, info, "%s (range request, status %d): header %s = %q, want %q", target, resp.Status, k, got, v)
				}
			}
		}
	}
	// 2. non-existing coordinates and hostile targets under every prefix
	hostile := []string{"/../secret.txt", "/..%2fsecret.txt", "/%2e%2e/secret.txt", "/%2e%2e%2fcanary/checkpoint", "/tile/../../canary/checkpoint", "/tile/..%2f..%2fcanary%2fcheckpoint",
		"/..\\canary\\checkpoint", "/%5c..%5ccanary%5ccheckpoint", "//checkpoint", "/./checkpoint", "/checkpoint/", "/checkpoint/..", "/tile/", "/tile", "/tile/0/", "/tile/0", "/issuer/", "/issuer",
		"/.hidden", "/tile/0/000/", "/tile/0/x000/000", "/tile/00/000", "/tile/0/000.p/0", "/tile/0/000.p/256", "/tile/0/999", "/tile/data/999", "/tile/names/999", "/tile/8/0/000", "/tile/-1/000",
		"/issuer/0000000000000000000000000000000000000000000000000000000000000000", "/log.v3.json/", "/staging/", "/" + strings.Repeat("a", 6000), "/tile/" + strings.Repeat("x001/", 300) + "000",
		"/checkpoint%00", "/check%70oint", "/CHECKPOINT", "/checkpoint?x=1", "/../" + "witness/witness.v0.json", "/../log-alpha/checkpoint", "/../log-beta2026/checkpoint"}
	for _, px := range prefixes {
		for _, h := range hostile {
			judge(px, px.Host, px.Path+h, "hostile", "")
		}
		// absolute-form target
		judge(px, px.Host, "http://"+px.Host+px.Path+"/checkpoint", "absolute-form", "")
		judge(px, px.Host, "http://evil.verif.test"+px.Path+"/checkpoint", "absolute-form-other-host", "")
	}
	// cross-prefix and origin confusion on the witness
	for _, o := range []string{"..", "mirror", "%2e%2e", "..%2f..", "mirror%2f..", ".", "witness.v0.json", strings.Repeat("f", 64), "mirror/.."} {
		for _, tail := range []string{"/checkpoint", "/tile/0/000", "/../witness.v0.json"} {
			judge(prefixes[len(prefixes)-1], f.WitHost, f.WitPath+"/"+o+tail, "origin-confusion", "")
			judge(prefixes[len(prefixes)-1], f.WitHost, f.WitPath+"/mirror/"+o+tail, "origin-confusion", "")
		}
	}
	// symlinks inside a served directory that lead out of it must not be followed
	for _, tgt := range []string{"/issuer/" + strings.Repeat("ab", 32), "/tile/0/777", "/linked-checkpoint", "/linkdir/checkpoint", "/linkdir/tile/0/000"} {
		judge(prefixes[0], prefixes[0].Host, prefixes[0].Path+tgt, "symlink-out", "")
	}
	judge(prefixes[len(prefixes)-1], f.WitHost, f.WitPath+"/"+strings.Repeat("cd", 32)+"/checkpoint", "symlink-out", "")
	judge(prefixes[len(prefixes)-1], f.WitHost, f.WitPath+"/"+strings.Repeat("cd", 32)+"/tile/0/000", "symlink-out", "")
	for _, m := range []string{"/health", "/metrics", "/logs.json"} {
		judge(prefixes[0], prefixes[0].Host, m, "meta", "")
	}
	judge(prefixes[len(prefixes)-1], f.WitHost, f.WitPath+"/witness.v0.json", "layout", "witness.v0.json")
	judge(prefixes[len(prefixes)-1], f.WitHost, f.WitPath+"/mirror/mirror.v0.json", "layout", "mirror/mirror.v0.json")
	// 3. anonymous clients: a 429 must not carry content headers
	for i := 0; i < 200; i++ {
		resp, err := f.Get(f.Logs[0].Host, f.Logs[0].Path+"/tile/data/000", "curl/8.0")
		if err != nil {
			continue
		}
		if resp.Status == 429 {
			r.Count("rate_limited_responses", 1)
			if resp.Header.Get("Content-Encoding") != "" || strings.Contains(resp.Header.Get("Cache-Control"), "immutable") {
				r.Violate("error-response-with-content-headers", map[string]any{"status": 429}, "429 response carries Content-Encoding %q / Cache-Control %q", resp.Header.Get("Content-Encoding"), resp.Header.Get("Cache-Control"))
			}
		}
	}
	// 4. end to end: an unmodified client verifies each whole log through the server
	for _, l := range f.Logs {
		port := f.Port
		hc := &http.Client{Transport: &http.Transport{DialContext: func(ctx context.Context, network, addr string) (net.Conn, error) {
			return (&net.Dialer{}).DialContext(ctx, network, fmt.Sprintf("127.0.0.1:%d", port))
		}}, Timeout: 120 * time.Second}
		cl, err := sunlight.NewClient(&sunlight.ClientConfig{MonitoringPrefix: "http://" + l.Host + l.Path, PublicKey: l.D.Key.Public(), UserAgent: ua, HTTPClient: hc, Timeout: 60 * time.Second})
		if err != nil {
			r.Inconcl("client: %v", err)
			continue
		}
		info := map[string]any{"log": l.Short}
		cp, _, err := cl.Checkpoint(context.Background())
		if err != nil {
			r.Violate("client-cannot-read-through-server", info, "Checkpoint() through skylight failed: %v", err)
			continue
		}
		n := int64(0)
		for i, e := range cl.AllEntries(context.Background(), tlog.Tree{N: cp.N, Hash: cp.Hash}, 0) {
			if i >= int64(len(l.D.Truth)) || !coveredEqual(e, l.D.Truth[i]) {
				r.Violate("client-read-wrong-entry-through-server", info, "entry %d read through skylight differs from the logged entry", i)
				break
			}
			n++
		}
		if err := cl.Err(); err != nil || n != cp.N {
			r.Violate("client-cannot-read-through-server", info, "AllEntries through skylight stopped at %d of %d: %v", n, cp.N, err)
		}
		r.Count("entries_read_end_to_end", n)
		r.Eval(n)
	}
}
