package verifharness

import (
	"context"
	"fmt"
	"testing"
)

type crashCase struct {
	Start   int         `json:"start"`
	Pool    int         `json:"pool"`
	Crash   CrashSpec   `json:"crash"`
	Recover []CrashSpec `json:"recover,omitempty"` // crashes during successive recoveries
	AckThen bool        `json:"ack_then_crash,omitempty"`
	// Again: after the completed recovery the process dies once more before any
	// round published (1), or after one empty round (2); 0: not explored.
	Again int `json:"again,omitempty"`
}

func (c *crashCase) String() string {
	s := fmt.Sprintf("start=%d pool=%d crash=%s", c.Start, c.Pool, (&RoundPlan{Crash: &c.Crash}).String())
	for _, r := range c.Recover {
		s += " recovery-" + (&RoundPlan{Crash: &r}).String()
	}
	if c.Again > 0 {
		s += fmt.Sprintf(" again=%d", c.Again)
	}
	return s
}

// c03Round submits the pool and runs the crashing round; returns the env.
func c03Prepare(r *Run, bases *baseStates, cc *crashCase) (*LogEnv, []OpRecord, bool) {
	env := bases.envs[cc.Start].Fork()
	env.CaseInfo = func() any { return cc }
	li, err := env.Load("A", nil)
	if err != nil {
		env.violate("load-of-base-failed", "LoadLog of a pre-built state failed: %v", err)
		return env, nil, false
	}
	rng := NewRng(int64(cc.Start*7919+cc.Pool), "c03pool")
	for i := 0; i < cc.Pool; i++ {
		li.Submit(genEntry(rng, cheapShape(rng)), false)
	}
	simNow.Add(int64(5 + cc.Pool))
	ps, want := (&RoundPlan{Crash: &cc.Crash}).Install(li.In)
	_, crashed := li.Sequence(want)
	li.Abandon()
	return env, ps.Recorded(), crashed
}

func stagedBatchKeys(env *LogEnv) []string {
	lock, pub := env.LockSTH(), env.PubSTH()
	if lock == nil || pub == nil || lock.Size <= pub.Size {
		return nil
	}
	b, ok := env.W.Get(fmt.Sprintf("staging/%d-%x", lock.Size, lock.Root))
	if !ok {
		return nil
	}
	return bundleKeys(b)
}

// c03Recover restarts (with optional crashes during the recovery itself) and
// applies the oracle after the final clean restart.
func c03Recover(r *Run, env *LogEnv, cc *crashCase) {
	for i, rc := range cc.Recover {
		rc := rc
		simNow.Add(3)
		plan := &RoundPlan{Crash: &rc, BatchKeys: stagedBatchKeys(env)}
		in := NewInst(env.W, fmt.Sprintf("R%d", i))
		_, want := plan.Install(in)
		li, err := env.loadWith(in, want)
		if err == nil {
			// the planned crash point was not reached (e.g. nothing to recover)
			li.Abandon()
			r.Count("recovery_crash_not_reached", 1)
		} else if err == errCrashed {
			r.Count("recovery_crashes", 1)
			li.Abandon()
		} else {
			env.violate("restart-failed-in-recovery", "LoadLog (with a crash planned inside recovery) returned an error before crashing: %v", err)
			return
		}
	}
	simNow.Add(3)
	lockBefore := env.LockSTH()
	li, err := env.Load("Z", nil)
	if err != nil {
		env.violate("restart-failed", "LoadLog failed after %s: %v", cc.String(), err)
		return
	}
	defer li.Abandon()
	lock := env.LockSTH()
	if lock == nil || lockBefore == nil || lock.Size != lockBefore.Size || lock.Root != lockBefore.Root {
		env.violate("recovery-changed-lock", "recovery changed the lock checkpoint")
		return
	}
	for _, p := range env.Audit(lock.Size, lock.Timestamp, 0) {
		env.violate("post-recovery-audit:"+p.Class, "after recovery, tree of the lock checkpoint (size %d): %s", lock.Size, p.Msg)
	}
	r.Count("post_recovery_audits", 1)
	// The process may die again right after a completed recovery, before any
	// round has published: the next start must load all the same (and an empty
	// round in between must not change that).
	if cc.Again > 0 {
		if cc.Again == 2 {
			simNow.Add(4)
			if err, crashed := li.Sequence(nil); err != nil || crashed {
				env.violate("sequencing-stuck-after-recovery", "empty round after recovery failed: %v", err)
				return
			}
			lock = env.LockSTH()
		}
		li.Abandon()
		simNow.Add(3)
		li2, err := env.Load("Z2", nil)
		if err != nil {
			env.violate("restart-failed-after-recovery", "LoadLog failed when the process was restarted again right after a completed recovery (%s): %v", cc.String(), err)
			return
		}
		li = li2
		defer li2.Abandon()
		for _, p := range env.Audit(lock.Size, lock.Timestamp, 0) {
			env.violate("post-recovery-audit:"+p.Class, "after the second restart, tree of the lock checkpoint (size %d): %s", lock.Size, p.Msg)
		}
		r.Count("second_restarts_after_recovery", 1)
	}
	// the log keeps sequencing
	rng := NewRng(int64(lock.Size), "c03next")
	var subs []*Sub
	for i := 0; i < 2; i++ {
		subs = append(subs, li.Submit(genEntry(rng, cheapShape(rng)), false))
	}
	simNow.Add(9)
	if err, crashed := li.Sequence(nil); err != nil || crashed {
		env.violate("sequencing-stuck-after-recovery", "round after recovery failed: %v", err)
		return
	}
	for _, s := range subs {
		if a := li.WaitAck(context.Background(), s); !a.OK {
			env.violate("sequencing-stuck-after-recovery", "submission after recovery not acknowledged: %v", a.Err)
		}
	}
	if pub := env.PubSTH(); pub == nil || pub.Size != lock.Size+2 {
		env.violate("sequencing-stuck-after-recovery", "published checkpoint did not advance to %d after recovery", lock.Size+2)
	} else {
		for _, p := range env.Audit(pub.Size, pub.Timestamp, 0) {
			env.violate("post-recovery-audit:"+p.Class, "after the round following recovery (size %d): %s", pub.Size, p.Msg)
		}
	}
	env.FinalChecks()
	env.CheckAcks()
}

func (e *LogEnv) loadWith(in *Inst, want func() int) (*LogInst, error) {
	plan := in.Plan
	li, err := e.loadInst(in, plan, want)
	return li, err
}

func runCrashCase(r *Run, bases *baseStates, cc *crashCase) {
	env, ops, crashed := c03Prepare(r, bases, cc)
	defer env.Cleanup()
	r.Eval(1)
	r.DistinctKey(cc.String())
	if !crashed {
		r.Count("crash_point_not_reached", 1)
	} else {
		r.Count("round_crashes", 1)
	}
	r.DistinctKey("shape:" + opsShape(ops))
	c03Recover(r, env, cc)
}

func masksFor(k int, rng *Rng, limit int) []uint64 {
	if k <= 0 {
		return nil
	}
	if k <= 6 && (1<<uint(k)) <= limit {
		var out []uint64
		for m := uint64(0); m < 1<<uint(k); m++ {
			out = append(out, m)
		}
		return out
	}
	out := []uint64{0, (1 << uint(min(k, 63))) - 1}
	for i := 0; i < k && len(out) < limit; i++ { // single missing, single present
		out = append(out, uint64(1)<<uint(i), ((1<<uint(min(k, 63)))-1)&^(uint64(1)<<uint(i)))
	}
	for len(out) < limit {
		out = append(out, rng.U64()&((1<<uint(min(k, 63)))-1))
	}
	return out[:limit]
}

func TestC03CrashEnum(t *testing.T) {
	r := NewRun(t, "C03", "crashenum")
	r.Rule = "for each (start size, pool size): every crash point of the round (each sequential mutating op x {applied, not}; the parallel tile batch x every subset when <=6 uploads, else seeded subsets incl. all single-missing/single-present), each followed by recovery that is itself crashed inside its re-upload batch (subsets; thorough: twice), then clean restart + audit at the lock checkpoint + a further round; distinct = (start, pool, crash spec, recovery crash specs)"
	r.Assume("crash = every call of the instance parks forever at the Backend/LockBackend boundary; un-returned calls took effect or not as planned")
	rng := NewRng(r.Seed, "c03")
	starts := []int{0, 1, 255, 256, 257, 511, 512, 513}
	if thorough() {
		starts = append(starts, 254, 510, 700, 767, 768, 769)
	}
	bases := buildBases(r, rng, starts)
	defer bases.Cleanup()
	var rc crashCase
	if replayCase("C03", "crashenum", &rc) {
		runCrashCase(r, bases, &rc)
		return
	}
	pools := func(start int) []int {
		toTile := 256 - start%256
		ps := []int{0, 1, 2, toTile, toTile + 1}
		if thorough() {
			ps = append(ps, toTile+256+1, 3)
		} else if start == 0 || start == 255 {
			ps = append(ps, toTile+256+1)
		}
		return ps
	}
	n := 0
	maskLimit := pick(16, 128)
	recLimit := pick(4, 24)
	for _, start := range starts {
		for _, pool := range pools(start) {
			// learn the op sequence
			dry := &crashCase{Start: start, Pool: pool, Crash: CrashSpec{Phase: "idx", Idx: 1 << 20}}
			env, ops, _ := c03Prepare(r, bases, dry)
			env.Cleanup()
			k := 0
			var seqIdx []int
			for i, o := range ops {
				if o.Kind == "upload" && len(o.Key) > 5 && o.Key[:5] == "tile/" {
					k++
				} else {
					seqIdx = append(seqIdx, i)
				}
			}
			var crashes []CrashSpec
			for _, i := range seqIdx {
				crashes = append(crashes, CrashSpec{Phase: "idx", Idx: i, Applied: false}, CrashSpec{Phase: "idx", Idx: i, Applied: true})
			}
			for _, m := range masksFor(k, rng.Fork("m"), maskLimit) {
				crashes = append(crashes, CrashSpec{Phase: "tiles", Mask: m})
			}
			for _, cr := range crashes {
				// depth 1: clean recovery
				cases := []*crashCase{{Start: start, Pool: pool, Crash: cr}}
				// depth 2/3: crash inside the recovery batch
				if k > 0 {
					for _, m := range masksFor(k, rng.Fork("r"), recLimit) {
						cases = append(cases, &crashCase{Start: start, Pool: pool, Crash: cr, Recover: []CrashSpec{{Phase: "tiles", Mask: m}}})
						if thorough() && m%3 == 0 {
							cases = append(cases, &crashCase{Start: start, Pool: pool, Crash: cr, Recover: []CrashSpec{{Phase: "tiles", Mask: m}, {Phase: "tiles", Mask: ^m}}})
						}
					}
				}
				for _, cc := range cases {
					n++
					cc.Again = (n / 7) % 3
					if !mine(n) {
						continue
					}
					runCrashCase(r, bases, cc)
					if n%211 == 0 {
						r.Sample(cc.String())
					}
				}
			}
		}
	}
}

// TestC03AckThenCrash: complete rounds (acknowledgements handed out), kill the
// process between operations, restart: no acknowledged entry may be lost.
func TestC03AckThenCrash(t *testing.T) {
	r := NewRun(t, "C03", "ackcrash")
	r.Rule = "histories of clean and faulty rounds where the instance is killed right after acknowledgements were handed out; after restart every acknowledged entry must be at its index in storage and in the committed tree; distinct = (start, history shape)"
	rng := NewRng(r.Seed, "c03ack")
	starts := []int{0, 255, 256, 511}
	bases := buildBases(r, rng, starts)
	defer bases.Cleanup()
	n := pick(60, 1500)
	for i := 0; i < n; i++ {
		hrng := rng.Fork(fmt.Sprint("h", i))
		h := &History{Start: pickOne(hrng, starts), Seed: int64(hrng.U64() >> 1)}
		for j := 0; j < 2+hrng.Intn(4); j++ {
			h.Steps = append(h.Steps, Step{Op: "submit", K: pickOne(hrng, []int{1, 2, 3, 255, 257})}, Step{Op: "round", Clock: "normal"})
			if hrng.Intn(3) == 0 {
				h.Steps = append(h.Steps, Step{Op: "dup", K: 2})
			}
			h.Steps = append(h.Steps, Step{Op: "restart"}) // kill right after the acks
		}
		if !mine(i) {
			continue
		}
		runOneHistory(r, bases, h, true)
		r.DistinctKey(h.String())
		if i < 3 {
			r.Sample(h.String())
		}
	}
}
