package verifharness

import (
	"context"
	"errors"
	"filippo.io/sunlight"
	"fmt"
	"sort"
	"strings"
	"sync"
	"testing"
	"testing/synctest"
	"time"

	"filippo.io/sunlight/internal/ctlog"
)

type c17Event struct {
	At     int    `json:"at"` // virtual ms since the sequencer started
	Op     string `json:"op"` // submit | failnext | fatalnext | cancel
	Low    bool   `json:"low,omitempty"`
	DupOf  int    `json:"dup_of,omitempty"`       // 1-based index of an earlier submit event, 0 = new entry
	Cancel int    `json:"cancel_after,omitempty"` // cancel the request context after this many ms (0 = never)
}

type c17Script struct {
	PoolSize int        `json:"pool_size"`
	PeriodMs int        `json:"period_ms"`
	Stop     string     `json:"stop"` // none | fatal | cancel | readonly
	StopAt   int        `json:"stop_at"`
	Events   []c17Event `json:"events"`
	Seed     int64      `json:"seed"`
}

func (s *c17Script) String() string {
	var b strings.Builder
	fmt.Fprintf(&b, "pool=%d period=%d stop=%s@%d:", s.PoolSize, s.PeriodMs, s.Stop, s.StopAt)
	for _, e := range s.Events {
		switch e.Op {
		case "submit":
			p := "H"
			if e.Low {
				p = "L"
			}
			if e.DupOf > 0 {
				p += fmt.Sprintf("dup%d", e.DupOf)
			}
			if e.Cancel > 0 {
				p += fmt.Sprintf("c%d", e.Cancel)
			}
			fmt.Fprintf(&b, " %d:%s", e.At, p)
		default:
			fmt.Fprintf(&b, " %d:%s", e.At, e.Op)
		}
	}
	return b.String()
}

func genC17Script(rng *Rng) *c17Script {
	s := &c17Script{PoolSize: rng.Intn(9), PeriodMs: 100, Seed: int64(rng.U64() >> 1), Stop: pickOne(rng, []string{"none", "none", "fatal", "cancel", "readonly"})}
	periods := 3 + rng.Intn(5)
	total := periods * s.PeriodMs
	s.StopAt = s.PeriodMs + rng.Intn(total-s.PeriodMs)
	n := 10 + rng.Intn(70)
	nsub := 0
	for i := 0; i < n; i++ {
		at := 1 + rng.Intn(total+150)
		if at%s.PeriodMs == 0 || at%s.PeriodMs > s.PeriodMs-8 { // keep clear of the ticks and of the settle points
			at += 11
			if at%s.PeriodMs > s.PeriodMs-8 || at%s.PeriodMs == 0 {
				at += 13
			}
		}
		e := c17Event{At: at, Op: "submit", Low: rng.Intn(5) < 2}
		if nsub > 0 && rng.Intn(6) == 0 {
			e.DupOf = 1 + rng.Intn(nsub)
		}
		if rng.Intn(9) == 0 {
			e.Cancel = 1 + rng.Intn(150)
		}
		nsub++
		s.Events = append(s.Events, e)
	}
	// bursts that fill the pool
	for b := 0; b < 2; b++ {
		base := 5 + rng.Intn(total)
		if base%s.PeriodMs > 60 {
			base -= 50
		}
		for i := 0; i < 2+rng.Intn(10); i++ {
			s.Events = append(s.Events, c17Event{At: base + i%3, Op: "submit", Low: rng.Intn(2) == 0})
		}
	}
	if rng.Intn(3) == 0 {
		s.Events = append(s.Events, c17Event{At: 20 + rng.Intn(total), Op: "failnext"})
	}
	sort.SliceStable(s.Events, func(i, j int) bool { return s.Events[i].At < s.Events[j].At })
	return s
}

type c17Sub struct {
	ev       int
	e        *ctlog.PendingLogEntry
	low      bool
	source   string
	admitted bool
	at       time.Duration
	tick     int // ticks seen when submitted
	done     bool
	doneAt   time.Duration
	err      error
	idx, ts  int64
	ok       bool
	outcomes int
	cancel   int
}

func runC17Script(t *testing.T, r *Run, sc *c17Script) {
	synctest.Test(t, func(t *testing.T) {
		simVirtual.Store(true)
		defer simVirtual.Store(false)
		rng := NewRng(sc.Seed, "c17")
		env := NewLogEnv(r, rng.Fork("env"))
		env.PoolSize = sc.PoolSize
		env.NoTruth = true
		env.AuditPub = true
		env.CaseInfo = func() any { return sc }
		defer env.Cleanup()
		start := time.Now()
		period := time.Duration(sc.PeriodMs) * time.Millisecond
		if sc.Stop == "readonly" {
			// read-only instant = NotAfterLimit + 7 days, placed inside the run
			env.NotAfterLimit = start.Add(time.Duration(sc.StopAt)*time.Millisecond + 300*time.Millisecond).Add(-ctlog.ReadOnlyAfter)
			env.NotAfterStart = env.NotAfterLimit.Add(-24 * time.Hour)
		}
		time.Sleep(100 * time.Millisecond)
		if err := env.Create(nil); err != nil {
			t.Fatal(err)
		}
		time.Sleep(100 * time.Millisecond)
		li, err := env.Load("S", nil)
		if err != nil {
			t.Fatal(err)
		}
		r.Eval(1)
		var mu sync.Mutex
		ticks := 0
		var pending []*c17Sub // model of the current pool (admitted, not evicted)
		ctlog.VerifSetPauseSequencing(func() {
			mu.Lock()
			ticks++
			pending = nil
			mu.Unlock()
		})
		defer ctlog.VerifSetPauseSequencing(nil)
		failNext, fatalNext := false, false
		li.In.Plan = func(c *Call) Decision {
			mu.Lock()
			defer mu.Unlock()
			if c.Kind == OpUpload && c.Key == "checkpoint" && failNext {
				failNext = false
				return Decision{Apply: false, Err: rotatingInjectedErr()}
			}
			if c.Kind == OpLockReplace && fatalNext {
				fatalNext = false
				return Decision{Apply: false, Err: rotatingInjectedErr()}
			}
			return decideOK
		}
		ctx, cancel := context.WithCancel(context.Background())
		defer cancel()
		t0 := time.Now()
		var seqErr error
		seqStopped := false
		var seqStopAt time.Duration
		go func() {
			err := li.Log.RunSequencer(ctx, period)
			mu.Lock()
			seqErr, seqStopped, seqStopAt = err, true, time.Since(t0)
			mu.Unlock()
		}()
		var subs []*c17Sub
		var wg sync.WaitGroup
		viol := func(id, f string, a ...any) { env.violate(id, f, a...) }
		lockCommitsAtStop := -1
		submit := func(evIdx int, ev c17Event) {
			s := &c17Sub{ev: evIdx, low: ev.Low, at: time.Since(t0), cancel: ev.Cancel}
			if ev.DupOf > 0 && ev.DupOf <= len(subs) {
				s.e = cloneEntry(subs[ev.DupOf-1].e)
			} else {
				s.e = genEntry(rng, cheapShape(rng))
			}
			mu.Lock()
			s.tick = ticks
			full := sc.PoolSize > 0 && len(pending) >= sc.PoolSize
			lows := 0
			for _, p := range pending {
				if p.low {
					lows++
				}
			}
			stopped := seqStopped
			mu.Unlock()
			wait, source := li.Log.VerifAddLeafToPool(context.Background(), s.e, ev.Low)
			s.source = source
			r.Count("source_"+source, 1)
			r.DistinctKey(fmt.Sprintf("%s/full=%v/low=%v/lows>0=%v/stopped=%v", source, full, ev.Low, lows > 0, stopped))
			subs = append(subs, s)
			rctx, rcancel := context.WithCancel(context.Background())
			if ev.Cancel > 0 {
				time.AfterFunc(time.Duration(ev.Cancel)*time.Millisecond, rcancel)
			}
			wg.Add(1)
			go func() {
				defer wg.Done()
				defer rcancel()
				var le *sunlight.LogEntry
				var err error
				func() {
					defer func() {
						if p := recover(); p != nil {
							err = fmt.Errorf("wait function panicked: %v", p)
							viol("wait-function-panicked", "the wait function of a submission (event %d, source %s) panicked instead of returning an outcome: %v", evIdx, source, p)
						}
					}()
					le, err = wait(rctx)
				}()
				if stopped && err == nil {
					viol("submission-accepted-after-stop", "a submission made after the sequencer had stopped was answered successfully (source %s, duplicate=%v)", source, ev.DupOf > 0)
				}
				mu.Lock()
				s.outcomes++
				s.done, s.doneAt, s.err = true, time.Since(t0), err
				if err == nil && le != nil {
					s.ok, s.idx, s.ts = true, le.LeafIndex, le.Timestamp
				}
				mu.Unlock()
			}()
			isDup := ev.DupOf > 0
			switch source {
			case "sequencer":
				s.admitted = true
				if stopped {
					viol("admitted-after-stop", "submission admitted after the sequencer stopped")
				}
				if full {
					if ev.Low {
						viol("low-priority-admitted-into-full-pool", "low-priority submission admitted although the pool (size %d) was full", sc.PoolSize)
					} else if lows == 0 {
						viol("admitted-into-full-pool", "high-priority submission admitted into a full pool (size %d) with no low-priority entry to evict", sc.PoolSize)
					} else {
						// exactly one pending low-priority entry must get the eviction outcome
						synctest.Wait()
						mu.Lock()
						var ev []*c17Sub
						var rest []*c17Sub
						for _, p := range pending {
							if p.low && p.done && errors.Is(p.err, ctlog.VerifErrEvicted) {
								ev = append(ev, p)
							} else {
								rest = append(rest, p)
							}
						}
						if len(ev) == 0 {
							// A pending low-priority entry whose request context was
							// cancelled is still in the pool and can be the victim,
							// but its waiter has already returned: unobservable.
							for i, p := range rest {
								if p.low && p.done && errors.Is(p.err, context.Canceled) {
									ev = append(ev, p)
									rest = append(rest[:i:i], rest[i+1:]...)
									r.Count("evictions_of_cancelled_unobservable", 1)
									break
								}
							}
						}
						pending = rest
						mu.Unlock()
						if len(ev) != 1 {
							viol("eviction-count", "a high-priority submission into a full pool evicted %d pending low-priority entries (want exactly 1)", len(ev))
						}
						r.Count("evictions", int64(len(ev)))
					}
				}
				mu.Lock()
				pending = append(pending, s)
				if sc.PoolSize > 0 && len(pending) > sc.PoolSize {
					mu.Unlock()
					viol("pool-over-capacity", "pool holds %d admitted entries, configured size %d", len(pending), sc.PoolSize)
					mu.Lock()
				}
				mu.Unlock()
			case "ratelimit":
				if !full {
					viol("ratelimited-with-room", "submission rate-limited although the pool held %d of %d entries", len(pending), sc.PoolSize)
				} else if !ev.Low && lows > 0 {
					viol("high-priority-not-evicting", "high-priority submission rate-limited although %d low-priority entries were pending", lows)
				}
			case "closed":
				if !stopped {
					viol("closed-while-running", "submission refused as closed while the sequencer was running")
				}
			case "pool", "cache":
				if !isDup {
					viol("new-entry-deduplicated", "a new entry was answered from %s", source)
				}
			}
		}
		lastTickChecked := 0
		settle := func() {
			// bounded progress: every submission made before the last completed
			// tick has its outcome by now (rounds take no virtual time here)
			synctest.Wait()
			mu.Lock()
			defer mu.Unlock()
			for _, s := range subs {
				if !s.done && (s.tick < ticks || seqStopped) {
					mu.Unlock()
					viol("submitter-stranded", "submission (event %d, source %s) made at %v still has no outcome at %v although its pool's round ended / the sequencer stopped", s.ev, s.source, s.at, time.Since(t0))
					mu.Lock()
					break
				}
			}
			lastTickChecked = ticks
		}
		evIdx := 0
		for _, ev := range sc.Events {
			evIdx++
			// settle points just before each tick boundary we cross
			for {
				now := time.Since(t0)
				nextSettle := (now/period+1)*period - 4*time.Millisecond
				if time.Duration(ev.At)*time.Millisecond < nextSettle || nextSettle <= now {
					break
				}
				time.Sleep(nextSettle - now)
				settle()
				time.Sleep(5 * time.Millisecond)
			}
			if d := time.Duration(ev.At)*time.Millisecond - time.Since(t0); d > 0 {
				time.Sleep(d)
			}
			synctest.Wait()
			if sc.Stop != "none" && sc.Stop != "readonly" && time.Since(t0) >= time.Duration(sc.StopAt)*time.Millisecond {
				mu.Lock()
				if sc.Stop == "fatal" {
					fatalNext = true
				}
				mu.Unlock()
				if sc.Stop == "cancel" {
					cancel()
					synctest.Wait()
				}
			}
			switch ev.Op {
			case "submit":
				submit(evIdx, ev)
			case "failnext":
				mu.Lock()
				failNext = true
				mu.Unlock()
			}
			mu.Lock()
			if seqStopped && lockCommitsAtStop < 0 {
				lockCommitsAtStop = len(env.lockObsSnapshot())
			}
			mu.Unlock()
		}
		// let two more periods pass, then stop whatever still runs
		time.Sleep(2*period + 7*time.Millisecond)
		settle()
		mu.Lock()
		if seqStopped && lockCommitsAtStop < 0 {
			lockCommitsAtStop = len(env.lockObsSnapshot())
		}
		stoppedBefore := seqStopped
		mu.Unlock()
		if stoppedBefore {
			// after a stop: later submissions fail, nothing is signed any more
			s := genEntry(rng, ShapeBlobX509)
			wait, source := li.Log.VerifAddLeafToPool(context.Background(), s, false)
			if _, err := safeWait(wait, context.Background(), viol); err == nil {
				viol("submission-accepted-after-stop", "a submission after the sequencer stopped succeeded (source %s)", source)
			} else if sc.Stop == "readonly" && !errors.As(err, new(ctlog.SunsetLogError)) {
				viol("readonly-error-kind", "submission after the read-only date failed with %v, not the read-only error", err)
			}
			// ... also a resubmission of an entry that was acknowledged before the stop
			for _, old := range subs {
				mu.Lock()
				ok := old.ok
				mu.Unlock()
				if !ok {
					continue
				}
				wait, source := li.Log.VerifAddLeafToPool(context.Background(), cloneEntry(old.e), false)
				if _, err := safeWait(wait, context.Background(), viol); err == nil {
					viol("submission-accepted-after-stop", "a resubmission of an acknowledged entry after the sequencer stopped succeeded (source %s)", source)
				}
				r.Count("resubmissions_after_stop", 1)
				break
			}
			time.Sleep(3 * period)
			synctest.Wait()
			if n := len(env.lockObsSnapshot()); n != lockCommitsAtStop {
				viol("checkpoint-signed-after-stop", "lock store grew from %d to %d commits after the sequencer stopped", lockCommitsAtStop, n)
			}
			r.Count("stops_"+sc.Stop, 1)
		}
		cancel()
		synctest.Wait()
		wg.Wait()
		mu.Lock()
		if sc.Stop == "readonly" && seqStopped {
			var se ctlog.SunsetLogError
			if !errors.As(seqErr, &se) {
				viol("readonly-sequencer-error", "sequencer stopped at the read-only date with %v", seqErr)
			}
			ro := time.Duration(sc.StopAt)*time.Millisecond + 300*time.Millisecond - (time.Since(start) - time.Since(t0))
			_ = ro
		}
		_ = seqStopAt
		mu.Unlock()
		// per-submission verdicts
		evicted := map[string]bool{}
		for _, s := range subs {
			if s.outcomes != 1 {
				viol("outcome-count", "submission (event %d) got %d outcomes", s.ev, s.outcomes)
			}
			if errors.Is(s.err, ctlog.VerifErrEvicted) {
				evicted[identity(s.e)] = true
				if !s.low && s.source == "sequencer" {
					viol("high-priority-evicted", "an admitted high-priority submission received the eviction outcome")
				}
			}
		}
		// pool bound on what each round added
		obs := env.lockObsSnapshot()
		for i := 1; i < len(obs); i++ {
			if d := obs[i].STH.Size - obs[i-1].STH.Size; sc.PoolSize > 0 && d > int64(sc.PoolSize) {
				viol("round-over-capacity", "a round added %d leaves, pool size is %d", d, sc.PoolSize)
			}
		}
		li.Abandon()
		// acknowledgements name their leaves; evicted entries never appear unless resubmitted successfully
		for _, s := range subs {
			if s.ok {
				env.mu.Lock()
				env.Acks = append(env.Acks, &Ack{Sub: &Sub{ID: s.ev, E: s.e, Source: s.source}, OK: true, Index: s.idx, Timestamp: s.ts, StorageChecked: true})
				env.mu.Unlock()
				delete(evicted, identity(s.e))
			}
		}
		env.CheckAcksFinal()
		if sth := env.PubSTH(); sth != nil && len(evicted) > 0 {
			admittedLater := map[string]bool{}
			for _, s := range subs {
				if s.admitted && !errors.Is(s.err, ctlog.VerifErrEvicted) {
					admittedLater[identity(s.e)] = true
				}
			}
			for n := int64(0); n*256 < sth.Size; n++ {
				w := int(min(256, sth.Size-n*256))
				if b, ok := env.W.Get(refTilePath(TileCoord{-1, n, w})); ok {
					if es, err := decodeDataTileCached(b, w); err == nil {
						for _, l := range es {
							pe := &ctlog.PendingLogEntry{Certificate: l.Cert, IsPrecert: l.IsPrecert, IssuerKeyHash: l.IssuerKeyHash}
							if id := identity(pe); evicted[id] && !admittedLater[id] {
								viol("evicted-entry-sequenced", "an evicted low-priority entry appears in the tree at index %d", l.LeafIndex)
							}
						}
					}
				}
			}
		}
		env.FinalChecks()
		_ = lastTickChecked
	})
}

func TestC17Scripts(t *testing.T) {
	r := NewRun(t, "C17", "scripts")
	r.Rule = "arrival scripts of 15-90 submissions (high/low priority, duplicates, cancelled request contexts, bursts that fill the pool) over 3-7 sequencing periods under virtual time (testing/synctest), pool sizes 0-8, non-fatal round failures, stop kinds {none, fatal lock error, context cancellation, read-only date inside the run}; admission decisions are compared online with a model of the pool, eviction counted after the bubble settles, every submitter must have exactly one outcome by the settle point after its pool's tick; distinct = (source label, pool full?, priority, low-priority pending?, stopped?)"
	rng := NewRng(r.Seed, "c17")
	var rc c17Script
	if replayCase("C17", "scripts", &rc) {
		runC17Script(t, r, &rc)
		return
	}
	n := pick(1000, 15000)
	for i := 0; i < n; i++ {
		sc := genC17Script(rng.Fork(fmt.Sprint(i)))
		if !mine(i) {
			continue
		}
		runC17Script(t, r, sc)
		if i < 30 {
			r.Sample(sc.String())
		}
	}
	if r.Counter("evictions") == 0 {
		r.Inconcl("no eviction observed")
	}
}

// safeWait calls a wait function; a panic inside it is a violation (a
// submitter must get an outcome), not the end of the monitors.
func safeWait(wait ctlog.VerifWaitEntryFunc, ctx context.Context, viol func(id, f string, a ...any)) (le *sunlight.LogEntry, err error) {
	defer func() {
		if p := recover(); p != nil {
			err = fmt.Errorf("wait function panicked: %v", p)
			viol("wait-function-panicked", "a wait function panicked instead of returning an outcome: %v", p)
		}
	}()
	return wait(ctx)
}
