//go:build race

package verifharness

const raceEnabled = true
