package verifharness

import (
	"bufio"
	"context"
	"crypto/sha256"
	"encoding/json"
	"errors"
	"fmt"
	"os"
	"os/exec"
	"path/filepath"
	"sort"
	"strings"
	"sync"
	"syscall"
	"testing"
	"time"
	"unsafe"

	"crawshaw.io/sqlite"
	"crawshaw.io/sqlite/sqlitex"
	"filippo.io/sunlight/internal/ctlog"
	"github.com/anishathalye/porcupine"
)

// monoNow is CLOCK_MONOTONIC, which is system-wide: histories of separate
// processes merge on it.
func monoNow() int64 {
	var ts syscall.Timespec
	syscall.Syscall(syscall.SYS_CLOCK_GETTIME, 1 /* CLOCK_MONOTONIC */, uintptr(unsafe.Pointer(&ts)), 0)
	return ts.Sec*1e9 + ts.Nsec
}

type lockIn struct {
	Kind string `json:"kind"` // fetch | create | replace
	ID   int    `json:"id"`   // which log ID
	Old  string `json:"old,omitempty"`
	New  string `json:"new,omitempty"`
}

type lockOut struct {
	OK       bool   `json:"ok"`
	Val      string `json:"val,omitempty"`
	NotFound bool   `json:"not_found,omitempty"`
	Err      string `json:"err,omitempty"`
}

type lockOp struct {
	Client int     `json:"client"`
	In     lockIn  `json:"in"`
	Out    lockOut `json:"out"`
	Call   int64   `json:"call"`
	Ret    int64   `json:"ret"`
}

func lockID(i int) [32]byte { return sha256.Sum256([]byte(fmt.Sprint("verif-lock-id-", i))) }

// lockClient drives one LockBackend handle with a seeded op mix and records
// the history at the interface boundary.
type lockClient struct {
	id    int
	b     ctlog.LockBackend
	rng   *Rng
	ids   int
	ops   []lockOp
	last  map[int]ctlog.LockedCheckpoint
	count int
	pid   string

	usedEmpty bool
}

func (c *lockClient) value() string {
	c.count++
	v := fmt.Sprintf("%s-c%d-%d", c.pid, c.id, c.count)
	switch c.rng.Intn(12) {
	case 0:
		v += "\x00nul\x00"
	case 1:
		v += strings.Repeat("x", 300)
	}
	return v
}

func (c *lockClient) step(emptyOnce *bool) {
	id := c.rng.Intn(c.ids)
	lid := lockID(id)
	ctx := context.Background()
	op := lockOp{Client: c.id}
	kind := c.rng.Intn(10)
	switch {
	case kind < 4 || c.last[id] == nil && kind < 8:
		op.In = lockIn{Kind: "fetch", ID: id}
		op.Call = monoNow()
		lc, err := c.b.Fetch(ctx, lid)
		op.Ret = monoNow()
		switch {
		case err == nil:
			op.Out = lockOut{OK: true, Val: string(lc.Bytes())}
			c.last[id] = lc
		case errors.Is(err, ctlog.ErrLogNotFound):
			op.Out = lockOut{NotFound: true}
		default:
			op.Out = lockOut{Err: err.Error()}
		}
	case kind < 5 || c.last[id] == nil:
		v := c.value()
		op.In = lockIn{Kind: "create", ID: id, New: v}
		op.Call = monoNow()
		err := c.b.Create(ctx, lid, []byte(v))
		op.Ret = monoNow()
		if err == nil {
			op.Out = lockOut{OK: true}
		} else {
			op.Out = lockOut{Err: err.Error()}
		}
	default:
		v := c.value()
		if emptyOnce != nil && !*emptyOnce && c.rng.Intn(40) == 0 {
			*emptyOnce = true
			v = "" // one empty value per history
		}
		old := c.last[id]
		if c.rng.Intn(10) == 0 {
			v = string(old.Bytes()) // write back the value that was fetched
		}
		op.In = lockIn{Kind: "replace", ID: id, Old: string(old.Bytes()), New: v}
		op.Call = monoNow()
		nl, err := c.b.Replace(ctx, old, []byte(v))
		op.Ret = monoNow()
		if err == nil {
			op.Out = lockOut{OK: true}
			c.last[id] = nl
			if string(nl.Bytes()) != v {
				op.Out.Err = "returned checkpoint does not carry the new value"
			}
		} else {
			op.Out = lockOut{Err: err.Error()}
			c.last[id] = nil // refetch
		}
	}
	c.ops = append(c.ops, op)
}

// ---- the sequential model and the checkers ---------------------------------

const absent = "\x00<absent>"

type lockState string

var lockModel = porcupine.NondeterministicModel{
	Partition: func(history []porcupine.Operation) [][]porcupine.Operation {
		m := map[int][]porcupine.Operation{}
		for _, o := range history {
			id := o.Input.(lockIn).ID
			m[id] = append(m[id], o)
		}
		var out [][]porcupine.Operation
		for _, v := range m {
			out = append(out, v)
		}
		return out
	},
	Init: func() []interface{} { return []interface{}{lockState(absent)} },
	Step: func(state, input, output interface{}) []interface{} {
		st := state.(lockState)
		in := input.(lockIn)
		out := output.(lockOut)
		switch in.Kind {
		case "fetch":
			switch {
			case out.OK:
				if st != absent && string(st) == "V"+out.Val {
					return []interface{}{st}
				}
				return nil
			case out.NotFound:
				if st == absent {
					return []interface{}{st}
				}
				return nil
			default: // failed read: no information, no effect
				return []interface{}{st}
			}
		case "create":
			if out.OK {
				if st == absent {
					return []interface{}{lockState("V" + in.New)}
				}
				return nil
			}
			// error: no effect, or (unknown outcome) it took effect
			if st == absent {
				return []interface{}{st, lockState("V" + in.New)}
			}
			return []interface{}{st}
		case "replace":
			if out.OK {
				if st != absent && string(st) == "V"+in.Old {
					return []interface{}{lockState("V" + in.New)}
				}
				return nil
			}
			if st != absent && string(st) == "V"+in.Old {
				return []interface{}{st, lockState("V" + in.New)}
			}
			return []interface{}{st}
		}
		return nil
	},
	Equal: func(a, b interface{}) bool { return a.(lockState) == b.(lockState) },
}

func checkLockHistory(r *Run, backend, workload string, ops []lockOp, info any) {
	r.Eval(1)
	r.Count("ops_"+backend, int64(len(ops)))
	var hist []porcupine.Operation
	for _, o := range ops {
		hist = append(hist, porcupine.Operation{ClientId: o.Client, Input: o.In, Call: o.Call, Output: o.Out, Return: o.Ret})
	}
	replay := map[string]any{"backend": backend, "workload": workload, "info": info, "history": tailOps(ops, 400)}
	res := porcupine.CheckOperationsTimeout(lockModel.ToModel(), hist, 90*time.Second)
	switch res {
	case porcupine.Illegal:
		r.Violate("not-linearizable:"+backend, replay, "%s history of %d operations (%s) is not linearizable as a compare-and-swap register", backend, len(ops), workload)
	case porcupine.Unknown:
		r.Inconcl("linearizability check of a %s history (%d ops) timed out", backend, len(ops))
	default:
		r.Count("histories_linearizable", 1)
	}
	// Exact side monitors (values are unique).
	byOld := map[string]int{}
	created := map[int]int{}
	for _, o := range ops {
		if !o.Out.OK {
			continue
		}
		switch o.In.Kind {
		case "replace":
			if o.In.New == o.In.Old {
				continue // writing back the same value leaves the predecessor in place
			}
			k := fmt.Sprint(o.In.ID, "/", o.In.Old)
			byOld[k]++
			if byOld[k] > 1 {
				r.Violate("two-replaces-of-one-value:"+backend, replay, "two Replace calls succeeded against the same predecessor value on %s", backend)
			}
		case "create":
			created[o.In.ID]++
			if created[o.In.ID] > 1 {
				r.Violate("create-succeeded-twice:"+backend, replay, "Create succeeded twice for one log ID on %s", backend)
			}
		}
		if o.Out.Err != "" {
			r.Violate("replace-returned-wrong-checkpoint:"+backend, replay, "%s", o.Out.Err)
		}
	}
	// successful op kinds observed
	for _, o := range ops {
		r.DistinctKey(fmt.Sprintf("%s/%s/%s/ok=%v/nf=%v", backend, workload, o.In.Kind, o.Out.OK, o.Out.NotFound))
	}
}

func tailOps(ops []lockOp, n int) []lockOp {
	if len(ops) > n {
		return ops[len(ops)-n:]
	}
	return ops
}

// sequentialSanity: deterministic expectations without concurrency.
func sequentialSanity(r *Run, backend string, b ctlog.LockBackend, reopen func() ctlog.LockBackend) {
	ctx := context.Background()
	info := map[string]any{"backend": backend, "workload": "sequential"}
	r.Eval(1)
	unknown := sha256.Sum256([]byte("never created " + backend))
	if _, err := b.Fetch(ctx, unknown); err == nil {
		r.Violate("fetch-unknown-succeeded:"+backend, info, "Fetch of an unknown log ID succeeded")
	} else if !errors.Is(err, ctlog.ErrLogNotFound) {
		r.Violate("missing-log-not-reported-as-ErrLogNotFound:"+backend, info, "Fetch of a missing log on %s returned %q, which is not ErrLogNotFound", backend, truncateStr(err.Error(), 200))
	}
	id := sha256.Sum256([]byte("sanity " + backend + fmt.Sprint(monoNow())))
	vals := [][]byte{[]byte("first"), {}, []byte("with\x00nul"), []byte("same"), []byte("same"), []byte("last")}
	if err := b.Create(ctx, id, vals[0]); err != nil {
		r.Violate("create-failed:"+backend, info, "Create of a fresh log failed: %v", err)
		return
	}
	if err := b.Create(ctx, id, []byte("again")); err == nil {
		r.Violate("create-overwrote:"+backend, info, "Create succeeded over an existing value")
	}
	cur, err := b.Fetch(ctx, id)
	if err != nil || string(cur.Bytes()) != "first" {
		r.Violate("fetch-after-create:"+backend, info, "Fetch after Create returned %v, %v", cur, err)
		return
	}
	for i, v := range vals[1:] {
		stale := cur
		nl, err := b.Replace(ctx, cur, v)
		if err != nil {
			if string(v) == string(stale.Bytes()) {
				r.Count("replace_with_identical_value_refused_"+backend, 1) // documented TODO in sqlite.go; not judged
				continue
			}
			r.Violate("replace-with-fetched-value-failed:"+backend, info, "Replace #%d with the value just fetched failed: %v", i, err)
			return
		}
		cur = nl
		if got, err := b.Fetch(ctx, id); err != nil || string(got.Bytes()) != string(v) {
			r.Violate("fetch-after-replace:"+backend, info, "Fetch after Replace #%d returned %q, %v; want %q", i, bytesOf(got), err, v)
		}
		if string(v) != string(stale.Bytes()) {
			if _, err := b.Replace(ctx, stale, []byte("stale-writer")); err == nil {
				r.Violate("stale-replace-succeeded:"+backend, info, "Replace with a stale checkpoint succeeded")
				return
			}
		}
	}
	if reopen != nil {
		b2 := reopen()
		got, err := b2.Fetch(ctx, id)
		if err != nil || string(got.Bytes()) != "last" {
			r.Violate("value-lost-on-reopen:"+backend, info, "after reopening, Fetch returned %q, %v", bytesOf(got), err)
		}
	}
	r.DistinctKey(backend + "/sequential")
}

func bytesOf(l ctlog.LockedCheckpoint) []byte {
	if l == nil {
		return nil
	}
	return l.Bytes()
}

// ---- SQLite -----------------------------------------------------------------

func newSQLiteFile(dir string) string {
	p := filepath.Join(dir, fmt.Sprintf("lock-%d.db", monoNow()))
	c, err := sqlite.OpenConn(p, 0)
	if err != nil {
		panic(err)
	}
	if err := sqlitex.ExecTransient(c, "CREATE TABLE checkpoints (logID BLOB PRIMARY KEY, body BLOB NOT NULL) STRICT", nil); err != nil {
		panic(err)
	}
	c.Close()
	return p
}

func runClients(clients []*lockClient, opsEach int) []lockOp {
	var wg sync.WaitGroup
	// exactly one client may ever write the empty value (values must stay unique)
	for i, c := range clients {
		used := i != 0 || c.usedEmpty
		wg.Add(1)
		go func() {
			defer wg.Done()
			for i := 0; i < opsEach; i++ {
				c.step(&used)
			}
			c.usedEmpty = c.usedEmpty || used
		}()
	}
	wg.Wait()
	var all []lockOp
	for _, c := range clients {
		all = append(all, c.ops...)
	}
	sort.Slice(all, func(i, j int) bool { return all[i].Call < all[j].Call })
	return all
}

func TestC05SQLite(t *testing.T) {
	r := NewRun(t, "C05", "sqlite")
	r.Rule = "real NewSQLiteBackend on a real file: (a) 2-16 goroutines on one handle, (b) 2-4 handles (connections) on one file, (c) 2-5 separate OS processes, (d) reopen between phases; 1-3 log IDs, unique values (some with NUL bytes, long, one empty), 150-600 operations per history; recorded at the LockBackend boundary with CLOCK_MONOTONIC and checked with porcupine against a nondeterministic CAS-register model (failed writes may or may not have taken effect) plus exact uniqueness monitors; distinct = (workload, op kind, outcome)"
	rng := NewRng(r.Seed, "c05sqlite")
	shard, _ := shardInfo()
	rng = rng.Fork(fmt.Sprint(shard))
	dir := scratchRoot()
	ctx := context.Background()
	open := func(p string) ctlog.LockBackend {
		b, err := ctlog.NewSQLiteBackend(ctx, p, discardLogger)
		if err != nil {
			panic(err)
		}
		return b
	}
	p0 := newSQLiteFile(dir)
	sequentialSanity(r, "sqlite", open(p0), func() ctlog.LockBackend { return open(p0) })
	n := pick(16, 120)
	if raceEnabled {
		n = pick(5, 20)
	}
	for h := 0; h < n; h++ {
		p := newSQLiteFile(dir)
		ids := 1 + rng.Intn(3)
		workload := []string{"goroutines-one-handle", "handles-one-file", "reopen"}[h%3]
		var clients []*lockClient
		nc := 2 + rng.Intn(7)
		shared := open(p)
		for i := 0; i < nc; i++ {
			b := shared
			if workload != "goroutines-one-handle" && i%2 == 1 {
				b = open(p)
			}
			clients = append(clients, &lockClient{id: i, b: b, rng: rng.Fork(fmt.Sprint(h, "/", i)), ids: ids, last: map[int]ctlog.LockedCheckpoint{}, pid: fmt.Sprint("h", h)})
		}
		ops := runClients(clients, 30+rng.Intn(50))
		if workload == "reopen" {
			// second phase on fresh handles: earlier values must still be there
			for i, c := range clients {
				c.b = open(p)
				c.last = map[int]ctlog.LockedCheckpoint{}
				c.ops = nil
				_ = i
			}
			ops = append(ops, runClients(clients, 20+rng.Intn(30))...)
		}
		checkLockHistory(r, "sqlite", workload, ops, map[string]any{"clients": nc, "ids": ids})
	}
}

// TestC05SQLiteProcesses runs separate OS processes against one file.
func TestC05SQLiteProcesses(t *testing.T) {
	r := NewRun(t, "C05", "sqlite-processes")
	r.Rule = "2-5 separate OS processes (the harness binary re-executed as a lock client) on one SQLite file, each logging call/return around every LockBackend call with CLOCK_MONOTONIC; merged history checked as above"
	rng := NewRng(r.Seed, "c05proc")
	dir := scratchRoot()
	n := pick(6, 40)
	for h := 0; h < n; h++ {
		if !mine(h) {
			continue
		}
		p := newSQLiteFile(dir)
		np := 2 + rng.Intn(4)
		ids := 1 + rng.Intn(2)
		var cmds []*exec.Cmd
		var outs []string
		for i := 0; i < np; i++ {
			out := filepath.Join(dir, fmt.Sprintf("hist-%d-%d.jsonl", h, i))
			outs = append(outs, out)
			cmd := exec.Command(os.Args[0], "-test.run", "^TestHelperLockClient$")
			cmd.Env = append(os.Environ(), "VERIF_HELPER=lockclient", "VERIF_LOCK_DB="+p, "VERIF_LOCK_OUT="+out,
				fmt.Sprintf("VERIF_LOCK_CLIENT=%d", i), fmt.Sprintf("VERIF_LOCK_IDS=%d", ids), fmt.Sprintf("VERIF_LOCK_SEED=%d", rng.U64()>>1), fmt.Sprintf("VERIF_LOCK_OPS=%d", 60+rng.Intn(60)), "VERIF_OUT=")
			cmds = append(cmds, cmd)
		}
		for _, c := range cmds {
			if err := c.Start(); err != nil {
				r.Inconcl("cannot start lock client: %v", err)
			}
		}
		for _, c := range cmds {
			c.Wait()
		}
		var ops []lockOp
		for _, o := range outs {
			f, err := os.Open(o)
			if err != nil {
				r.Inconcl("lock client wrote no history: %v", err)
				continue
			}
			sc := bufio.NewScanner(f)
			sc.Buffer(make([]byte, 1<<20), 1<<20)
			for sc.Scan() {
				var op lockOp
				if json.Unmarshal(sc.Bytes(), &op) == nil {
					ops = append(ops, op)
				}
			}
			f.Close()
		}
		sort.Slice(ops, func(i, j int) bool { return ops[i].Call < ops[j].Call })
		checkLockHistory(r, "sqlite", "processes", ops, map[string]any{"processes": np, "ids": ids})
	}
}

func TestHelperLockClient(t *testing.T) {
	if os.Getenv("VERIF_HELPER") != "lockclient" {
		t.Skip("helper")
	}
	b, err := ctlog.NewSQLiteBackend(context.Background(), os.Getenv("VERIF_LOCK_DB"), discardLogger)
	if err != nil {
		t.Fatal(err)
	}
	id := int(envInt("VERIF_LOCK_CLIENT", 0))
	c := &lockClient{id: id, b: b, rng: NewRng(envInt("VERIF_LOCK_SEED", 1), "p"), ids: int(envInt("VERIF_LOCK_IDS", 1)), last: map[int]ctlog.LockedCheckpoint{}, pid: fmt.Sprint("p", os.Getpid())}
	f, err := os.Create(os.Getenv("VERIF_LOCK_OUT"))
	if err != nil {
		t.Fatal(err)
	}
	defer f.Close()
	w := bufio.NewWriter(f)
	for i := 0; i < int(envInt("VERIF_LOCK_OPS", 50)); i++ {
		c.step(nil)
		j, _ := json.Marshal(c.ops[len(c.ops)-1])
		w.Write(append(j, '\n'))
	}
	w.Flush()
}

// ---- DynamoDB and ETag fakes ------------------------------------------------

func TestC05Dynamo(t *testing.T) {
	r := NewRun(t, "C05", "dynamodb")
	r.Rule = "real NewDynamoDBBackend through the AWS SDK against a protocol-level fake (conditions honoured, stale answer for non-consistent reads, random delays, 500 responses applied or not); 2-10 goroutine clients; same checkers; plus a request monitor (every PutItem carries a condition on the fetched value)"
	r.Assume("the fake, not AWS, defines DynamoDB's semantics: what is decided is that sunlight's requests make a faithful service behave as a CAS register")
	rng := NewRng(r.Seed, "c05ddb")
	shard, _ := shardInfo()
	rng = rng.Fork(fmt.Sprint(shard))
	ctx := context.Background()
	n := pick(16, 150)
	if raceEnabled {
		n = pick(5, 20)
	}
	for h := 0; h < n; h++ {
		faults := &fakeFaults{rng: rng.Fork(fmt.Sprint("f", h)), DelayUs: 300}
		workload := "clean"
		if h%2 == 1 {
			faults.Fail500, faults.ApplyOn50 = 8, 50
			workload = "faulty"
		}
		fake := newFakeDynamo(faults)
		b, err := ctlog.NewDynamoDBBackend(ctx, "us-east-1", "locks", fake.srv.URL, discardLogger)
		if err != nil {
			t.Fatal(err)
		}
		if h == 0 {
			sequentialSanity(r, "dynamodb", b, nil)
		}
		ids := 1 + rng.Intn(3)
		nc := 2 + rng.Intn(9)
		var clients []*lockClient
		for i := 0; i < nc; i++ {
			clients = append(clients, &lockClient{id: i, b: b, rng: rng.Fork(fmt.Sprint(h, "/", i)), ids: ids, last: map[int]ctlog.LockedCheckpoint{}, pid: fmt.Sprint("d", h)})
		}
		ops := runClients(clients, 25+rng.Intn(40))
		checkLockHistory(r, "dynamodb", workload, ops, map[string]any{"clients": nc, "ids": ids, "requests": fake.Reqs})
		for _, v := range fake.Viol {
			r.Violate(v.ID, map[string]any{"backend": "dynamodb"}, "%s", v.Msg)
		}
		if fake.Reqs["GetItem_inconsistent"] > 0 {
			r.Violate("dynamodb-inconsistent-read", map[string]any{"backend": "dynamodb"}, "%d GetItem requests were not marked ConsistentRead", fake.Reqs["GetItem_inconsistent"])
		}
		r.Count("dynamodb_requests", int64(fake.Reqs["GetItem"]+fake.Reqs["PutItem"]))
		fake.srv.Close()
	}
}

func TestC05ETag(t *testing.T) {
	r := NewRun(t, "C05", "etag")
	r.Rule = "real NewETagBackend through the AWS SDK against a protocol-level fake S3 (ETag per version, If-Match honoured, `If-Match: \"\"` = create only if absent, delays, 500 responses applied or not); same clients, checkers and request monitor (every PutObject carries If-Match)"
	r.Assume("the fake, not Tigris/S3, defines the service semantics")
	rng := NewRng(r.Seed, "c05etag")
	shard, _ := shardInfo()
	rng = rng.Fork(fmt.Sprint(shard))
	ctx := context.Background()
	n := pick(16, 150)
	if raceEnabled {
		n = pick(5, 20)
	}
	for h := 0; h < n; h++ {
		faults := &fakeFaults{rng: rng.Fork(fmt.Sprint("f", h)), DelayUs: 300}
		workload := "clean"
		if h%2 == 1 {
			faults.Fail500, faults.ApplyOn50 = 8, 50
			workload = "faulty"
		}
		fake := newFakeS3(faults)
		b, err := ctlog.NewETagBackend(ctx, "us-east-1", "locks", fake.srv.URL, discardLogger)
		if err != nil {
			t.Fatal(err)
		}
		if h == 0 {
			sequentialSanity(r, "etag", b, nil)
		}
		ids := 1 + rng.Intn(3)
		nc := 2 + rng.Intn(9)
		var clients []*lockClient
		for i := 0; i < nc; i++ {
			clients = append(clients, &lockClient{id: i, b: b, rng: rng.Fork(fmt.Sprint(h, "/", i)), ids: ids, last: map[int]ctlog.LockedCheckpoint{}, pid: fmt.Sprint("e", h)})
		}
		ops := runClients(clients, 25+rng.Intn(40))
		checkLockHistory(r, "etag", workload, ops, map[string]any{"clients": nc, "ids": ids, "requests": fake.Reqs})
		for _, v := range fake.Viol {
			r.Violate(v.ID, map[string]any{"backend": "etag"}, "%s", v.Msg)
		}
		r.Count("s3_requests", int64(fake.Reqs["GET"]+fake.Reqs["PUT"]))
		fake.srv.Close()
	}
}
