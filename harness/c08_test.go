package verifharness

import (
	"bytes"
	"compress/gzip"
	"context"
	"fmt"
	"sort"
	"strings"
	"testing"

	"filippo.io/sunlight/internal/ctlog"
)

type TamperOp struct {
	Class string `json:"class"` // checkpoint | hash | hash-edge | data | names | staging | issuer | roots
	Pick  int    `json:"pick"`
	Kind  string `json:"kind"` // delete | truncate | flip | swap | rollback | fork-checkpoint | bad-gzip | gzip-bomb | empty
	Arg   int    `json:"arg"`
	Key   string `json:"key,omitempty"` // resolved key (filled when applied)
}

type tamperCase struct {
	Start int        `json:"start"`
	When  string     `json:"when"` // before-load | after-crash | live
	Crash *CrashSpec `json:"crash,omitempty"`
	Ops   []TamperOp `json:"ops"`
	Pool  int        `json:"pool"`
}

func (tc *tamperCase) String() string {
	var s []string
	for _, o := range tc.Ops {
		s = append(s, fmt.Sprintf("%s/%s#%d", o.Class, o.Kind, o.Arg))
	}
	return fmt.Sprintf("start=%d %s pool=%d %s", tc.Start, tc.When, tc.Pool, strings.Join(s, ","))
}

func keysOfClass(w *World, class string, size int64) []string {
	var out []string
	for _, k := range w.Keys() {
		c := keyClass(k)
		switch class {
		case "checkpoint", "roots":
			if (class == "checkpoint" && k == "checkpoint") || (class == "roots" && k == "_roots.pem") {
				out = append(out, k)
			}
		case "hash-edge":
			if c == "hash" {
				if t, ok := refParseTilePath(k); ok {
					cnt := size >> (8 * uint(t.L))
					if (t.W < 256 && t.N == cnt/256 && int64(t.W) == cnt%256) || (t.W == 256 && t.N == cnt/256-1 && cnt%256 == 0) {
						out = append(out, k)
					}
				}
			}
		default:
			if c == class {
				out = append(out, k)
			}
		}
	}
	sort.Strings(out)
	return out
}

func applyTamper(env *LogEnv, rng *Rng, op *TamperOp) bool {
	size := int64(0)
	if sth := env.LockSTH(); sth != nil {
		size = sth.Size
	}
	keys := keysOfClass(env.W, op.Class, size)
	if len(keys) == 0 {
		return false
	}
	key := keys[op.Pick%len(keys)]
	op.Key = key
	cur, _ := env.W.Get(key)
	switch op.Kind {
	case "delete":
		env.W.Delete(key)
	case "empty":
		env.W.Put(key, []byte{})
	case "truncate":
		if len(cur) == 0 {
			return false
		}
		env.W.Put(key, bytes.Clone(cur[:op.Arg%len(cur)]))
	case "flip":
		if len(cur) == 0 {
			return false
		}
		b := bytes.Clone(cur)
		bit := op.Arg % (len(b) * 8)
		b[bit/8] ^= 1 << uint(bit%8)
		env.W.Put(key, b)
	case "flip-payload": // flip inside the gunzipped payload, recompress
		raw, err := refGunzip(cur)
		if err != nil || len(raw) == 0 {
			return false
		}
		bit := op.Arg % (len(raw) * 8)
		raw[bit/8] ^= 1 << uint(bit%8)
		env.W.Put(key, refGzip(raw))
	case "append-junk": // valid gzip of payload || junk
		raw, err := refGunzip(cur)
		if err != nil {
			return false
		}
		env.W.Put(key, refGzip(append(raw, rng.Bytes(1+op.Arg%40)...)))
	case "append-entry": // payload || one more well-formed TileLeaf
		raw, err := refGunzip(cur)
		if err != nil {
			return false
		}
		extra := refTileLeaf(nil, &RefEntry{Timestamp: 1, Cert: rng.Bytes(10), LeafIndex: int64(op.Arg)})
		env.W.Put(key, refGzip(append(raw, extra...)))
	case "swap":
		other := keys[(op.Pick+1+op.Arg%len(keys))%len(keys)]
		if other == key {
			return false
		}
		ob, _ := env.W.Get(other)
		env.W.Put(key, ob)
		env.W.Put(other, cur)
	case "rollback":
		vs := env.W.Versions(key)
		var older [][]byte
		for _, v := range vs {
			if !v.Deleted && !bytes.Equal(v.Data, cur) {
				older = append(older, v.Data)
			}
		}
		if len(older) == 0 {
			return false
		}
		env.W.Put(key, older[op.Arg%len(older)])
	case "fork-checkpoint":
		// a checkpoint for a different tree of the same (Arg%3==0), smaller or
		// larger size, validly signed with the log's own keys
		sth := env.LockSTH()
		if sth == nil {
			return false
		}
		n := sth.Size
		switch op.Arg % 3 {
		case 1:
			n = sth.Size + 1
		case 2:
			if n > 0 {
				n--
			}
		}
		var root [32]byte
		copy(root[:], rng.Bytes(32))
		cp, err := ctlog.VerifSignTreeHead(env.config(NewInst(env.W, "forger")), n, root, sth.Timestamp-1)
		if err != nil {
			return false
		}
		env.W.Put(key, cp)
	case "bad-gzip":
		if len(cur) < 12 {
			return false
		}
		b := bytes.Clone(cur)
		b[op.Arg%10] ^= 0xff
		env.W.Put(key, b)
	case "gzip-bomb":
		var buf bytes.Buffer
		zw, _ := gzip.NewWriterLevel(&buf, gzip.BestCompression)
		zw.Write(make([]byte, 8<<20))
		zw.Close()
		env.W.Put(key, buf.Bytes())
	default:
		return false
	}
	return true
}

func runTamperCase(r *Run, bases *baseStates, tc *tamperCase) {
	env := bases.envs[tc.Start].Fork()
	env.AuditPub = false
	env.AuditUploads = true
	env.CaseInfo = func() any { return tc }
	defer env.Cleanup()
	r.Eval(1)
	rng := NewRng(int64(tc.Start*977+tc.Pool+len(tc.Ops)), "c08")
	var tamperedIssuers [][]byte // original bytes of issuer objects that were altered
	var li *LogInst
	var err error
	tamper := func() int {
		n := 0
		for i := range tc.Ops {
			var before map[string][]byte
			if tc.Ops[i].Class == "issuer" {
				before = map[string][]byte{}
				for _, k := range keysOfClass(env.W, "issuer", 0) {
					before[k], _ = env.W.Get(k)
				}
			}
			if applyTamper(env, rng, &tc.Ops[i]) {
				n++
				for k, b := range before {
					if now, ok := env.W.Get(k); (!ok || !bytes.Equal(now, b)) && fmt.Sprintf("issuer/%x", refSHA(b)) == k {
						tamperedIssuers = append(tamperedIssuers, b)
					}
				}
			}
		}
		return n
	}
	var loadPlan func(c *Call) Decision
	switch tc.When {
	case "during-load":
		// storage answers differently from one read of an object to the next
		// while the server starts: the first TamperOp's object is served altered
		// from the k-th fetch on (or only at the first fetch)
		shadow := &LogEnv{R: env.R, W: env.W.Clone(), Name: env.Name, Key: env.Key, LogID: env.LogID}
		op := &tc.Ops[0]
		if !applyTamper(shadow, rng, op) {
			r.Count("tamper_not_applicable", 1)
			return
		}
		altered, present := shadow.W.Get(op.Key)
		key, mode, nfetch := op.Key, op.Arg%3, 0
		loadPlan = func(c *Call) Decision {
			if c.Kind != OpFetch || c.Key != key {
				return decideOK
			}
			nfetch++
			hit := (mode == 0) || (mode == 1 && nfetch >= 2) || (mode == 2 && nfetch == 1)
			if !hit {
				return decideOK
			}
			r.Count("fetches_answered_with_altered_object", 1)
			if !present {
				return Decision{Err: fmt.Errorf("%w: %q", errNotFound, key)}
			}
			return Decision{Apply: true, FetchData: altered, HasFetchData: true}
		}
	case "after-crash":
		li, err = env.Load("A", nil)
		if err != nil {
			env.violate("load-of-base-failed", "%v", err)
			return
		}
		for i := 0; i < max(1, tc.Pool); i++ {
			li.Submit(genEntry(rng, cheapShape(rng)), false)
		}
		simNow.Add(9)
		_, want := (&RoundPlan{Crash: tc.Crash}).Install(li.In)
		li.Sequence(want)
		li.Abandon()
		li = nil
		if tamper() == 0 {
			r.Count("tamper_not_applicable", 1)
			return
		}
	case "live":
		li, err = env.Load("A", nil)
		if err != nil {
			env.violate("load-of-base-failed", "%v", err)
			return
		}
		if tamper() == 0 {
			r.Count("tamper_not_applicable", 1)
			return
		}
	default:
		if tamper() == 0 {
			r.Count("tamper_not_applicable", 1)
			return
		}
	}
	r.Count("tamperings_applied", 1)
	outcome := "continued"
	for round := 0; round < 3; round++ {
		if li == nil {
			simNow.Add(5)
			li, err = env.Load(fmt.Sprint("L", round), loadPlan)
			if err != nil {
				outcome = "load-refused"
				li = nil
				break
			}
		}
		var subs []*Sub
		k := tc.Pool
		if round > 0 {
			k = 1 + round
		}
		for i := 0; i < k; i++ {
			subs = append(subs, li.Submit(genEntry(rng, cheapShape(rng)), false))
		}
		// several submissions through each issuer whose stored object was altered
		for _, ib := range tamperedIssuers {
			for i := 0; i < 3; i++ {
				e := genEntry(rng, ShapeBlobX509)
				e.Issuers = [][]byte{ib}
				subs = append(subs, li.Submit(e, false))
			}
		}
		simNow.Add(7)
		err, _ := li.Sequence(nil)
		for _, s := range subs {
			a := li.WaitAck(context.Background(), s)
			a.StorageChecked = true // storage is adversarial here: judge against the truth only
			if a.OK {
				// an acknowledged entry's issuers must be retrievable and genuine
				for _, ib := range s.E.Issuers {
					fp := refSHA(ib)
					if got, ok := env.W.Get(fmt.Sprintf("issuer/%x", fp)); !ok || refSHA(got) != fp {
						// informational: outside the statement (no checkpoint is affected)
						r.Count("info_acked_with_altered_issuer_object", 1)
					}
				}
				r.Count("acks_after_tamper", 1)
			}
		}
		if err != nil {
			outcome = "round-fatal"
			break
		}
		if round == 1 { // restart in the middle
			li.Abandon()
			li = nil
		}
	}
	if li != nil {
		li.Abandon()
	}
	r.Count("outcome_"+outcome, 1)
	r.DistinctKey(tc.String() + "=>" + outcome)
	env.CheckAcks()
}

func TestC08Tamper(t *testing.T) {
	r := NewRun(t, "C08", "tamper")
	r.Rule = "per object class (checkpoint, hash tiles, right-edge hash tiles, data, names, staging bundle, issuer, roots) x tamper kind (delete, empty, truncate, bit flip raw / in gunzipped payload, swap, rollback, validly signed fork/older checkpoint, bad gzip, gzip bomb), singles exhaustively per class/kind at each start size plus seeded pairs/triples; applied before load, between a crash and its recovery, and under a live instance; oracle = every lock commit afterwards extends the harness-held committed tree by exactly the round's pool (reference MTH); distinct = (case, outcome)"
	r.Assume("the lock store is trusted (not tampered); the harness holds the ground-truth leaf list outside the tampered store")
	rng := NewRng(r.Seed, "c08")
	starts := []int{1, 255, 256, 257, 513}
	if thorough() {
		starts = []int{1, 2, 255, 256, 257, 511, 512, 513, 700}
	}
	bases := buildBases(r, rng, starts)
	defer bases.Cleanup()
	var rc tamperCase
	if replayCase("C08", "tamper", &rc) {
		runTamperCase(r, bases, &rc)
		return
	}
	classes := []string{"checkpoint", "hash", "hash-edge", "data", "names", "staging", "issuer", "roots"}
	kinds := []string{"delete", "empty", "truncate", "flip", "flip-payload", "swap", "rollback", "fork-checkpoint", "bad-gzip", "gzip-bomb", "append-junk", "append-entry"}
	valid := func(class, kind string) bool {
		switch kind {
		case "fork-checkpoint":
			return class == "checkpoint"
		case "flip-payload", "bad-gzip", "gzip-bomb":
			return class == "data" || class == "names" || class == "staging"
		case "append-junk", "append-entry":
			return class == "data"
		case "swap":
			return class != "checkpoint" && class != "roots" && class != "staging"
		}
		return true
	}
	var cases []*tamperCase
	crashes := []*CrashSpec{{Phase: "tiles", Mask: 0}, {Phase: "tiles", Mask: 0x2b}, {Phase: "idx", Idx: 1, Applied: true}}
	for _, start := range starts {
		for _, class := range classes {
			for _, kind := range kinds {
				if !valid(class, kind) {
					continue
				}
				reps := pick(3, 6)
				for rep := 0; rep < reps; rep++ {
					op := TamperOp{Class: class, Kind: kind, Pick: rng.Intn(1000), Arg: rng.Intn(100000)}
					when := "before-load"
					var cr *CrashSpec
					if class == "staging" || rep%3 == 1 {
						when = "after-crash"
						cr = crashes[rng.Intn(len(crashes))]
					} else if rep%3 == 2 {
						when = "live"
					}
					cases = append(cases, &tamperCase{Start: start, When: when, Crash: cr, Ops: []TamperOp{op}, Pool: pickOne(rng, []int{0, 1, 3, 258})})
				}
			}
		}
	}
	// objects that change between two reads during start-up
	for _, start := range starts {
		for _, class := range []string{"checkpoint", "hash-edge", "hash-edge", "hash", "data", "staging", "roots"} {
			for _, kind := range []string{"flip", "flip-payload", "rollback", "truncate", "delete", "swap"} {
				if !valid(class, kind) {
					continue
				}
				for rep := 0; rep < pick(1, 4); rep++ {
					cases = append(cases, &tamperCase{Start: start, When: "during-load", Ops: []TamperOp{{Class: class, Kind: kind, Pick: rng.Intn(1000), Arg: rng.Intn(100000)}}, Pool: pickOne(rng, []int{1, 2, 3, 258})})
				}
			}
		}
	}
	nm := pick(900, 12000)
	for i := 0; i < nm; i++ { // pairs and triples
		tc := &tamperCase{Start: pickOne(rng, starts), When: pickOne(rng, []string{"before-load", "after-crash", "live"}), Pool: pickOne(rng, []int{0, 1, 2, 257})}
		if tc.When == "after-crash" {
			tc.Crash = crashes[rng.Intn(len(crashes))]
		}
		for j := 0; j < 2+rng.Intn(2); j++ {
			for {
				c, k := pickOne(rng, classes), pickOne(rng, kinds)
				if valid(c, k) {
					tc.Ops = append(tc.Ops, TamperOp{Class: c, Kind: k, Pick: rng.Intn(1000), Arg: rng.Intn(100000)})
					break
				}
			}
		}
		cases = append(cases, tc)
	}
	for i, tc := range cases {
		if !mine(i) {
			continue
		}
		runTamperCase(r, bases, tc)
		if i%401 == 0 {
			r.Sample(tc.String())
		}
	}
	if r.Counter("outcome_load-refused") == 0 || r.Counter("outcome_continued") == 0 {
		r.Inconcl("tamper outcomes not diverse: refused=%d continued=%d", r.Counter("outcome_load-refused"), r.Counter("outcome_continued"))
	}
}
