package verifharness

// X.509 chain generator for C09 (standard library only) and an independent
// precertificate "defanger" written on raw ASN.1.

import (
	"crypto/ecdsa"
	"crypto/rand"
	"crypto/x509"
	"crypto/x509/pkix"
	"encoding/asn1"
	"errors"
	"fmt"
	"math/big"
	"time"
)

var (
	oidPoison   = asn1.ObjectIdentifier{1, 3, 6, 1, 4, 1, 11129, 2, 4, 3}
	oidCTEKU    = asn1.ObjectIdentifier{1, 3, 6, 1, 4, 1, 11129, 2, 4, 4}
	oidAKI      = asn1.ObjectIdentifier{2, 5, 29, 35}
	oidSCTList  = asn1.ObjectIdentifier{1, 3, 6, 1, 4, 1, 11129, 2, 4, 2}
	asn1NullDER = []byte{5, 0}
)

type genCert struct {
	Key  *ecdsa.PrivateKey
	Cert *x509.Certificate
	DER  []byte
}

var serialCounter int64 = 1000

func nextSerial() *big.Int {
	serialCounter++
	return big.NewInt(serialCounter)
}

func makeCA(rng *Rng, cn string, parent *genCert) *genCert {
	k := detECDSA(rng)
	tmpl := &x509.Certificate{
		SerialNumber: nextSerial(), Subject: pkix.Name{CommonName: cn, Organization: []string{"Verif CA"}},
		NotBefore: time.Date(2020, 1, 1, 0, 0, 0, 0, time.UTC), NotAfter: time.Date(2040, 1, 1, 0, 0, 0, 0, time.UTC),
		IsCA: true, BasicConstraintsValid: true, KeyUsage: x509.KeyUsageCertSign | x509.KeyUsageCRLSign,
		SubjectKeyId: rng.Bytes(20),
	}
	signer, signerKey := tmpl, k
	if parent != nil {
		signer, signerKey = parent.Cert, parent.Key
	}
	der, err := x509.CreateCertificate(rand.Reader, tmpl, signer, k.Public(), signerKey)
	if err != nil {
		panic(err)
	}
	c, err := x509.ParseCertificate(der)
	if err != nil {
		panic(err)
	}
	return &genCert{k, c, der}
}

// makePreIssuer makes a precertificate signing certificate (CT EKU) under ca.
func makePreIssuer(rng *Rng, cn string, ca *genCert) *genCert {
	k := detECDSA(rng)
	tmpl := &x509.Certificate{
		SerialNumber: nextSerial(), Subject: pkix.Name{CommonName: cn, Organization: []string{"Verif Precert Signing"}},
		NotBefore: time.Date(2020, 1, 1, 0, 0, 0, 0, time.UTC), NotAfter: time.Date(2040, 1, 1, 0, 0, 0, 0, time.UTC),
		IsCA: true, BasicConstraintsValid: true, KeyUsage: x509.KeyUsageDigitalSignature | x509.KeyUsageCertSign,
		UnknownExtKeyUsage: []asn1.ObjectIdentifier{oidCTEKU}, SubjectKeyId: rng.Bytes(20),
	}
	der, err := x509.CreateCertificate(rand.Reader, tmpl, ca.Cert, k.Public(), ca.Key)
	if err != nil {
		panic(err)
	}
	c, _ := x509.ParseCertificate(der)
	return &genCert{k, c, der}
}

type leafSpec struct {
	NotAfter time.Time
	EKU      string // server | server+client | client | none
	Poison   string // "" | ok | noncritical | badvalue
	SCTs     bool
}

func makeLeaf(rng *Rng, id int64, issuer *genCert, sp leafSpec) *genCert {
	k := genLeafKey()
	tmpl := &x509.Certificate{
		SerialNumber: nextSerial(), Subject: pkix.Name{CommonName: fmt.Sprintf("leaf%d.verif.test", id)},
		DNSNames:  []string{fmt.Sprintf("leaf%d.verif.test", id)},
		NotBefore: sp.NotAfter.Add(-90 * 24 * time.Hour), NotAfter: sp.NotAfter,
		KeyUsage: x509.KeyUsageDigitalSignature,
	}
	switch sp.EKU {
	case "server":
		tmpl.ExtKeyUsage = []x509.ExtKeyUsage{x509.ExtKeyUsageServerAuth}
	case "server+client":
		tmpl.ExtKeyUsage = []x509.ExtKeyUsage{x509.ExtKeyUsageClientAuth, x509.ExtKeyUsageServerAuth}
	case "client":
		tmpl.ExtKeyUsage = []x509.ExtKeyUsage{x509.ExtKeyUsageClientAuth}
	}
	switch sp.Poison {
	case "ok":
		tmpl.ExtraExtensions = append(tmpl.ExtraExtensions, pkix.Extension{Id: oidPoison, Critical: true, Value: asn1NullDER})
	case "noncritical":
		tmpl.ExtraExtensions = append(tmpl.ExtraExtensions, pkix.Extension{Id: oidPoison, Critical: false, Value: asn1NullDER})
	case "badvalue":
		tmpl.ExtraExtensions = append(tmpl.ExtraExtensions, pkix.Extension{Id: oidPoison, Critical: true, Value: []byte{4, 1, 0}})
	}
	der, err := x509.CreateCertificate(rand.Reader, tmpl, issuer.Cert, k.Public(), issuer.Key)
	if err != nil {
		panic(err)
	}
	c, _ := x509.ParseCertificate(der)
	return &genCert{k, c, der}
}

// ---- independent defanger ---------------------------------------------------

// refDefang derives the RFC 6962 3.2 TBSCertificate of a precertificate from
// the DER of the precertificate: the poison extension is removed; if the
// precertificate was issued by a precertificate signing certificate, the issuer
// name and the authority key identifier are replaced by those of the signing
// certificate's own issuer. Works on raw ASN.1, independent of ct-go.
func refDefang(precertDER []byte, preIssuerDER []byte) ([]byte, error) {
	var cert struct {
		TBS asn1.RawValue
		Alg asn1.RawValue
		Sig asn1.BitString
	}
	if rest, err := asn1.Unmarshal(precertDER, &cert); err != nil || len(rest) != 0 {
		return nil, errors.New("certificate does not parse")
	}
	// TBSCertificate fields, kept raw
	var fields []asn1.RawValue
	rest := cert.TBS.Bytes
	for len(rest) > 0 {
		var f asn1.RawValue
		var err error
		rest, err = asn1.Unmarshal(rest, &f)
		if err != nil {
			return nil, err
		}
		fields = append(fields, f)
	}
	// version [0] EXPLICIT is optional; issuer is the third field after it
	off := 0
	if len(fields) > 0 && fields[0].Class == asn1.ClassContextSpecific && fields[0].Tag == 0 {
		off = 1
	}
	issuerIdx := off + 2
	var newIssuer, newAKI []byte
	if preIssuerDER != nil {
		var pi struct {
			TBS asn1.RawValue
			Alg asn1.RawValue
			Sig asn1.BitString
		}
		if _, err := asn1.Unmarshal(preIssuerDER, &pi); err != nil {
			return nil, err
		}
		var pf []asn1.RawValue
		r := pi.TBS.Bytes
		for len(r) > 0 {
			var f asn1.RawValue
			var err error
			r, err = asn1.Unmarshal(r, &f)
			if err != nil {
				return nil, err
			}
			pf = append(pf, f)
		}
		po := 0
		if pf[0].Class == asn1.ClassContextSpecific && pf[0].Tag == 0 {
			po = 1
		}
		newIssuer = pf[po+2].FullBytes
		for _, f := range pf {
			if f.Class == asn1.ClassContextSpecific && f.Tag == 3 {
				var exts []pkix.Extension
				if _, err := asn1.Unmarshal(f.Bytes, &exts); err != nil {
					return nil, err
				}
				for _, e := range exts {
					if e.Id.Equal(oidAKI) {
						newAKI = e.Value
					}
				}
			}
		}
	}
	var out []byte
	for i, f := range fields {
		switch {
		case i == issuerIdx && newIssuer != nil:
			out = append(out, newIssuer...)
		case f.Class == asn1.ClassContextSpecific && f.Tag == 3:
			var exts []pkix.Extension
			if _, err := asn1.Unmarshal(f.Bytes, &exts); err != nil {
				return nil, err
			}
			var kept []pkix.Extension
			for _, e := range exts {
				if e.Id.Equal(oidPoison) {
					continue
				}
				if e.Id.Equal(oidAKI) && preIssuerDER != nil && newAKI != nil {
					e.Value = newAKI
				}
				kept = append(kept, e)
			}
			inner, err := asn1.Marshal(kept)
			if err != nil {
				return nil, err
			}
			wrapped, err := asn1.Marshal(asn1.RawValue{Class: asn1.ClassContextSpecific, Tag: 3, IsCompound: true, Bytes: inner})
			if err != nil {
				return nil, err
			}
			out = append(out, wrapped...)
		default:
			out = append(out, f.FullBytes...)
		}
	}
	return asn1.Marshal(asn1.RawValue{Class: asn1.ClassUniversal, Tag: asn1.TagSequence, IsCompound: true, Bytes: out})
}
