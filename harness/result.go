package verifharness

// Result collection: every workload reports what its monitors observed to a
// Run, which writes one JSON document for the ./check driver to merge into
// /verif/evidence/<id>.json.

import (
	"crypto/sha256"
	"encoding/hex"
	"encoding/json"
	"fmt"
	"os"
	"path/filepath"
	"sort"
	"strconv"
	"sync"
	"testing"
	"time"
)

type Violation struct {
	// ID identifies the failing input / call site / history shape stably, so
	// that a known finding can be matched without hiding other violations.
	ID     string `json:"id"`
	Msg    string `json:"msg"`
	Replay string `json:"replay,omitempty"`
}

type Run struct {
	mu           sync.Mutex
	Property     string            `json:"property_id"`
	Tier         string            `json:"tier"`
	Seed         int64             `json:"seed"`
	Part         string            `json:"part"`
	Evaluations  int64             `json:"evaluations"`
	Rule         string            `json:"rule"`
	Samples      []any             `json:"samples"`
	Counters     map[string]int64  `json:"counters"`
	Violations   []Violation       `json:"violations"`
	Inconclusive []string          `json:"inconclusive"`
	Assumptions  []string          `json:"assumptions"`
	Distinct     int64             `json:"distinct_nontrivial"`
	DistinctKeys []string          `json:"distinct_keys"`
	Exhaustive   bool              `json:"exhaustive"`
	Notes        map[string]string `json:"notes,omitempty"`
	WallS        float64           `json:"wall_s"`

	distinct map[string]struct{}
	start    time.Time
	t        testing.TB
	maxSamp  int
	replayN  int
}

func envInt(name string, def int64) int64 {
	if v := os.Getenv(name); v != "" {
		if n, err := strconv.ParseInt(v, 10, 64); err == nil {
			return n
		}
	}
	return def
}

func tier() string {
	if os.Getenv("VERIF_TIER") == "thorough" {
		return "thorough"
	}
	return "quick"
}

func thorough() bool { return tier() == "thorough" }

// pick returns q in the quick tier and t in the thorough tier.
func pick(q, t int) int {
	if thorough() {
		return t
	}
	return q
}

func NewRun(t testing.TB, property, part string) *Run {
	r := &Run{
		Property: property, Tier: tier(), Seed: envInt("VERIF_SEED", 1), Part: part,
		Counters: map[string]int64{}, distinct: map[string]struct{}{}, start: time.Now(), t: t,
		maxSamp: 6, Notes: map[string]string{},
	}
	t.Cleanup(r.Finish)
	return r
}

func (r *Run) Eval(n int64) {
	r.mu.Lock()
	r.Evaluations += n
	r.mu.Unlock()
}

// Distinct records a non-trivial case under its distinguishing key.
func (r *Run) DistinctKey(k string) {
	r.mu.Lock()
	r.distinct[k] = struct{}{}
	r.mu.Unlock()
}

func (r *Run) Count(name string, n int64) {
	r.mu.Lock()
	r.Counters[name] += n
	r.mu.Unlock()
}

func (r *Run) Counter(name string) int64 {
	r.mu.Lock()
	defer r.mu.Unlock()
	return r.Counters[name]
}

func (r *Run) Sample(s any) {
	r.mu.Lock()
	if len(r.Samples) < r.maxSamp {
		r.Samples = append(r.Samples, s)
	}
	r.mu.Unlock()
}

func (r *Run) Assume(s string) {
	r.mu.Lock()
	for _, a := range r.Assumptions {
		if a == s {
			r.mu.Unlock()
			return
		}
	}
	r.Assumptions = append(r.Assumptions, s)
	r.mu.Unlock()
}

func (r *Run) Inconcl(format string, a ...any) {
	r.mu.Lock()
	if len(r.Inconclusive) < 50 {
		r.Inconclusive = append(r.Inconclusive, fmt.Sprintf(format, a...))
	}
	r.mu.Unlock()
}

// Violate records a violation with a replay document.
func (r *Run) Violate(id string, replay any, format string, a ...any) {
	msg := fmt.Sprintf(format, a...)
	r.mu.Lock()
	defer r.mu.Unlock()
	r.Counters["violations_total"]++
	for _, v := range r.Violations {
		if v.ID == id {
			return // one witness per id is enough
		}
	}
	if len(r.Violations) >= 40 {
		return
	}
	v := Violation{ID: id, Msg: msg}
	if dir := os.Getenv("VERIF_REPLAY_DIR"); dir != "" {
		r.replayN++
		p := filepath.Join(dir, fmt.Sprintf("%s-%s-%d.json", r.Property, r.Part, r.replayN))
		doc := map[string]any{"property": r.Property, "part": r.Part, "seed": r.Seed, "tier": r.Tier, "id": id, "msg": msg, "case": replay}
		if b, err := json.MarshalIndent(doc, "", " "); err == nil {
			if os.WriteFile(p, b, 0o644) == nil {
				v.Replay = p
			}
		}
	}
	r.Violations = append(r.Violations, v)
	if r.t != nil {
		r.t.Logf("VIOLATION %s: %s", id, msg)
	}
}

func (r *Run) NumViolations() int {
	r.mu.Lock()
	defer r.mu.Unlock()
	return len(r.Violations)
}

func (r *Run) Finish() {
	r.mu.Lock()
	defer r.mu.Unlock()
	r.Distinct = int64(len(r.distinct))
	for k := range r.distinct {
		if len(r.DistinctKeys) >= 300000 {
			break
		}
		h := sha256.Sum256([]byte(k))
		r.DistinctKeys = append(r.DistinctKeys, hex.EncodeToString(h[:8]))
	}
	r.WallS = time.Since(r.start).Seconds()
	if r.Samples == nil {
		r.Samples = []any{}
	}
	if r.Violations == nil {
		r.Violations = []Violation{}
	}
	if r.Inconclusive == nil {
		r.Inconclusive = []string{}
	}
	sort.Strings(r.Assumptions)
	out := os.Getenv("VERIF_OUT")
	if r.t != nil && len(r.Violations) > 0 {
		r.t.Errorf("%d violation(s) recorded for %s/%s", len(r.Violations), r.Property, r.Part)
	}
	if out == "" {
		if r.t != nil {
			r.t.Logf("run %s/%s: evaluations=%d distinct=%d violations=%d inconclusive=%d counters=%v",
				r.Property, r.Part, r.Evaluations, r.Distinct, len(r.Violations), len(r.Inconclusive), r.Counters)
		}
		return
	}
	b, err := json.Marshal(r)
	if err != nil {
		panic(err)
	}
	f, err := os.OpenFile(out, os.O_APPEND|os.O_CREATE|os.O_WRONLY, 0o644)
	if err != nil {
		panic(err)
	}
	defer f.Close()
	f.Write(append(b, '\n'))
}

// replayCase returns the "case" member of the replay document named by
// VERIF_REPLAY, if this run's property/part match.
func replayCase(property, part string, into any) bool {
	p := os.Getenv("VERIF_REPLAY")
	if p == "" {
		return false
	}
	b, err := os.ReadFile(p)
	if err != nil {
		return false
	}
	var doc struct {
		Property string          `json:"property"`
		Part     string          `json:"part"`
		Case     json.RawMessage `json:"case"`
	}
	if json.Unmarshal(b, &doc) != nil || doc.Property != property || doc.Part != part {
		return false
	}
	return json.Unmarshal(doc.Case, into) == nil
}

// ---- PRNG ------------------------------------------------------------------

// Rng is splitmix64: small, seedable, and forkable per case.
type Rng struct{ s uint64 }

func NewRng(seed int64, stream string) *Rng {
	r := &Rng{s: uint64(seed)*0x9E3779B97F4A7C15 + 0x1234567}
	for _, c := range []byte(stream) {
		r.s = (r.s ^ uint64(c)) * 0x100000001B3
		r.U64()
	}
	return r
}

func (r *Rng) U64() uint64 {
	r.s += 0x9E3779B97F4A7C15
	z := r.s
	z = (z ^ (z >> 30)) * 0xBF58476D1CE4E5B9
	z = (z ^ (z >> 27)) * 0x94D049BB133111EB
	return z ^ (z >> 31)
}

func (r *Rng) Intn(n int) int {
	if n <= 0 {
		return 0
	}
	return int(r.U64() % uint64(n))
}

func (r *Rng) Bool() bool { return r.U64()&1 == 1 }

func (r *Rng) Bytes(n int) []byte {
	b := make([]byte, n)
	for i := 0; i < n; i += 8 {
		v := r.U64()
		for j := 0; j < 8 && i+j < n; j++ {
			b[i+j] = byte(v >> (8 * j))
		}
	}
	return b
}

// Read implements io.Reader so that key generation can be seeded.
func (r *Rng) Read(p []byte) (int, error) {
	copy(p, r.Bytes(len(p)))
	return len(p), nil
}

func (r *Rng) Fork(stream string) *Rng {
	return NewRng(int64(r.U64()), stream)
}

func pickOne[T any](r *Rng, xs []T) T { return xs[r.Intn(len(xs))] }
