package verifharness

// System-level workloads: the real cmd/sunlight binary (built from /repo) as a
// child process on a real LocalBackend directory, a real SQLite lock database
// and a real SQLite deduplication cache, driven over HTTP with generated
// chains. The process is killed at seeded moments (SIGKILL by timer, or by
// strace's syscall-triggered signal injection, i.e. between or inside storage
// operations at system-call granularity) and restarted; or two processes run
// against the same lock database and directory. The oracle reads only what a
// monitor can read: the directory, the lock database and the HTTP answers.

import (
	"bytes"
	"context"
	"crypto/ecdsa"
	"crypto/sha256"
	"crypto/x509"
	"encoding/base64"
	"encoding/json"
	"fmt"
	"io"
	"net"
	"net/http"
	"os"
	"os/exec"
	"path/filepath"
	"regexp"
	"sort"
	"strings"
	"sync"
	"sync/atomic"
	"syscall"
	"testing"
	"time"

	"crawshaw.io/sqlite"
	"crawshaw.io/sqlite/sqlitex"
)

const (
	sysHost   = "sys.verif.test"
	sysPath   = "/log1"
	sysOrigin = sysHost + sysPath
)

type sysFixture struct {
	R        *Run
	Base     string
	LogDir   string
	LockDB   string
	Seed     []byte
	Key      *ecdsa.PrivateKey
	LogID    [32]byte
	PKI      *c09PKI
	PeriodMs int
	mon      *http.Server
	monPort  int
	nextID   atomic.Int64
	// witnessYAML, if set, is appended to the configuration (witness section).
	witnessYAML string
	// shard window of the log (default: 2020 - 2090)
	windowStart, windowLimit time.Time
	// cfgEdit, if set, rewrites the generated YAML before it is written.
	cfgEdit func(string) string
	// keepAlive adds a second, always active log to the configuration: a server
	// whose logs are all read-only has no sequencer to supervise and exits.
	keepAlive bool

	mu       sync.Mutex
	acks     []*sysAck
	seenCps  map[string]*RefSTH // every verified checkpoint ever observed (published file or lock row)
	info     map[string]any
	stopPoll chan struct{}
	pollWG   sync.WaitGroup
}

type sysAck struct {
	ID        int64
	Want      *RefEntry // independent derivation; LeafIndex/Timestamp from the SCT
	Proc      string
	PubSizeAt int64 // size of the published checkpoint read right after the answer arrived
}

type sysProc struct {
	Name   string
	Port   int
	cmd    *exec.Cmd
	logp   string
	done   chan struct{}
	exit   *error // set when the process has ended (shared with relaunched copies)
	strace bool
	// relaunch starts the same configuration again on a fresh port (used when
	// the chosen port was taken by someone else in the meantime)
	relaunch func() *sysProc
}

func newSysFixture(r *Run, rng *Rng) *sysFixture {
	f := &sysFixture{R: r, seenCps: map[string]*RefSTH{}, info: map[string]any{}, PeriodMs: 100}
	f.Base, _ = os.MkdirTemp(scratchRoot(), "sys-")
	f.LogDir = filepath.Join(f.Base, "log")
	os.MkdirAll(f.LogDir, 0o755)
	f.Seed = rng.Bytes(32)
	os.WriteFile(filepath.Join(f.Base, "seed.bin"), f.Seed, 0o600)
	f.Key = logKeyFromSeed(f.Seed)
	spki, _ := x509.MarshalPKIXPublicKey(f.Key.Public())
	f.LogID = sha256.Sum256(spki)
	f.PKI = newC09PKI(rng.Fork("pki"))
	os.WriteFile(filepath.Join(f.Base, "roots.pem"), pemOf(f.PKI.roots["accepted"]), 0o644)
	f.LockDB = filepath.Join(f.Base, "checkpoints.db")
	c, err := sqlite.OpenConn(f.LockDB, 0)
	if err != nil {
		panic(err)
	}
	if err := sqlitex.ExecTransient(c, "CREATE TABLE checkpoints (logID BLOB PRIMARY KEY, body BLOB NOT NULL) STRICT", nil); err != nil {
		panic(err)
	}
	c.Close()
	// the monitoring prefix: a plain file server over the log directory
	ln, err := net.Listen("tcp", "127.0.0.1:0")
	if err != nil {
		panic(err)
	}
	f.monPort = ln.Addr().(*net.TCPAddr).Port
	mux := http.NewServeMux()
	mux.Handle("/log2/", http.StripPrefix("/log2/", http.FileServer(http.Dir(filepath.Join(f.Base, "log2")))))
	mux.Handle("/", http.FileServer(http.Dir(f.LogDir)))
	f.mon = &http.Server{Handler: mux}
	go f.mon.Serve(ln)
	return f
}

// serves reports whether the server answering on p's port publishes this
// fixture's log key (log.v3.json as served by cmd/sunlight itself).
func (f *sysFixture) serves(p *sysProc) bool {
	req, _ := http.NewRequest("GET", fmt.Sprintf("http://127.0.0.1:%d%s/log.v3.json", p.Port, sysPath), nil)
	req.Host = sysHost
	resp, err := sysClient.Do(req)
	if err != nil {
		return false
	}
	defer resp.Body.Close()
	var info struct {
		Key []byte `json:"key"`
	}
	if json.NewDecoder(resp.Body).Decode(&info) != nil {
		return false
	}
	spki, _ := x509.MarshalPKIXPublicKey(f.Key.Public())
	return bytes.Equal(info.Key, spki)
}

// sysRace: the server binary under test is the race-detector build.
func sysRace() bool { return os.Getenv("VERIF_SYS_RACE") != "" }

func sysBinary() string {
	if sysRace() {
		return verifBin("sunlight.race")
	}
	return verifBin("sunlight")
}

var reRaceFrame = regexp.MustCompile(`(?m)^\s+(\S+?)\(.*\n\s+(/\S+?):(\d+)`)

// collectRaces turns the race detector's reports of the server processes into
// violations (stacks inside the repository) keyed by the pair of innermost
// repository frames.
func (f *sysFixture) collectRaces() {
	if !sysRace() {
		return
	}
	files, _ := filepath.Glob(filepath.Join(f.Base, "race-*"))
	for _, fn := range files {
		b, err := os.ReadFile(fn)
		if err != nil {
			continue
		}
		for _, blk := range strings.Split(string(b), "WARNING: DATA RACE")[1:] {
			blk = strings.SplitN(blk, "==================", 2)[0]
			f.R.Count("race_reports", 1)
			var key []string
			for _, st := range strings.Split(strings.TrimSpace(blk), "\n\n") {
				for _, m := range reRaceFrame.FindAllStringSubmatch(st, -1) {
					if strings.HasPrefix(m[2], envStr("VERIF_REPO", "/repo")+"/") {
						key = append(key, m[1])
						break
					}
				}
				if len(key) == 2 {
					break
				}
			}
			if len(key) == 0 {
				f.R.Count("race_reports_outside_repository", 1)
				continue
			}
			sort.Strings(key)
			id := fmt.Sprintf("data-race:%x", sha256.Sum256([]byte(strings.Join(key, "|"))))[:22]
			f.violate(id, "the race detector reported a data race in the running server: %s\n%s", strings.Join(key, " <-> "), truncateStr(blk, 1500))
		}
	}
}

func (f *sysFixture) Close() {
	f.collectRaces()
	if f.stopPoll != nil {
		close(f.stopPoll)
		f.pollWG.Wait()
	}
	f.mon.Close()
	unlockTree(f.Base)
	os.RemoveAll(f.Base)
}

func (f *sysFixture) violate(id, format string, a ...any) {
	f.mu.Lock()
	info := map[string]any{}
	for k, v := range f.info {
		info[k] = v
	}
	f.mu.Unlock()
	f.R.Violate(id, info, format, a...)
}

func (f *sysFixture) writeConfig(name string, port int, periodMs int) string {
	var b strings.Builder
	fmt.Fprintf(&b, "listen:\n  - \"127.0.0.1:%d\"\n", port)
	fmt.Fprintf(&b, "checkpoints: %s\n", f.LockDB)
	fmt.Fprintf(&b, "logs:\n  - shortname: sys1\n")
	fmt.Fprintf(&b, "    inception: \"%s\"\n", time.Now().Format(time.DateOnly))
	fmt.Fprintf(&b, "    period: %d\n", periodMs)
	fmt.Fprintf(&b, "    submissionprefix: https://%s%s\n", sysHost, sysPath)
	fmt.Fprintf(&b, "    monitoringprefix: http://127.0.0.1:%d\n", f.monPort)
	fmt.Fprintf(&b, "    roots: %s\n", filepath.Join(f.Base, "roots.pem"))
	fmt.Fprintf(&b, "    secret: %s\n", filepath.Join(f.Base, "seed.bin"))
	fmt.Fprintf(&b, "    cache: %s\n", filepath.Join(f.Base, "cache-"+name+".db"))
	fmt.Fprintf(&b, "    localdirectory: %s\n", f.LogDir)
	ws, wl := "2020-01-01T00:00:00Z", "2090-01-01T00:00:00Z"
	if !f.windowStart.IsZero() {
		ws, wl = f.windowStart.Format(time.RFC3339), f.windowLimit.Format(time.RFC3339)
	}
	fmt.Fprintf(&b, "    notafterstart: \"%s\"\n    notafterlimit: \"%s\"\n", ws, wl)
	if f.keepAlive {
		os.MkdirAll(filepath.Join(f.Base, "log2"), 0o755)
		if _, err := os.Stat(filepath.Join(f.Base, "seed2.bin")); err != nil {
			os.WriteFile(filepath.Join(f.Base, "seed2.bin"), bytes.Repeat([]byte{0x5a}, 32), 0o600)
		}
		fmt.Fprintf(&b, "  - shortname: sys2\n    inception: \"%s\"\n    period: 200\n    submissionprefix: https://%s/log2\n    monitoringprefix: http://127.0.0.1:%d/log2\n    roots: %s\n    secret: %s\n    cache: %s\n    localdirectory: %s\n    notafterstart: \"2020-01-01T00:00:00Z\"\n    notafterlimit: \"2090-01-01T00:00:00Z\"\n",
			time.Now().Format(time.DateOnly), sysHost, f.monPort, filepath.Join(f.Base, "roots.pem"), filepath.Join(f.Base, "seed2.bin"), filepath.Join(f.Base, "cache2-"+name+".db"), filepath.Join(f.Base, "log2"))
	}
	b.WriteString(f.witnessYAML)
	y := b.String()
	if f.cfgEdit != nil {
		y = f.cfgEdit(y)
	}
	p := filepath.Join(f.Base, "sunlight-"+name+".yaml")
	os.WriteFile(p, []byte(y), 0o644)
	return p
}

// start launches the binary; inject is an optional strace fault expression
// such as "fsync:signal=KILL:when=7".
func (f *sysFixture) start(name string, cacheName string, periodMs int, inject string) *sysProc {
	p := &sysProc{Name: name, Port: freePort(), done: make(chan struct{}), exit: new(error)}
	p.relaunch = func() *sysProc { return f.start(name, cacheName, periodMs, inject) }
	cfg := f.writeConfig(cacheName, p.Port, periodMs)
	p.logp = filepath.Join(f.Base, fmt.Sprintf("proc-%s-%d.log", name, f.nextID.Add(1)))
	lf, _ := os.Create(p.logp)
	if inject != "" {
		sys := strings.SplitN(inject, ":", 2)[0]
		p.cmd = exec.Command("strace", "-f", "-qq", "-o", "/dev/null", "-e", "trace="+sys, "-e", "inject="+inject, sysBinary(), "-c", cfg)
		p.strace = true
	} else {
		p.cmd = exec.Command(sysBinary(), "-c", cfg)
	}
	if sysRace() {
		p.cmd.Env = append(os.Environ(), "GORACE=halt_on_error=0 log_path="+filepath.Join(f.Base, "race-"+name))
	}
	p.cmd.Stdout, p.cmd.Stderr = lf, lf
	p.cmd.Dir = f.Base
	p.cmd.SysProcAttr = &syscall.SysProcAttr{Setpgid: true}
	if err := p.cmd.Start(); err != nil {
		panic(err)
	}
	go func() {
		*p.exit = p.cmd.Wait()
		lf.Close()
		close(p.done)
	}()
	return p
}

func (p *sysProc) alive() bool {
	select {
	case <-p.done:
		return false
	default:
		return true
	}
}

// kill ends the whole process group (strace and its tracee) with SIGKILL.
func (p *sysProc) kill() {
	if p.cmd.Process != nil {
		syscall.Kill(-p.cmd.Process.Pid, syscall.SIGKILL)
	}
	<-p.done
}

func (p *sysProc) interrupt(d time.Duration) bool {
	if !p.alive() {
		return true
	}
	if p.strace {
		p.kill()
		return true
	}
	p.cmd.Process.Signal(os.Interrupt)
	select {
	case <-p.done:
		return true
	case <-time.After(d):
		p.kill()
		return false
	}
}

// exitKind classifies why a server process ended by itself. An orderly fatal
// exit (the sequencer refuses to go on: clock did not progress between two
// rounds, a storage deadline passed, the compare-and-swap was lost) is the
// designed fail-stop behaviour and is tolerated; a Go runtime crash is not.
func (p *sysProc) exitKind() string {
	b, _ := os.ReadFile(p.logp)
	t := string(b)
	switch {
	case strings.Contains(t, "\npanic: ") || strings.Contains(t, "\nfatal error: ") || strings.Contains(t, "SIGSEGV"):
		return "runtime-crash"
	case strings.Contains(t, "time did not progress"):
		return "clock-did-not-progress"
	case strings.Contains(t, "deadline exceeded"):
		return "deadline"
	case strings.Contains(t, "sequencer error"):
		return "sequencer-error"
	}
	return "other"
}

// noteExit records a spontaneous end of a server process; only a runtime crash
// is a violation.
func (f *sysFixture) noteExit(p *sysProc, when string) {
	k := p.exitKind()
	f.R.Count("sys_server_exited_by_itself:"+k, 1)
	if k == "runtime-crash" {
		f.violate("server-crashed", "the server process crashed (%s): %s", when, p.logTail())
	}
}

// startServing starts the server until it serves (a process may end by itself
// at any time, see exitKind): up to four attempts.
func (f *sysFixture) startServing(name, cache string, periodMs int) *sysProc {
	for i := 0; i < 4; i++ {
		p := f.start(name, cache, periodMs, "")
		if p.waitReady(90 * time.Second) {
			return p
		}
		if p.alive() {
			p.kill()
			return nil
		}
		f.noteExit(p, "while starting")
		if k := p.exitKind(); k == "other" || k == "runtime-crash" {
			return p // dead: the caller reports the failed start
		}
	}
	return nil
}

// acceptOne: the log "keeps sequencing" if some server life accepts a
// submission; a life that ends by itself in an orderly way (see exitKind) is
// followed by another start, up to four. Returns the last process (maybe
// dead), whether a submission was accepted, and whether a start failed.
func (f *sysFixture) acceptOne(name, cache string, rng *Rng, mk func() *sysChain) (p *sysProc, accepted, startFailed bool) {
	for life := 0; life < 4; life++ {
		p = f.startServing(name, cache, f.PeriodMs)
		if p == nil {
			return nil, false, false // watchdog: inconclusive
		}
		if !p.alive() {
			return p, false, true
		}
		for i := 0; i < 3; i++ {
			if st, a := f.submit(p, mk()); st == 200 && a != nil {
				return p, true, false
			}
		}
		if p.alive() {
			return p, false, false // alive and refusing: judged by the caller
		}
		f.noteExit(p, "while judged for liveness")
	}
	return p, false, false
}

func (p *sysProc) logTail() string {
	b, _ := os.ReadFile(p.logp)
	if len(b) > 1500 {
		b = b[len(b)-1500:]
	}
	return string(b)
}

// waitReady waits until the listen port accepts connections (LoadLog is done
// by then) or the process exits. Wall clock only bounds the wait.
func (p *sysProc) waitReady(d time.Duration) bool {
	deadline := time.Now().Add(d)
	for tries := 0; time.Now().Before(deadline); {
		if !p.alive() {
			if tries < 3 && strings.Contains(p.logTail(), "failed to listen") {
				// the port picked for it was taken meanwhile: same start again
				tries++
				*p = *p.relaunch()
				continue
			}
			return false
		}
		c, err := net.DialTimeout("tcp", fmt.Sprintf("127.0.0.1:%d", p.Port), 200*time.Millisecond)
		if err == nil {
			c.Close()
			// the listener must be OUR process: a port number handed out by the
			// kernel can be taken by a server of another test shard once a
			// refused process has exited without ever listening
			time.Sleep(30 * time.Millisecond)
			if p.alive() {
				return true
			}
			continue
		}
		time.Sleep(10 * time.Millisecond)
	}
	return false
}

type sysChain struct {
	ID    int64
	Pre   bool
	Body  []byte
	Built *c09Built
}

func (f *sysFixture) newChain(rng *Rng) *sysChain {
	id := f.nextID.Add(1)
	k := c09Knobs{Root: "accepted", Inter: 1 + rng.Intn(2), Order: "ok", NotAfter: "inside", EKU: "server", Type: "final", Endpoint: "add-chain", Body: "ok"}
	if rng.Intn(3) == 0 {
		k.Type, k.Endpoint = "precert", "add-pre-chain"
		k.PreIssuer = rng.Intn(3) == 0
	}
	b := buildC09(rng, f.PKI, k, false, id)
	return &sysChain{ID: id, Pre: k.Type == "precert", Body: c09Body(k, b.chain), Built: b}
}

var sysClient = &http.Client{Timeout: 15 * time.Second, Transport: &http.Transport{DisableKeepAlives: true}}

// submit posts the chain; returns the HTTP status (0: transport error, outcome unknown).
func (f *sysFixture) submit(p *sysProc, ch *sysChain) (int, *sysAck) {
	ep := "add-chain"
	if ch.Pre {
		ep = "add-pre-chain"
	}
	req, _ := http.NewRequest("POST", fmt.Sprintf("http://127.0.0.1:%d%s/ct/v1/%s", p.Port, sysPath, ep), bytes.NewReader(ch.Body))
	req.Host = sysHost
	req.Header.Set("User-Agent", "verif-harness (verif@harness.test)")
	resp, err := sysClient.Do(req)
	if err != nil {
		return 0, nil
	}
	body, err := io.ReadAll(resp.Body)
	resp.Body.Close()
	if err != nil {
		return 0, nil
	}
	if resp.StatusCode != 200 {
		return resp.StatusCode, nil
	}
	// the checkpoint a monitor can read right now
	var pubSize int64 = -1
	if cp, err := os.ReadFile(filepath.Join(f.LogDir, "checkpoint")); err == nil {
		if sth := f.observe(cp, "published"); sth != nil {
			pubSize = sth.Size
		}
	}
	var sct struct {
		Version    int    `json:"sct_version"`
		ID         []byte `json:"id"`
		Timestamp  int64  `json:"timestamp"`
		Extensions string `json:"extensions"`
		Signature  []byte `json:"signature"`
	}
	if err := json.Unmarshal(body, &sct); err != nil {
		f.violate("sct-response-unparseable", "200 answer does not parse as an SCT: %v", err)
		return 200, nil
	}
	ext, err := base64.StdEncoding.DecodeString(sct.Extensions)
	if err != nil || len(ext) != 8 || ext[0] != 0 || ext[1] != 0 || ext[2] != 5 || !bytes.Equal(sct.ID, f.LogID[:]) {
		f.violate("sct-malformed", "SCT log id / extensions wrong: %q", sct.Extensions)
		return 200, nil
	}
	idx := int64(ext[3])<<32 | int64(ext[4])<<24 | int64(ext[5])<<16 | int64(ext[6])<<8 | int64(ext[7])
	want := &RefEntry{Timestamp: sct.Timestamp, LeafIndex: idx}
	b := ch.Built
	if ch.Pre {
		want.IsPrecert = true
		var pi []byte
		if b.preIssuer != nil {
			pi = b.preIssuer.DER
		}
		tbs, err := refDefang(b.leaf.DER, pi)
		if err != nil {
			panic(err)
		}
		want.Cert, want.PreCert = tbs, b.leaf.DER
		want.IssuerKeyHash = sha256.Sum256(b.issuerCA.Cert.RawSubjectPublicKeyInfo)
	} else {
		want.Cert = b.leaf.DER
	}
	if err := refVerifySCT(f.Key.Public(), want, sct.Signature); err != nil {
		f.violate("sct-does-not-verify", "SCT does not verify over the independently derived leaf: %v", err)
	}
	a := &sysAck{ID: ch.ID, Want: want, Proc: p.Name, PubSizeAt: pubSize}
	if pubSize <= idx {
		f.violate("ack-before-publication", "process %s answered 200 with leaf index %d while the checkpoint file has size %d", p.Name, idx, pubSize)
	}
	f.mu.Lock()
	f.acks = append(f.acks, a)
	f.mu.Unlock()
	f.R.Count("sys_acks", 1)
	return 200, a
}

// observe verifies a checkpoint and remembers it for the end-of-history
// prefix check. Returns nil if it does not verify under the log key.
func (f *sysFixture) observe(cp []byte, where string) *RefSTH {
	sth, err := refVerifyRFC6962Checkpoint(cp, sysOrigin, f.Key.Public())
	if err != nil {
		if len(bytes.TrimSpace(cp)) > 0 {
			f.violate("checkpoint-unverifiable:"+where, "%s checkpoint does not verify under the log key: %v", where, err)
		}
		return nil
	}
	f.mu.Lock()
	if _, ok := f.seenCps[string(cp)]; !ok {
		f.seenCps[string(cp)] = sth
		f.R.Count("sys_checkpoints_observed:"+where, 1)
	}
	f.mu.Unlock()
	return sth
}

func (f *sysFixture) lockCheckpoint() []byte {
	c, err := sqlite.OpenConn(f.LockDB, sqlite.SQLITE_OPEN_READONLY)
	if err != nil {
		return nil
	}
	defer c.Close()
	c.SetBusyTimeout(2 * time.Second)
	var out []byte
	sqlitex.Exec(c, "SELECT body FROM checkpoints WHERE logID = ?", func(stmt *sqlite.Stmt) error {
		out = make([]byte, stmt.ColumnLen(0))
		stmt.ColumnBytes(0, out)
		return nil
	}, f.LogID[:])
	return out
}

// startPolling samples the published checkpoint and the lock row while the
// processes run (what a monitor would see over time).
func (f *sysFixture) startPolling() {
	f.stopPoll = make(chan struct{})
	f.pollWG.Add(1)
	go func() {
		defer f.pollWG.Done()
		var lastPub *RefSTH
		for i := 0; ; i++ {
			select {
			case <-f.stopPoll:
				return
			case <-time.After(3 * time.Millisecond):
			}
			if cp, err := os.ReadFile(filepath.Join(f.LogDir, "checkpoint")); err == nil {
				if sth := f.observe(cp, "published"); sth != nil {
					if lastPub != nil && (sth.Size < lastPub.Size || sth.Timestamp < lastPub.Timestamp) {
						f.violate("published-checkpoint-went-back", "the checkpoint file went from size %d / time %d to size %d / time %d", lastPub.Size, lastPub.Timestamp, sth.Size, sth.Timestamp)
					}
					lastPub = sth
				}
			}
			if i%8 == 0 {
				if cp := f.lockCheckpoint(); cp != nil {
					f.observe(cp, "lock")
				}
			}
		}
	}()
}

// storedLeaves decodes the data tiles for a tree of the given size.
func (f *sysFixture) storedLeaves(size int64) ([]*RefEntry, string) {
	var leaves []*RefEntry
	for n := int64(0); n*256 < size; n++ {
		w := int(min(256, size-n*256))
		var b []byte
		var err error
		ww := w
		if b, err = os.ReadFile(filepath.Join(f.LogDir, filepath.FromSlash(refTilePath(TileCoord{-1, n, w})))); err != nil {
			ww = 256
			if b, err = os.ReadFile(filepath.Join(f.LogDir, filepath.FromSlash(refTilePath(TileCoord{-1, n, 256})))); err != nil {
				return nil, refTilePath(TileCoord{-1, n, w}) + " missing"
			}
		}
		raw, err := refGunzip(b)
		if err != nil {
			return nil, fmt.Sprintf("data tile %d: %v", n, err)
		}
		es, err := refDecodeDataTile(raw, ww)
		if err != nil {
			return nil, fmt.Sprintf("data tile %d: %v", n, err)
		}
		leaves = append(leaves, es[:w]...)
	}
	return leaves, ""
}

// auditAt audits the directory at a tree head: every tile present with the
// reference bytes for the stored leaves, and the stored leaves hash to the root.
func (f *sysFixture) auditAt(sth *RefSTH, what string) []*RefEntry {
	leaves, msg := f.storedLeaves(sth.Size)
	if msg != "" {
		f.violate("tree-not-in-storage:"+what, "tree of the %s checkpoint (size %d) is not completely in storage: %s", what, sth.Size, msg)
		return nil
	}
	lh := make([]Hash, len(leaves))
	for i, l := range leaves {
		lh[i] = refLeafHash(refMerkleTreeLeaf(l))
		if l.LeafIndex != int64(i) || l.Timestamp > sth.Timestamp {
			f.violate("stored-leaf-index-or-time:"+what, "stored leaf %d carries index %d, timestamp %d (tree head %d)", i, l.LeafIndex, l.Timestamp, sth.Timestamp)
		}
	}
	if root := refMTH(lh); root != sth.Root {
		f.violate("stored-leaves-do-not-hash-to-root:"+what, "the %d stored leaves hash to %x, the %s checkpoint says %x", len(lh), root[:6], what, sth.Root[:6])
		return nil
	}
	if msg := auditDiskTree(f.LogDir, sth.Size, leaves); msg != "" {
		f.violate("tree-not-in-storage:"+what, "tree of the %s checkpoint (size %d): %s", what, sth.Size, msg)
	}
	f.R.Count("sys_tree_audits:"+what, 1)
	return leaves
}

// checkAcks: every acknowledged submission is at its index in the tree.
func (f *sysFixture) checkAcks(leaves []*RefEntry, what string) {
	f.mu.Lock()
	acks := append([]*sysAck(nil), f.acks...)
	f.mu.Unlock()
	for _, a := range acks {
		idx := a.Want.LeafIndex
		if idx >= int64(len(leaves)) {
			f.violate("acknowledged-entry-lost", "submission %d was acknowledged by %s with index %d but the %s tree has only %d leaves", a.ID, a.Proc, idx, what, len(leaves))
			continue
		}
		g := leaves[idx]
		if g.Timestamp != a.Want.Timestamp || g.IsPrecert != a.Want.IsPrecert || g.IssuerKeyHash != a.Want.IssuerKeyHash || !bytes.Equal(g.Cert, a.Want.Cert) {
			f.violate("acknowledged-entry-lost", "submission %d was acknowledged by %s with index %d, but the %s tree holds another entry or timestamp there", a.ID, a.Proc, idx, what)
		}
		f.R.Count("sys_acks_checked", 1)
	}
}

// checkPrefixes: every checkpoint ever observed is a prefix of the final leaves.
func (f *sysFixture) checkPrefixes(leaves []*RefEntry) {
	lh := make([]Hash, len(leaves))
	for i, l := range leaves {
		lh[i] = refLeafHash(refMerkleTreeLeaf(l))
	}
	mc := newMerkleCache(lh)
	f.mu.Lock()
	defer f.mu.Unlock()
	for _, sth := range f.seenCps {
		if sth.Size > int64(len(lh)) {
			// a lock-committed tree that is not (yet) published at the end
			f.R.Count("sys_prefix_checks_skipped_beyond_readable", 1)
			continue
		}
		f.R.Count("sys_prefix_checks", 1)
		if got := mc.Root(int(sth.Size)); got != sth.Root {
			f.mu.Unlock()
			f.violate("prefix-root-mismatch", "an observed checkpoint of size %d has root %x but the first %d final leaves hash to %x", sth.Size, sth.Root[:6], sth.Size, got[:6])
			f.mu.Lock()
		}
	}
}

// load runs submitters against p until stop is closed or p dies.
func (f *sysFixture) load(p *sysProc, rng *Rng, n int, stop chan struct{}) *sync.WaitGroup {
	var wg sync.WaitGroup
	for i := 0; i < n; i++ {
		wg.Add(1)
		srng := rng.Fork(fmt.Sprint("sub", i))
		go func() {
			defer wg.Done()
			var last *sysChain
			for {
				select {
				case <-stop:
					return
				default:
				}
				if !p.alive() {
					return
				}
				ch := f.newChain(srng)
				if last != nil && srng.Intn(5) == 0 {
					ch = last // resubmission
				}
				last = ch
				st, _ := f.submit(p, ch)
				if st == 0 {
					time.Sleep(2 * time.Millisecond)
				}
			}
		}()
	}
	return &wg
}

// storage system calls the server issues (LocalBackend: openat/fchmod/write/fsync/close/renameat/mkdirat;
// SQLite lock and cache: lseek/write/pread64/fsync/fcntl/unlink)
var sysInjectSyscalls = []string{"fsync", "fsync", "renameat", "renameat", "write", "openat", "fchmod", "close", "unlink", "fcntl", "lseek", "pread64", "mkdirat", "fchown"}

// TestSysCrash: kill -9 at seeded moments (timer, or on the N-th occurrence of
// a storage system call via strace injection), also during the recovery that
// follows, then restart and judge.
func TestSysCrash(t *testing.T) {
	r := NewRun(t, envStr("VERIF_SYS_PROPERTY", "C03"), "syscrash")
	r.Rule = "the built cmd/sunlight binary on LocalBackend + SQLite lock + SQLite cache under HTTP load, killed with SIGKILL by timer or by strace signal injection on the N-th fsync/rename/pwrite/unlink/... (also during the recovery start), restarted; judged: restart succeeds, tree at the lock checkpoint completely in storage after an idle restart, every 200-acknowledged SCT verifies and its entry is at its index afterwards, at answer time the checkpoint file covers the index, sequencing continues, every checkpoint ever observed (file polled every 3 ms, lock row) is a prefix of the final tree; distinct = (kill mode, syscall, N bucket, killed-in-recovery)"
	if _, err := os.Stat(verifBin("sunlight")); err != nil {
		r.Inconcl("sunlight binary not built: %v", err)
		return
	}
	rng := NewRng(r.Seed, "syscrash")
	shard, shards := shardInfo()
	cases := pick(3, 12)
	for ci := 0; ci < cases; ci++ {
		runSysCrashCase(r, rng.Fork(fmt.Sprint("case", shard, "/", shards, "/", ci)), pick(6, 14))
	}
}

func envStr(name, def string) string {
	if v := os.Getenv(name); v != "" {
		return v
	}
	return def
}

func runSysCrashCase(r *Run, rng *Rng, cycles int) {
	f := newSysFixture(r, rng)
	defer f.Close()
	defer func() {
		f.mu.Lock()
		h, _ := f.info["history"].([]string)
		f.mu.Unlock()
		r.Sample(map[string]any{"workload": "syscrash", "history": h})
	}()
	f.startPolling()
	var history []string
	f.info["workload"] = "syscrash"
	note := func(s string, a ...any) {
		f.mu.Lock()
		history = append(history, fmt.Sprintf(s, a...))
		f.info["history"] = append([]string(nil), history...)
		f.mu.Unlock()
	}
	inRecovery := false
	for cyc := 0; cyc < cycles; cyc++ {
		r.Eval(1)
		mode := pickOne(rng, []string{"timer", "timer", "inject", "inject", "attach", "attach", "attach"})
		if cyc == 0 {
			// creation of the log is neither sequencing nor recovery: it runs undisturbed
			mode = "timer"
		}
		inject, attach := "", ""
		if mode != "timer" {
			sys := pickOne(rng, sysInjectSyscalls)
			n := 1 + rng.Intn(pickOne(rng, []int{2, 4, 8, 20}))
			inject = fmt.Sprintf("%s:signal=KILL:when=%d", sys, n)
			if mode == "attach" {
				// the tracer is attached to the RUNNING server under load: the
				// N-th occurrence counts from that moment (a kill while sequencing)
				attach, inject = inject, ""
			}
			r.DistinctKey(fmt.Sprintf("%s/%s/n<%d/recovery=%v", mode, sys, 1<<uint(bitsFor(n)), inRecovery))
		} else {
			r.DistinctKey(fmt.Sprintf("timer/recovery=%v", inRecovery))
		}
		p := f.start("P", "main", f.PeriodMs, inject)
		note("cycle %d: start mode=%s inject=%q attach=%q", cyc, mode, inject, attach)
		ready := p.waitReady(60 * time.Second)
		if !ready {
			if p.alive() {
				p.kill()
				r.Inconcl("process did not become ready within the watchdog (cycle %d)", cyc)
				return
			}
			if inject == "" {
				f.violate("restart-after-crash-failed", "the server did not start after a crash (cycle %d): %s", cyc, p.logTail())
				return
			}
			// killed by the injection during start-up / recovery
			r.Count("sys_killed_during_startup", 1)
			note("killed during start-up")
			inRecovery = true
			continue
		}
		stop := make(chan struct{})
		nsub := 6
		if cyc == 0 {
			nsub = 14 // the first life fills the log: tiles larger than one 16 KiB chunk exist afterwards
		}
		wg := f.load(p, rng.Fork(fmt.Sprint("load", cyc)), nsub, stop)
		if mode == "timer" {
			if cyc == 0 {
				time.Sleep(1500 * time.Millisecond)
			}
			time.Sleep(time.Duration(20+rng.Intn(400)) * time.Millisecond)
			p.kill()
			r.Count("sys_kills_timer", 1)
		} else {
			var tracer *exec.Cmd
			if attach != "" {
				time.Sleep(time.Duration(50+rng.Intn(300)) * time.Millisecond)
				sys := strings.SplitN(attach, ":", 2)[0]
				tracer = exec.Command("strace", "-f", "-qq", "-o", "/dev/null", "-p", fmt.Sprint(p.cmd.Process.Pid), "-e", "trace="+sys, "-e", "inject="+attach)
				if err := tracer.Start(); err != nil {
					tracer = nil
				}
			}
			select {
			case <-p.done:
				r.Count("sys_kills_injected:"+mode, 1)
			case <-time.After(time.Duration(1500+rng.Intn(1500)) * time.Millisecond):
				p.kill()
				r.Count("sys_kills_timer_fallback", 1)
			}
			if tracer != nil {
				tracer.Process.Kill()
				tracer.Wait()
			}
		}
		close(stop)
		wg.Wait()
		inRecovery = true
		note("killed; lock=%s", describeCp(f, f.lockCheckpoint()))
	}
	// ---- idle restart: recovery only, no sequencing -------------------------
	p := f.start("P", "main", 3_600_000, "")
	if !p.waitReady(90 * time.Second) {
		if p.alive() {
			p.kill()
			r.Inconcl("idle restart did not become ready within the watchdog")
			return
		}
		f.violate("restart-after-crash-failed", "the server did not start after the crashes: %s", p.logTail())
		return
	}
	lockRaw := f.lockCheckpoint()
	lock := f.observe(lockRaw, "lock")
	if lock == nil {
		f.violate("lock-checkpoint-unreadable", "no verifiable checkpoint in the lock database after restart")
		p.kill()
		return
	}
	leaves := f.auditAt(lock, "lock")
	if leaves != nil {
		f.checkAcks(leaves, "lock-committed")
	}
	p.interrupt(5 * time.Second)
	// ---- the log keeps sequencing -------------------------------------------
	p, accepted, startFailed := f.acceptOne("P", "main", rng, func() *sysChain { return f.newChain(rng) })
	switch {
	case p == nil:
		r.Inconcl("final restart did not become ready within the watchdog")
		return
	case startFailed:
		f.violate("restart-after-crash-failed", "the server did not start again after the idle restart: %s", p.logTail())
		return
	case !accepted && p.alive():
		f.violate("log-does-not-sequence-after-recovery", "no submission was accepted after recovery: %s", p.logTail())
	case !accepted:
		r.Inconcl("four server lives in a row ended by themselves before accepting a submission (%s)", p.exitKind())
	}
	p.interrupt(5 * time.Second)
	// ---- final state at rest --------------------------------------------------
	close(f.stopPoll)
	f.pollWG.Wait()
	f.stopPoll = nil
	pubRaw, _ := os.ReadFile(filepath.Join(f.LogDir, "checkpoint"))
	pub := f.observe(pubRaw, "published")
	lock = f.observe(f.lockCheckpoint(), "lock")
	if pub == nil || lock == nil {
		f.violate("final-checkpoints-unreadable", "published or lock checkpoint unreadable at the end")
		return
	}
	if pub.Size > lock.Size {
		f.violate("published-ahead-of-lock", "published checkpoint (size %d) is ahead of the lock database (size %d)", pub.Size, lock.Size)
	}
	if leaves := f.auditAt(pub, "published"); leaves != nil {
		f.checkAcks(leaves, "published")
		// every observed checkpoint up to the published size is a prefix
		if lock.Size == pub.Size {
			f.checkPrefixes(leaves)
		} else if ll, msg := f.storedLeaves(lock.Size); msg == "" {
			f.checkPrefixes(ll)
		} else {
			f.checkPrefixes(leaves)
		}
	}
}

func bitsFor(n int) int {
	b := 0
	for n > 0 {
		b++
		n >>= 1
	}
	return b
}

func describeCp(f *sysFixture, raw []byte) string {
	if raw == nil {
		return "none"
	}
	sth, err := refVerifyRFC6962Checkpoint(raw, sysOrigin, f.Key.Public())
	if err != nil {
		return "unverifiable"
	}
	return fmt.Sprintf("size=%d", sth.Size)
}

// TestSysTwoProcesses: the same configuration started twice (own listen port
// and cache file, same lock database, same directory).
func TestSysTwoProcesses(t *testing.T) {
	r := NewRun(t, envStr("VERIF_SYS_PROPERTY", "C06"), "processes")
	r.Rule = "two real sunlight processes with the same key on the same SQLite lock database and LocalBackend directory (own port and cache), started 0-300 ms apart under HTTP load on both; judged: never two processes that both keep acknowledging, the one that stops exits with an error, every acknowledgement of either process is at its index in the final tree, every observed checkpoint is a prefix of it, the survivor (or a restart) keeps sequencing; distinct = (start offset bucket, which one survived, who acknowledged)"
	if _, err := os.Stat(verifBin("sunlight")); err != nil {
		r.Inconcl("sunlight binary not built: %v", err)
		return
	}
	rng := NewRng(r.Seed, "systwo")
	shard, shards := shardInfo()
	for ci := 0; ci < pick(3, 16); ci++ {
		runSysTwoCase(r, rng.Fork(fmt.Sprint("case", shard, "/", shards, "/", ci)))
	}
}

func runSysTwoCase(r *Run, rng *Rng) {
	f := newSysFixture(r, rng)
	defer f.Close()
	r.Eval(1)
	f.info["workload"] = "two-processes"
	f.startPolling()
	a := f.start("A", "a", f.PeriodMs, "")
	if !a.waitReady(60 * time.Second) {
		a.kill()
		r.Inconcl("first process did not become ready: %s", a.logTail())
		return
	}
	stop := make(chan struct{})
	wgA := f.load(a, rng.Fork("la"), 4, stop)
	offset := rng.Intn(300)
	time.Sleep(time.Duration(offset) * time.Millisecond)
	// the second start may be refused at start-up (that is a legal outcome)
	var b *sysProc
	for try := 0; try < 6; try++ {
		b = f.start("B", "b", f.PeriodMs, "")
		if b.waitReady(60 * time.Second) {
			break
		}
		if b.alive() {
			b.kill()
		}
		r.Count("sys_second_start_refused", 1)
		b = nil
		if !a.alive() {
			break
		}
	}
	f.info["offset_ms"] = offset
	var wgB *sync.WaitGroup
	if b != nil {
		wgB = f.load(b, rng.Fork("lb"), 4, stop)
	}
	// watch: at most one process may go on acknowledging
	acksOf := func(name string) int {
		f.mu.Lock()
		defer f.mu.Unlock()
		n := 0
		for _, x := range f.acks {
			if x.Proc == name {
				n++
			}
		}
		return n
	}
	deadline := time.Now().Add(25 * time.Second)
	for b != nil && a.alive() && b.alive() && time.Now().Before(deadline) {
		time.Sleep(20 * time.Millisecond)
	}
	if b != nil && a.alive() && b.alive() {
		// both survived the watchdog: they must not both be acknowledging
		a0, b0 := acksOf("A"), acksOf("B")
		time.Sleep(3 * time.Second)
		a1, b1 := acksOf("A"), acksOf("B")
		if a1 > a0 && b1 > b0 && a.alive() && b.alive() {
			f.violate("two-instances-kept-sequencing", "both processes are alive and acknowledging after 25 s on one lock database (A +%d, B +%d acknowledgements in 3 s)", a1-a0, b1-b0)
		} else {
			r.Count("sys_both_alive_one_silent", 1)
		}
	}
	time.Sleep(time.Duration(100+rng.Intn(200)) * time.Millisecond)
	close(stop)
	wgA.Wait()
	if wgB != nil {
		wgB.Wait()
	}
	surv := "none"
	for _, p := range []*sysProc{a, b} {
		if p == nil {
			continue
		}
		if p.alive() {
			surv = p.Name
		} else {
			r.Count("sys_process_stopped:"+p.Name, 1)
			if *p.exit == nil {
				f.violate("loser-exited-without-error", "process %s stopped with exit status 0", p.Name)
			}
			if !strings.Contains(p.logTail(), "sequencer error") && !strings.Contains(p.logTail(), "failed to") && !strings.Contains(p.logTail(), "fatal") {
				r.Count("sys_stop_reason_unrecognised", 1)
			}
		}
	}
	r.DistinctKey(fmt.Sprintf("offset<%d/survivor=%s/acksA=%v/acksB=%v", (offset/100+1)*100, surv, acksOf("A") > 0, acksOf("B") > 0))
	r.Sample(map[string]any{"workload": "two-processes", "second_started_after_ms": offset, "survivor": surv, "acks_a": acksOf("A"), "acks_b": acksOf("B")})
	for _, p := range []*sysProc{a, b} {
		if p != nil {
			p.interrupt(5 * time.Second)
		}
	}
	// a fresh start must load and sequence; then the final state is judged
	p, accepted, startFailed := f.acceptOne("C", "c", rng, func() *sysChain { return f.newChain(rng) })
	switch {
	case p == nil:
		r.Inconcl("restart did not become ready within the watchdog")
		return
	case startFailed:
		f.violate("restart-after-two-instances-failed", "a fresh start after the two-instance episode failed: %s", p.logTail())
		return
	case !accepted && p.alive():
		f.violate("log-does-not-sequence-after-recovery", "no submission was accepted after the two-instance episode: %s", p.logTail())
	case !accepted:
		r.Inconcl("four server lives in a row ended by themselves before accepting a submission (%s)", p.exitKind())
	}
	p.interrupt(5 * time.Second)
	close(f.stopPoll)
	f.pollWG.Wait()
	f.stopPoll = nil
	pubRaw, _ := os.ReadFile(filepath.Join(f.LogDir, "checkpoint"))
	pub := f.observe(pubRaw, "published")
	if pub == nil {
		f.violate("final-checkpoints-unreadable", "published checkpoint unreadable at the end")
		return
	}
	if leaves := f.auditAt(pub, "published"); leaves != nil {
		f.checkAcks(leaves, "published")
		lock := f.observe(f.lockCheckpoint(), "lock")
		if lock != nil && lock.Size != pub.Size {
			if ll, msg := f.storedLeaves(lock.Size); msg == "" {
				leaves = ll
			}
		}
		f.checkPrefixes(leaves)
	}
}

var _ = context.Background

// TestSysAcks: one undisturbed process under concurrent HTTP load (new and
// resubmitted chains); every 200 answer is judged at the moment it arrives
// against the checkpoint file a monitor can read, and again at the end.
func TestSysAcks(t *testing.T) {
	r := NewRun(t, envStr("VERIF_SYS_PROPERTY", "C02"), "sysacks")
	r.Rule = "the built cmd/sunlight binary under 12 concurrent HTTP submitters (final certificates, precertificates, precertificate signing certificates, resubmissions) for a fixed number of submissions; each 200 answer: SCT verifies over the independently derived leaf, the checkpoint file read right after the answer covers the index; at the end every acknowledged entry is at its index with its timestamp in the published tree and every observed checkpoint is a prefix of it; distinct = (entry type, answered from a resubmission)"
	if _, err := os.Stat(sysBinary()); err != nil {
		r.Inconcl("sunlight binary not built: %v", err)
		return
	}
	shard, shards := shardInfo()
	rng := NewRng(r.Seed, fmt.Sprint("sysacks", shard, "/", shards))
	f := newSysFixture(r, rng)
	defer f.Close()
	f.info["workload"] = "sysacks"
	f.startPolling()
	p := f.start("P", "main", f.PeriodMs, "")
	if !p.waitReady(90 * time.Second) {
		p.kill()
		r.Inconcl("process did not become ready: %s", p.logTail())
		return
	}
	total := int64(pick(400, 4000))
	var sent atomic.Int64
	var wg sync.WaitGroup
	for i := 0; i < 12; i++ {
		wg.Add(1)
		srng := rng.Fork(fmt.Sprint("s", i))
		go func() {
			defer wg.Done()
			var prev []*sysChain
			for sent.Add(1) <= total && p.alive() {
				ch := f.newChain(srng)
				resub := len(prev) > 0 && srng.Intn(4) == 0
				if resub {
					ch = prev[srng.Intn(len(prev))]
				}
				st, a := f.submit(p, ch)
				r.Eval(1)
				if st == 200 && a != nil {
					r.DistinctKey(fmt.Sprintf("pre=%v/preissuer=%v/resubmitted=%v", ch.Pre, ch.Built.preIssuer != nil, resub))
					if len(prev) < 50 {
						prev = append(prev, ch)
					}
				} else if st != 200 {
					r.Count(fmt.Sprintf("sys_status_%d", st), 1)
				}
			}
		}()
	}
	wg.Wait()
	if !p.alive() {
		f.noteExit(p, "under plain load")
	}
	p.interrupt(5 * time.Second)
	close(f.stopPoll)
	f.pollWG.Wait()
	f.stopPoll = nil
	pubRaw, _ := os.ReadFile(filepath.Join(f.LogDir, "checkpoint"))
	pub := f.observe(pubRaw, "published")
	if pub == nil {
		f.violate("final-checkpoints-unreadable", "published checkpoint unreadable at the end")
		return
	}
	if leaves := f.auditAt(pub, "published"); leaves != nil {
		f.checkAcks(leaves, "published")
		f.checkPrefixes(leaves)
	}
	if r.Counter("sys_acks") == 0 {
		r.Inconcl("no submission was acknowledged")
	}
}

// TestSysSunset: a log served by the real binary whose shard window ended more
// than a week ago (read-only): submissions fail, nothing is signed any more,
// and the published metadata names the final tree.
func TestSysSunset(t *testing.T) {
	r := NewRun(t, envStr("VERIF_SYS_PROPERTY", "C17"), "syssunset")
	r.Rule = "the built cmd/sunlight binary first serves a log whose window contains the submitted certificates, is stopped, and is restarted with a window that ended 30 days ago (read-only date passed, relative to the wall clock at run time): every submission (new, and resubmission of an acknowledged chain) must fail with a non-200 answer, the checkpoint file and the lock row must not change while it runs, earlier acknowledgements stay in the tree; distinct = (phase, status)"
	if _, err := os.Stat(sysBinary()); err != nil {
		r.Inconcl("sunlight binary not built: %v", err)
		return
	}
	shard, shards := shardInfo()
	rng := NewRng(r.Seed, fmt.Sprint("syssunset", shard, "/", shards))
	f := newSysFixture(r, rng)
	defer f.Close()
	f.info["workload"] = "syssunset"
	f.keepAlive = true
	now := time.Now().UTC().Truncate(time.Second)
	na := now.Add(-40 * 24 * time.Hour)
	f.windowStart, f.windowLimit = now.Add(-400*24*time.Hour), now.Add(400*24*time.Hour)
	mk := func() *sysChain {
		id := f.nextID.Add(1)
		ic := f.PKI.inter["accepted"][0]
		leaf := makeLeaf(rng, id, ic, leafSpec{NotAfter: na, EKU: "server"})
		b := &c09Built{chain: [][]byte{leaf.DER, ic.DER}, leaf: leaf, issuerCA: ic}
		return &sysChain{ID: id, Body: c09Body(c09Knobs{Body: "ok"}, b.chain), Built: b}
	}
	p := f.start("P", "main", f.PeriodMs, "")
	if !p.waitReady(90 * time.Second) {
		p.kill()
		r.Inconcl("process did not become ready: %s", p.logTail())
		return
	}
	var acked []*sysChain
	for i := 0; i < 12; i++ {
		if !p.alive() {
			f.noteExit(p, "while the log was active")
			if p = f.startServing("P", "main", f.PeriodMs); p == nil || !p.alive() {
				r.Inconcl("the server could not be brought up again in the active phase")
				return
			}
		}
		ch := mk()
		st, a := f.submit(p, ch)
		r.Eval(1)
		r.DistinctKey(fmt.Sprintf("active/%d", st))
		if st == 200 && a != nil {
			acked = append(acked, ch)
		}
	}
	if len(acked) == 0 {
		r.Inconcl("no submission accepted while the log was active: %s", p.logTail())
		p.kill()
		return
	}
	p.interrupt(5 * time.Second)
	// ---- read-only --------------------------------------------------------
	f.windowStart, f.windowLimit = now.Add(-400*24*time.Hour), now.Add(-30*24*time.Hour)
	p = f.start("P", "main", f.PeriodMs, "")
	if !p.waitReady(90 * time.Second) {
		if p.alive() {
			p.kill()
			r.Inconcl("read-only start did not become ready within the watchdog")
			return
		}
		f.violate("readonly-start-failed", "the server does not start on a log past its read-only date: %s", p.logTail())
		return
	}
	cpBefore, _ := os.ReadFile(filepath.Join(f.LogDir, "checkpoint"))
	lockBefore := f.lockCheckpoint()
	for i := 0; i < 10; i++ {
		ch := mk()
		if i%2 == 1 {
			ch = acked[rng.Intn(len(acked))]
		}
		st, _ := f.submit(p, ch)
		r.Eval(1)
		r.DistinctKey(fmt.Sprintf("readonly/resubmission=%v/%d", i%2 == 1, st))
		r.Count(fmt.Sprintf("sys_readonly_status_%d", st), 1)
		if st == 200 {
			f.violate("submission-accepted-after-stop", "a submission (resubmission=%v) was answered 200 by a server whose log is past its read-only date", i%2 == 1)
		}
	}
	time.Sleep(time.Duration(6*f.PeriodMs) * time.Millisecond)
	cpAfter, _ := os.ReadFile(filepath.Join(f.LogDir, "checkpoint"))
	if !bytes.Equal(cpBefore, cpAfter) || !bytes.Equal(lockBefore, f.lockCheckpoint()) {
		f.violate("checkpoint-signed-after-stop", "the checkpoint file or the lock row changed while the read-only server ran")
	}
	p.interrupt(5 * time.Second)
	// ---- read-only, started once more (the final metadata is on disk now) ----
	p = f.start("P", "main", f.PeriodMs, "")
	if !p.waitReady(90 * time.Second) {
		if p.alive() {
			p.kill()
			r.Inconcl("second read-only start did not become ready within the watchdog")
			return
		}
		f.violate("readonly-start-failed", "the server does not start a second time on a log past its read-only date: %s", p.logTail())
		return
	}
	for i := 0; i < 4; i++ {
		ch := mk()
		if i%2 == 1 {
			ch = acked[rng.Intn(len(acked))]
		}
		t0 := time.Now()
		st, _ := f.submit(p, ch)
		r.Eval(1)
		r.DistinctKey(fmt.Sprintf("readonly-restarted/resubmission=%v/%d", i%2 == 1, st))
		r.Count(fmt.Sprintf("sys_readonly_restarted_status_%d", st), 1)
		if st == 200 {
			f.violate("submission-accepted-after-stop", "a submission was answered 200 by a restarted server whose log is past its read-only date")
		}
		if st == 0 && p.alive() && time.Since(t0) > 12*time.Second {
			// no sequencing is involved in refusing: an answer is due at once
			f.violate("submitter-stranded-after-stop", "a submission to a read-only log got no answer for %v while the server process was alive", time.Since(t0).Round(time.Second))
			break
		}
	}
	cpAfter2, _ := os.ReadFile(filepath.Join(f.LogDir, "checkpoint"))
	if !bytes.Equal(cpBefore, cpAfter2) {
		f.violate("checkpoint-signed-after-stop", "the checkpoint file changed while the restarted read-only server ran")
	}
	p.interrupt(5 * time.Second)
	if pub := f.observe(cpAfter, "published"); pub != nil {
		if leaves := f.auditAt(pub, "published"); leaves != nil {
			f.checkAcks(leaves, "published")
		}
	}
}

// TestSysStartupRefusals: configurations the server binary must refuse to run
// with, without creating or touching a log: an Inception date that is not
// today on stores that do not have the log, and an ambiguous choice of the
// global lock backend. The positive control (Inception today) must create it.
func TestSysStartupRefusals(t *testing.T) {
	r := NewRun(t, envStr("VERIF_SYS_PROPERTY", "C06"), "sysstartup")
	r.Rule = "the built cmd/sunlight binary started on empty stores with Inception in {missing, empty string, a past date, yesterday, the current year-month only, tomorrow} must exit without creating a log (no lock row, no checkpoint file); with two lock backends configured (SQLite + DynamoDB table, SQLite + ETag bucket with / without endpoint, DynamoDB + ETag) it must exit as well; with Inception = today it creates the log and serves; distinct = configuration"
	if _, err := os.Stat(verifBin("sunlight")); err != nil {
		r.Inconcl("sunlight binary not built: %v", err)
		return
	}
	shard, shards := shardInfo()
	rng := NewRng(r.Seed, fmt.Sprint("sysstartup", shard, "/", shards))
	day := func(d int) string { return time.Now().AddDate(0, 0, d).Format(time.DateOnly) }
	type variant struct {
		name      string
		inception func() string // nil: key omitted
		extra     string        // extra top-level YAML (second lock backend)
		noSQLite  bool
		mustRun   bool
	}
	variants := []variant{
		{name: "inception-missing"},
		{name: "inception-empty", inception: func() string { return "" }},
		{name: "inception-2020", inception: func() string { return "2020-01-01" }},
		{name: "inception-yesterday", inception: func() string { return day(-1) }},
		{name: "inception-tomorrow", inception: func() string { return day(1) }},
		{name: "inception-year-month", inception: func() string { return time.Now().Format("2006-01") }},
		{name: "inception-year", inception: func() string { return time.Now().Format("2006") }},
		{name: "two-lock-backends-sqlite+dynamodb", inception: func() string { return day(0) }, extra: "dynamodb:\n  region: us-east-1\n  table: verif-table\n  endpoint: http://127.0.0.1:1\n"},
		{name: "two-lock-backends-sqlite+etag-endpoint", inception: func() string { return day(0) }, extra: "etags3:\n  region: auto\n  bucket: verif-bucket\n  endpoint: http://127.0.0.1:1\n"},
		{name: "two-lock-backends-sqlite+etag-no-endpoint", inception: func() string { return day(0) }, extra: "etags3:\n  region: auto\n  bucket: verif-bucket\n"},
		{name: "two-lock-backends-sqlite+etag-bucket-only", inception: func() string { return day(0) }, extra: "etags3:\n  bucket: verif-bucket\n"},
		{name: "two-lock-backends-dynamodb+etag", inception: func() string { return day(0) }, noSQLite: true, extra: "dynamodb:\n  region: us-east-1\n  table: verif-table\n  endpoint: http://127.0.0.1:1\netags3:\n  region: auto\n  bucket: verif-bucket\n  endpoint: http://127.0.0.1:1\n"},
		{name: "control-inception-today", inception: func() string { return day(0) }, mustRun: true},
	}
	for vi, v := range variants {
		if !mine(vi) {
			continue
		}
		func() {
			f := newSysFixture(r, rng.Fork(v.name))
			defer f.Close()
			f.info["workload"] = "sysstartup"
			f.info["variant"] = v.name
			r.Eval(1)
			r.DistinctKey(v.name)
			before := time.Now().Format(time.DateOnly)
			f.cfgEdit = func(y string) string {
				// rewrite the inception line / add a second lock backend
				var out []string
				for _, ln := range strings.Split(y, "\n") {
					if strings.HasPrefix(strings.TrimSpace(ln), "inception:") {
						if v.inception == nil {
							continue
						}
						ln = fmt.Sprintf("    inception: %q", v.inception())
					}
					if v.noSQLite && strings.HasPrefix(ln, "checkpoints:") {
						continue
					}
					out = append(out, ln)
				}
				return v.extra + strings.Join(out, "\n")
			}
			p := f.start("S", "main", f.PeriodMs, "")
			ready := p.waitReady(60 * time.Second)
			if time.Now().Format(time.DateOnly) != before {
				r.Count("skipped_date_changed_mid_case", 1)
				p.kill()
				return
			}
			_, statErr := os.Stat(filepath.Join(f.LogDir, "checkpoint"))
			row := f.lockCheckpoint()
			if v.mustRun {
				if !ready {
					if p.alive() {
						p.kill()
						r.Inconcl("control start did not become ready within the watchdog")
						return
					}
					f.violate("inception-day-start-refused", "with Inception = today the server did not create and serve the log: %s", p.logTail())
					return
				}
				if statErr != nil || row == nil {
					f.violate("inception-day-start-refused", "the server came up on its Inception day but did not create the log (checkpoint file present=%v, lock row present=%v)", statErr == nil, row != nil)
				}
				if st, _ := f.submit(p, f.newChain(rng)); st != 200 {
					if p.alive() {
						f.violate("inception-day-start-refused", "the log created on its Inception day does not accept a submission (HTTP %d)", st)
					} else {
						f.noteExit(p, "right after creating the log")
					}
				}
				r.Count("sys_created_on_inception_day", 1)
				p.interrupt(5 * time.Second)
				return
			}
			// "serves" means: a server holding OUR log key answers on that port
			serving := ready && f.serves(p)
			if !serving && p.alive() {
				select { // a refused process may need a moment to exit
				case <-p.done:
				case <-time.After(15 * time.Second):
				}
			}
			if serving || p.alive() {
				p.kill()
				f.violate("startup-not-refused:"+v.name, "the server started and serves with configuration %q, which it must refuse", v.name)
			} else {
				r.Count("sys_startup_refused", 1)
			}
			if statErr == nil || row != nil {
				f.violate("log-created-by-refused-configuration:"+v.name, "a start-up that had to be refused (%s) created a log: checkpoint file present=%v, lock row present=%v", v.name, statErr == nil, row != nil)
			}
		}()
	}
}
