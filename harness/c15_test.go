package verifharness

import (
	"bytes"
	"compress/gzip"
	"encoding/base64"
	"encoding/binary"
	"fmt"
	"strconv"
	"strings"
	"sync"
	"testing"

	"filippo.io/sunlight/internal/witness"
	"filippo.io/torchwood"
	"golang.org/x/mod/sumdb/note"
)

type c15Op struct {
	Op      string `json:"op"` // checkpoint | entries | restart | client | fault
	To      int    `json:"to,omitempty"`
	Start   string `json:"start,omitempty"` // next | mirror | next-d | next+d | mid | beyond | zero
	End     string `json:"end,omitempty"`   // pending | mirror | old-ticket | old-noticket | forged-ticket | flipped-ticket | other-origin-ticket | never
	Body    string `json:"body,omitempty"`  // ok | first-k | cut | gzip | wrong-entry | fork-entries | proof-flipped | proof-missing | proof-extra | too-many-hashes | empty
	Fault   string `json:"fault,omitempty"`
	Applied bool   `json:"applied,omitempty"`
	Hook    string `json:"hook,omitempty"` // "" | checkpoint-before-commit | entries-before-commit | checkpoint-before-package
}

func (o c15Op) String() string {
	switch o.Op {
	case "checkpoint":
		return fmt.Sprintf("checkpoint(%d)", o.To)
	case "entries":
		s := fmt.Sprintf("entries(%s..%s,%s", o.Start, o.End, o.Body)
		if o.Hook != "" {
			s += ",hook=" + o.Hook
		}
		return s + ")"
	case "fault":
		return fmt.Sprintf("fault(%s,%v)", o.Fault, o.Applied)
	}
	return o.Op
}

type c15Run struct {
	r            *Run
	e            *WitEnv
	l            *WitLog
	rng          *Rng
	trace        []string
	tickets      map[int][]byte // pending size -> ticket seen in a mirror-info answer
	pendings     []int
	faultArm     func(c *Call) (Decision, bool)
	fmu          sync.Mutex
	mirrorN      int64 // last mirror size recorded (from the monitor)
	noStoreAudit bool  // public storage is not the in-memory world (LocalBackend)
	mcommits     int
}

func mirrorPrefix(origin string) string { return "mirror/" + witness.OriginHash(origin) + "/" }

// auditMirror checks, under the world mutex, that the tree of size n is
// completely and correctly servable from the mirror's public storage.
func auditMirror(w *World, l *WitLog, chain *witChain, n int64, root Hash) string {
	if n > int64(len(chain.lh)) {
		return fmt.Sprintf("size %d exceeds the log", n)
	}
	if refMTH(chain.lh[:n]) != root {
		return "root is not the reference hash of the log's first N entries"
	}
	pre := mirrorPrefix(l.Origin)
	get := func(t TileCoord) ([]byte, int) {
		if v := w.cur(pre + refTlogTilePath(t)); v != nil {
			return v.Data, t.W
		}
		if t.W < 256 {
			f := t
			f.W = 256
			if v := w.cur(pre + refTlogTilePath(f)); v != nil {
				return v.Data, 256
			}
		}
		return nil, 0
	}
	mc := newMerkleCache(chain.lh)
	for _, t := range refLayout(n, false) {
		b, w2 := get(t)
		if b == nil {
			return fmt.Sprintf("%s (or the full tile extending it) is missing", refTlogTilePath(t))
		}
		if t.L >= 0 {
			want := refHashTile(mc, t)
			if len(b) < len(want) || !bytes.Equal(b[:len(want)], want) {
				return fmt.Sprintf("hash tile %s differs from the reference", refTlogTilePath(t))
			}
			if len(b) != 32*w2 {
				return fmt.Sprintf("hash tile %s has %d bytes for width %d", refTlogTilePath(t), len(b), w2)
			}
			continue
		}
		zr, err := gzip.NewReader(bytes.NewReader(b))
		if err != nil {
			return fmt.Sprintf("entry bundle %s is not gzip: %v", refTlogTilePath(t), err)
		}
		var raw bytes.Buffer
		if _, err := raw.ReadFrom(zr); err != nil {
			return fmt.Sprintf("entry bundle %s: %v", refTlogTilePath(t), err)
		}
		rd := &rdr{b: raw.Bytes()}
		for i := 0; i < t.W; i++ {
			ent := rd.vec(2)
			if rd.err != nil {
				return fmt.Sprintf("entry bundle %s is short (entry %d)", refTlogTilePath(t), i)
			}
			if !bytes.Equal(ent, chain.entries[int(t.N)*256+i]) {
				return fmt.Sprintf("entry %d in bundle %s is not the log's entry", int(t.N)*256+i, refTlogTilePath(t))
			}
		}
	}
	return ""
}

func (cr *c15Run) onMirrorCommit(l *WitLog, c *Call) {
	e := cr.e
	cr.mcommits++
	e.R.Count("mirror_commits_audited", 1)
	n, err := refParseNote(c.Data)
	if err != nil {
		e.violate("mirror-recorded-garbage", "mirror recorded a value that is not a note: %v", err)
		return
	}
	cp, err := refParseCheckpointText(n.Text)
	if err != nil || cp.Origin != l.Origin || cp.Ext != "" {
		e.violate("mirror-recorded-garbage", "mirror checkpoint does not parse or has another origin")
		return
	}
	if _, err := note.Open(c.Data, note.VerifierList(e.VM)); err != nil {
		e.violate("mirror-checkpoint-without-mirror-cosignature", "recorded mirror checkpoint does not verify under the mirror key: %v", err)
	}
	if _, err := note.Open(c.Data, note.VerifierList(mustVerifier(l.VKey))); err != nil {
		e.violate("mirror-checkpoint-without-log-signature", "recorded mirror checkpoint does not carry the log's signature: %v", err)
	}
	for _, s := range n.Sigs {
		if s.Name == e.Name {
			e.violate("mirror-checkpoint-with-witness-cosignature", "recorded mirror checkpoint carries a signature line by the witness name")
		}
	}
	if cp.Size < cr.mirrorN {
		e.violate("mirror-size-decreased", "mirror checkpoint went from size %d to %d", cr.mirrorN, cp.Size)
	}
	// not beyond the pending checkpoint currently in the lock store (world mutex is held)
	var pendingN int64
	if v := e.W.Locks[witnessLockKey(e.Ed, "witness log\n", l.Origin)]; len(v) > 0 && len(v[len(v)-1].Data) > 0 {
		if pn, err := refParseNote(v[len(v)-1].Data); err == nil {
			if pc, err := refParseCheckpointText(pn.Text); err == nil {
				pendingN = pc.Size
			}
		}
	}
	if cp.Size > pendingN {
		e.violate("mirror-ahead-of-pending", "mirror checkpoint of size %d recorded while the pending checkpoint has size %d", cp.Size, pendingN)
	}
	if msg := auditMirror(e.W, l, l.Chains[0], cp.Size, cp.Root); msg != "" {
		e.violate("mirror-signed-unservable-tree", "mirror checkpoint of size %d signed while its tree is not completely served: %s", cp.Size, msg)
	}
	cr.mirrorN = cp.Size
}

func (cr *c15Run) note(f string, a ...any) {
	cr.trace = append(cr.trace, fmt.Sprintf(f, a...))
	if len(cr.trace) > 40 {
		cr.trace = cr.trace[1:]
	}
}

func (cr *c15Run) addCheckpoint(to int) int {
	l := cr.l
	recSize, _, _ := cr.e.recorded(l)
	if to <= int(recSize) || to > len(l.Chains[0].lh) {
		return 0
	}
	body := addCheckpointBody(recSize, l.consistencyProof(0, int(recSize), to), l.signed(l.checkpointText(0, to)))
	rec := cr.e.Post("/add-checkpoint", body, nil)
	cr.note("add-checkpoint %d->%d = %d", recSize, to, rec.Code)
	if rec.Code == 200 {
		cr.pendings = append(cr.pendings, to)
	}
	return rec.Code
}

// entriesBody builds an add-entries request.
func (cr *c15Run) entriesBody(start, end int64, ticket []byte, variant string, treeSize int64) []byte {
	l := cr.l
	chain := l.Chains[0]
	var b []byte
	origin := l.Origin
	b = binary.BigEndian.AppendUint16(b, uint16(len(origin)))
	b = append(b, origin...)
	b = binary.BigEndian.AppendUint64(b, uint64(start))
	b = binary.BigEndian.AppendUint64(b, uint64(end))
	b = binary.BigEndian.AppendUint16(b, uint16(len(ticket)))
	b = append(b, ticket...)
	if start >= end || variant == "empty" {
		return b
	}
	if end > int64(len(chain.lh)) || treeSize > int64(len(chain.lh)) {
		return b
	}
	roundedStart := start - start%256
	roundedEnd := (end + 255) / 256 * 256
	np := (roundedEnd - roundedStart) / 256
	if variant == "first-k" && np > 1 {
		np = 1 + int64(cr.rng.Intn(int(np-1)))
	}
	src := chain
	if variant == "fork-entries" && len(l.Chains) > 1 {
		src = l.Chains[1]
	}
	wrongAt := int64(-1)
	if variant == "wrong-entry" {
		wrongAt = start + int64(cr.rng.Intn(int(end-start)))
	}
	for i := int64(0); i < np; i++ {
		ts := roundedStart + i*256
		ps, pe := max(start, ts), min(end, ts+256)
		for j := ps; j < pe; j++ {
			ent := chain.entries[j]
			if int(j) < len(src.entries) {
				ent = src.entries[j]
			}
			if j == wrongAt {
				ent = append(bytes.Clone(ent), '!')
			}
			b = binary.BigEndian.AppendUint16(b, uint16(len(ent)))
			b = append(b, ent...)
		}
		var proof []Hash
		if torchwood.ValidSubtree(ts, pe) && pe <= treeSize {
			if p, err := torchwood.ProveSubtree(treeSize, ts, pe, chain.hashReader()); err == nil {
				for _, h := range p {
					proof = append(proof, Hash(h))
				}
			}
		}
		switch variant {
		case "proof-flipped":
			if len(proof) > 0 {
				proof[cr.rng.Intn(len(proof))][2] ^= 8
			}
		case "proof-missing":
			if len(proof) > 0 {
				proof = proof[:len(proof)-1]
			}
		case "proof-extra":
			proof = append(proof, Hash{7})
		case "too-many-hashes":
			for len(proof) < 64 {
				proof = append(proof, Hash{byte(len(proof))})
			}
		}
		b = append(b, byte(len(proof)))
		for _, h := range proof {
			b = append(b, h[:]...)
		}
	}
	if variant == "cut" && len(b) > 40 {
		cutFrom := 2 + len(origin) + 16 + 2 + len(ticket)
		b = b[:cutFrom+cr.rng.Intn(len(b)-cutFrom)]
	}
	return b
}

type mirrorInfo struct {
	pending, next int64
	ticket        []byte
	ok            bool
}

func parseMirrorInfo(body string) mirrorInfo {
	lines := strings.Split(body, "\n")
	if len(lines) != 4 || lines[3] != "" {
		return mirrorInfo{}
	}
	p, err1 := strconv.ParseInt(lines[0], 10, 64)
	n, err2 := strconv.ParseInt(lines[1], 10, 64)
	t, err3 := base64.StdEncoding.DecodeString(lines[2])
	if err1 != nil || err2 != nil || err3 != nil {
		return mirrorInfo{}
	}
	return mirrorInfo{p, n, t, true}
}

// postEntries posts and applies the response oracle. Returns status and mirror-info.
func (cr *c15Run) postEntries(body []byte, gz bool, end int64, what string) (int, mirrorInfo) {
	hdr := map[string]string{"Content-Type": "application/octet-stream"}
	if gz {
		var buf bytes.Buffer
		zw := gzip.NewWriter(&buf)
		zw.Write(body)
		zw.Close()
		body = buf.Bytes()
		hdr["Content-Encoding"] = "gzip"
	}
	rec := cr.e.Post("/add-entries", body, hdr)
	cr.r.Eval(1)
	cr.note("add-entries %s = %d", what, rec.Code)
	var mi mirrorInfo
	switch rec.Code {
	case 200:
		l := cr.l
		if end > int64(len(l.Chains[0].lh)) {
			cr.e.violate("mirror-cosigned-unknown-size", "add-entries answered 200 for end %d beyond the log", end)
			break
		}
		root := l.Chains[0].root(int(end))
		if msg := checkCosigBody(rec.Body.Bytes(), l.Origin, end, root, cr.e.VM); msg != "" {
			cr.e.violate("mirror-cosignature-body", "add-entries 200 response: %s", msg)
		}
		// the cosigned tree must be recorded and servable now
		raw, _ := cr.e.W.LockGet(witnessLockKey(cr.e.Ed, "mirror log\n", l.Origin))
		rn, err := refParseNote(raw)
		var rc *RefCheckpoint
		if err == nil {
			rc, _ = refParseCheckpointText(rn.Text)
		}
		if rc == nil || rc.Size < end {
			cr.e.violate("mirror-cosignature-released-without-record", "add-entries released a mirror cosignature for size %d but the recorded mirror checkpoint is %v", end, rc)
		}
		msg := ""
		if !cr.noStoreAudit {
			cr.e.W.mu.Lock()
			msg = auditMirror(cr.e.W, l, l.Chains[0], end, root)
			cr.e.W.mu.Unlock()
		}
		if msg != "" {
			cr.e.violate("mirror-signed-unservable-tree", "add-entries answered 200 for size %d but: %s", end, msg)
		}
		cr.r.Count("mirror_cosignatures", 1)
	case 202, 409:
		mi = parseMirrorInfo(rec.Body.String())
		if !mi.ok {
			cr.e.violate("mirror-info-malformed", "%d response body is not a mirror-info: %q", rec.Code, truncateStr(rec.Body.String(), 80))
		} else {
			if mi.next > mi.pending {
				cr.e.violate("mirror-info-next-beyond-pending", "mirror-info next entry %d is beyond its pending size %d", mi.next, mi.pending)
			}
			cr.tickets[int(mi.pending)] = mi.ticket
		}
	}
	cr.r.DistinctKey(fmt.Sprintf("%s=>%d", what, rec.Code))
	return rec.Code, mi
}

func (cr *c15Run) state() (pending, mirror int64) {
	pending, _, _ = cr.e.recorded(cr.l)
	raw, _ := cr.e.W.LockGet(witnessLockKey(cr.e.Ed, "mirror log\n", cr.l.Origin))
	if len(raw) > 0 {
		if n, err := refParseNote(raw); err == nil {
			if c, err := refParseCheckpointText(n.Text); err == nil {
				mirror = c.Size
			}
		}
	}
	return
}

// wellBehavedClient follows the mirror-info answers until the mirror
// checkpoint equals the pending one; bounded number of requests.
func (cr *c15Run) wellBehavedClient(context string) {
	pending, mirror := cr.state()
	if pending == 0 || mirror == pending {
		return
	}
	start, end, ticket := mirror, pending, []byte(nil)
	bound := 5 + int(pending/256)
	for i := 0; i < bound; i++ {
		code, mi := cr.postEntries(cr.entriesBody(start, end, ticket, "ok", end), false, end, "client")
		switch code {
		case 200:
			if p, m := cr.state(); m == p {
				cr.r.Count("client_converged", 1)
				return
			}
			pending, mirror = cr.state()
			start, end, ticket = mirror, pending, nil
		case 202, 409:
			if !mi.ok {
				return
			}
			start, end, ticket = mi.next, mi.pending, mi.ticket
			if start > end {
				return
			}
		default:
			cr.e.violate("client-cannot-resume:"+context, "well-behaved client got %d from add-entries (%s) with no fault active", code, context)
			return
		}
	}
	p, m := cr.state()
	cr.e.violate("client-cannot-resume:"+context, "well-behaved client did not bring the mirror (size %d) to the pending checkpoint (size %d) within %d requests (%s)", m, p, bound, context)
}

func genC15Ops(rng *Rng, logLen int) []c15Op {
	var ops []c15Op
	if rng.Intn(4) == 0 {
		// ticket rewind: commit an older, mid-tile pending size after the upload
		// frontier has moved past it, with transient storage faults and retries
		p1 := 256*rng.Intn(2) + 1 + rng.Intn(255)
		p2 := p1 + 1 + rng.Intn(300)
		if p2 > logLen {
			p2 = logLen
		}
		ops = append(ops, c15Op{Op: "checkpoint", To: p1}, c15Op{Op: "entries", Start: "next", End: "pending", Body: pickOne(rng, []string{"empty", "cut", "first-k"})},
			c15Op{Op: "checkpoint", To: p2})
		if rng.Bool() {
			ops = append(ops, c15Op{Op: "fault", Fault: "lock-replace", Applied: false})
		}
		ops = append(ops, c15Op{Op: "entries", Start: "zero", End: "pending", Body: pickOne(rng, []string{"ok", "ok", "gzip"})})
		for i := 0; i < 2+rng.Intn(2); i++ {
			if rng.Intn(3) != 0 {
				ops = append(ops, c15Op{Op: "fault", Fault: pickOne(rng, []string{"upload-entries-tile", "upload-hash-tile", "any-upload", "lock-replace", "upload-checkpoint"}), Applied: rng.Intn(4) == 0})
			}
			ops = append(ops, c15Op{Op: "entries", Start: "beyond", End: "old-ticket", Body: "empty"})
		}
		if rng.Bool() {
			ops = append(ops, c15Op{Op: "restart"})
		}
		ops = append(ops, c15Op{Op: "entries", Start: "beyond", End: "old-ticket", Body: "empty"}, c15Op{Op: "client"})
	}
	n := 20 + rng.Intn(41)
	to := 0
	for i := 0; i < n; i++ {
		switch v := rng.Intn(100); {
		case v < 22:
			to += 1 + pickOne(rng, []int{1, 3, 40, 100, 255, 256, 257, 300})
			if to > logLen {
				to = logLen
			}
			ops = append(ops, c15Op{Op: "checkpoint", To: to})
		case v < 72:
			o := c15Op{Op: "entries",
				Start: pickOne(rng, []string{"next", "next", "next", "mirror", "next-d", "next+d", "mid", "beyond", "zero"}),
				End:   pickOne(rng, []string{"pending", "pending", "pending", "mirror", "old-ticket", "old-ticket", "old-noticket", "forged-ticket", "flipped-ticket", "other-origin-ticket", "never"}),
				Body:  pickOne(rng, []string{"ok", "ok", "ok", "ok", "first-k", "cut", "gzip", "wrong-entry", "fork-entries", "proof-flipped", "proof-missing", "proof-extra", "too-many-hashes", "empty"})}
			if rng.Intn(8) == 0 {
				o.Hook = pickOne(rng, []string{"checkpoint-before-commit", "entries-before-commit", "checkpoint-before-package"})
			}
			ops = append(ops, o)
		case v < 80:
			ops = append(ops, c15Op{Op: "restart"})
		case v < 90:
			ops = append(ops, c15Op{Op: "fault", Fault: pickOne(rng, []string{"lock-replace", "upload-entries-tile", "upload-hash-tile", "upload-checkpoint", "any-upload"}), Applied: rng.Bool()})
		default:
			ops = append(ops, c15Op{Op: "client"})
		}
	}
	ops = append(ops, c15Op{Op: "restart"}, c15Op{Op: "client"})
	return ops
}

func runC15History(r *Run, rng *Rng, hn int, ops []c15Op) {
	e := NewWitEnv(r, rng.Fork("env"), true)
	defer e.Cleanup()
	if err := e.Start(); err != nil {
		panic(err)
	}
	logLen := pick(700, 1400)
	l := newWitLog(rng.Fork("log"), fmt.Sprintf("verif.example/log-c15-%d", hn), logLen, []int{3}, logLen-3)
	other := newWitLog(rng.Fork("log2"), fmt.Sprintf("verif.example/other-c15-%d", hn), 40, nil, 0)
	if err := e.AddLogs(true, l, other); err != nil {
		panic(err)
	}
	cr := &c15Run{r: r, e: e, l: l, rng: rng, tickets: map[int][]byte{}}
	e.OnMirrorCommit = cr.onMirrorCommit
	e.CaseInfo = func() any { return map[string]any{"ops": ops, "last_requests": cr.trace} }
	plan := func(c *Call) Decision {
		cr.fmu.Lock()
		defer cr.fmu.Unlock()
		if cr.faultArm != nil {
			if d, hit := cr.faultArm(c); hit {
				cr.faultArm = nil
				return d
			}
		}
		return decideOK
	}
	e.In.Plan = plan
	faultActive := func() bool { cr.fmu.Lock(); defer cr.fmu.Unlock(); return cr.faultArm != nil }
	// another log's ticket, for the other-origin case
	var otherTicket []byte
	for _, op := range ops {
		switch op.Op {
		case "checkpoint":
			cr.addCheckpoint(op.To)
		case "restart":
			if err := e.Start(); err != nil {
				e.violate("witness-restart-failed", "NewWitness failed: %v", err)
				return
			}
			e.In.Plan = plan
			cr.note("restart")
			r.Count("restarts", 1)
		case "fault":
			f, applied := op.Fault, op.Applied
			cr.fmu.Lock()
			cr.faultArm = func(c *Call) (Decision, bool) {
				hit := false
				switch f {
				case "lock-replace":
					hit = c.Kind == OpLockReplace
				case "upload-entries-tile":
					hit = c.Kind == OpUpload && strings.Contains(c.Key, "/tile/entries/")
				case "upload-hash-tile":
					hit = c.Kind == OpUpload && strings.Contains(c.Key, "/tile/") && !strings.Contains(c.Key, "/tile/entries/")
				case "upload-checkpoint":
					hit = c.Kind == OpUpload && strings.HasSuffix(c.Key, "/checkpoint")
				case "any-upload":
					hit = c.Kind == OpUpload
				}
				return Decision{Apply: applied, Err: rotatingInjectedErr()}, hit
			}
			cr.fmu.Unlock()
		case "client":
			if !faultActive() {
				cr.wellBehavedClient("mid-history")
			}
		case "entries":
			pending, mirror := cr.state()
			if pending == 0 {
				continue
			}
			// next entry is not observable directly: learn it from a mirror-info answer
			next := mirror
			if _, mi := cr.postEntries(cr.entriesBody(pending+1, pending+1, nil, "empty", pending), false, pending+1, "probe"); mi.ok {
				next = mi.next
			}
			var start, end int64
			var ticket []byte
			end = pending
			switch op.End {
			case "mirror":
				end = mirror
			case "old-ticket", "old-noticket", "flipped-ticket":
				var olds []int
				for _, p := range cr.pendings {
					if int64(p) < pending && cr.tickets[p] != nil {
						olds = append(olds, p)
					}
				}
				if len(olds) > 0 {
					p := olds[rng.Intn(len(olds))]
					end = int64(p)
					if op.End != "old-noticket" {
						ticket = bytes.Clone(cr.tickets[p])
					}
					if op.End == "flipped-ticket" {
						ticket[rng.Intn(len(ticket))] ^= 1 << uint(rng.Intn(8))
					}
				}
			case "forged-ticket":
				end = max(1, pending-1-int64(rng.Intn(50)))
				ticket = rng.Bytes(24 + 200)
			case "other-origin-ticket":
				end = max(1, pending-1)
				ticket = otherTicket
				if ticket == nil {
					ticket = rng.Bytes(100)
				}
			case "never":
				end = max(1, pending-1-int64(rng.Intn(30)))
			}
			switch op.Start {
			case "next":
				start = next
			case "mirror":
				start = mirror
			case "next-d":
				start = max(0, next-int64(1+rng.Intn(300)))
			case "next+d":
				start = next + int64(1+rng.Intn(300))
			case "mid":
				start = (next/256)*256 + int64(rng.Intn(256))
			case "beyond":
				start = end + 1
			case "zero":
				start = 0
			}
			if start > end {
				start = end
			}
			body := cr.entriesBody(start, end, ticket, op.Body, end)
			what := fmt.Sprintf("%s..%s/%s", op.Start, op.End, op.Body)
			if op.Hook != "" {
				fired := false
				hookFn := func() {
					if fired {
						return
					}
					fired = true
					switch op.Hook {
					case "checkpoint-before-commit", "checkpoint-before-package":
						p, _ := cr.state()
						cr.addCheckpoint(int(p) + 1 + rng.Intn(40))
					case "entries-before-commit":
						p, m := cr.state()
						cr.postEntries(cr.entriesBody(m, p, nil, "ok", p), false, p, "interleaved")
					}
				}
				if op.Hook == "checkpoint-before-package" {
					witness.VerifSetBeforeAddEntriesPackage(func(int64) { hookFn() })
				} else {
					witness.VerifSetBeforeAddEntriesCommit(hookFn)
				}
				what += "/hook=" + op.Hook
			}
			cr.postEntries(body, op.Body == "gzip", end, what)
			witness.VerifSetBeforeAddEntriesPackage(nil)
			witness.VerifSetBeforeAddEntriesCommit(nil)
		}
	}
	cr.fmu.Lock()
	cr.faultArm = nil
	cr.fmu.Unlock()
	cr.wellBehavedClient("after-restart")
	r.Count("mirror_commits", int64(cr.mcommits))
}

func TestC15Mirror(t *testing.T) {
	r := NewRun(t, "C15", "mirror")
	r.Rule = "seeded histories of 20-60 operations against a real witness+mirror: add-checkpoint to growing pending sizes; add-entries with start in {next entry, mirror size, next-d, next+d, mid-tile, beyond, 0}, end in {pending, mirror size, older pending with/without its ticket, forged / bit-flipped / other-origin ticket, never cosigned}, bodies {canonical, first k packages, cut at a byte, gzip, wrong entry, fork entries, proof flipped/missing/extra, 64 hashes, empty}; requests interleaved through the two add-entries hooks; single lock/storage faults (applied or not); restarts; a well-behaved client loop. Monitor on every write under the mirror-checkpoint key and on every 200: log signature + verifying mirror cosignature, no witness line, size monotone and <= pending, and a byte-exact audit that the size-N tree is completely served (partial tile or the full tile extending it). Bounded progress: the client converges within 5 + N/256 requests when no fault is armed; distinct = (request shape, status)"
	rng := NewRng(r.Seed, "c15")
	var replayOps []c15Op
	if replayCase("C15", "mirror", &struct {
		Ops *[]c15Op `json:"ops"`
	}{&replayOps}) && len(replayOps) > 0 {
		runC15History(r, rng.Fork("replay"), 0, replayOps)
		return
	}
	n := pick(120, 1200)
	if raceEnabled {
		n /= 3 // the race-detector pass repeats the same generator on fewer histories
	}
	for i := 0; i < n; i++ {
		hr := rng.Fork(fmt.Sprint(i))
		if !mine(i) {
			continue
		}
		ops := genC15Ops(hr, pick(700, 1400))
		runC15History(r, hr, i, ops)
		if i < 4 {
			var s []string
			for _, o := range ops {
				s = append(s, o.String())
			}
			r.Sample(strings.Join(s, " "))
		}
	}
	for i := 0; i < pick(40, 300); i++ {
		hr := rng.Fork(fmt.Sprint("overlap", i))
		if !mine(i) {
			continue
		}
		runC15Overlap(r, hr, i)
	}
	if r.Counter("mirror_commits_audited") == 0 {
		r.Inconcl("no mirror checkpoint was ever recorded")
	}
}

// runC15Overlap: two witness+mirror processes with the same keys on the same
// stores (an overlapping restart). Process one is held between the packages
// and the commit of an upload (existing before-commit hook) while process two
// cosigns a larger checkpoint and mirrors up to it; then process one's commit
// goes on with its stale idea of the mirror checkpoint. The monitor on the
// mirror-checkpoint key must never see the size go back or an unservable tree.
func runC15Overlap(r *Run, rng *Rng, hn int) {
	e := NewWitEnv(r, rng.Fork("env"), true)
	defer e.Cleanup()
	if err := e.Start(); err != nil {
		panic(err)
	}
	logLen := 1400
	l := newWitLog(rng.Fork("log"), fmt.Sprintf("verif.example/log-c15o-%d", hn), logLen, []int{3}, 10)
	if err := e.AddLogs(true, l); err != nil {
		panic(err)
	}
	cr := &c15Run{r: r, e: e, l: l, rng: rng, tickets: map[int][]byte{}}
	e.OnMirrorCommit = cr.onMirrorCommit
	p1 := 100 + rng.Intn(600)
	p2 := p1 + 1 + rng.Intn(300)
	p3 := p2 + 1 + rng.Intn(300)
	e.CaseInfo = func() any {
		return map[string]any{"workload": "overlapping-mirror-instances", "sizes": []int{p1, p2, p3}, "last_requests": cr.trace}
	}
	r.Eval(1)
	w1 := e.Wit
	cr.addCheckpoint(p1)
	cr.wellBehavedClient("overlap-setup")
	if _, m := cr.state(); m != int64(p1) {
		return // setup did not reach the mirror checkpoint (reported by the client check)
	}
	cr.addCheckpoint(p2)
	var w2 *witness.Witness
	fired := false
	variant := pickOne(rng, []string{"two-mirrors-further", "two-mirrors-same", "two-only-checkpoints"})
	witness.VerifSetBeforeAddEntriesCommit(func() {
		if fired {
			return
		}
		fired = true
		var err error
		w2, _, err = e.StartOverlapping("witness-two", true)
		if err != nil {
			e.violate("witness-restart-failed", "second NewWitness on the same stores failed: %v", err)
			return
		}
		e.Wit = w2
		defer func() { e.Wit = w1 }()
		cr.note("-- process two takes over inside process one's commit (%s)", variant)
		switch variant {
		case "two-mirrors-further":
			cr.addCheckpoint(p3)
			cr.wellBehavedClient("after-restart")
		case "two-mirrors-same":
			cr.wellBehavedClient("after-restart")
		case "two-only-checkpoints":
			cr.addCheckpoint(p3)
		}
		cr.note("-- back to process one")
	})
	code, _ := cr.postEntries(cr.entriesBody(int64(p1), int64(p2), nil, "ok", int64(p2)), false, int64(p2), "stale-process-commit")
	witness.VerifSetBeforeAddEntriesCommit(nil)
	r.DistinctKey(fmt.Sprintf("overlap/%s/%d", variant, code))
	r.Count("overlap_cases", 1)
	// Neither of the two overlapping processes is required to make progress on
	// what the other one recorded (each holds stale cached state and a failed
	// compare-and-swap is the designed outcome). After a real restart (one fresh
	// process) uploads must resume from the mirror checkpoint.
	_ = w2
	if err := e.Start(); err != nil {
		e.violate("witness-restart-failed", "NewWitness after the overlap failed: %v", err)
		return
	}
	cr.wellBehavedClient("after-restart")
	r.Count("mirror_commits", int64(cr.mcommits))
}
