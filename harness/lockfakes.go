package verifharness

// Protocol-level fakes of DynamoDB (JSON 1.0) and S3 (ETag conditional writes,
// incl. the Tigris `If-Match: ""` = create-if-absent convention), written for
// the harness. They honour conditions faithfully, can serve stale reads when a
// read is not marked consistent, inject delays and unknown-outcome failures,
// and record every request for the request monitor.

import (
	"bufio"
	"bytes"
	"crypto/md5"
	"encoding/base64"
	"encoding/json"
	"fmt"
	"io"
	"net/http"
	"net/http/httptest"
	"strconv"
	"strings"
	"sync"
	"time"
)

type fakeFaults struct {
	mu        sync.Mutex
	rng       *Rng
	DelayUs   int // max random delay before handling
	Fail500   int // percent of mutating requests answered 500
	ApplyOn50 int // percent of those that are applied nevertheless
}

func (f *fakeFaults) roll() (delay time.Duration, fail, apply bool) {
	if f == nil || f.rng == nil {
		return 0, false, true
	}
	f.mu.Lock()
	defer f.mu.Unlock()
	if f.DelayUs > 0 {
		delay = time.Duration(f.rng.Intn(f.DelayUs)) * time.Microsecond
	}
	if f.Fail500 > 0 && f.rng.Intn(100) < f.Fail500 {
		fail = true
		apply = f.rng.Intn(100) < f.ApplyOn50
	} else {
		apply = true
	}
	return
}

type reqViolation struct {
	ID  string
	Msg string
}

// ---- DynamoDB ---------------------------------------------------------------

type fakeDynamo struct {
	srv    *httptest.Server
	mu     sync.Mutex
	items  map[string][][]byte // logID -> versions (last is current)
	faults *fakeFaults
	Viol   []reqViolation
	Reqs   map[string]int
}

func newFakeDynamo(faults *fakeFaults) *fakeDynamo {
	d := &fakeDynamo{items: map[string][][]byte{}, faults: faults, Reqs: map[string]int{}}
	d.srv = httptest.NewServer(http.HandlerFunc(d.handle))
	return d
}

func (d *fakeDynamo) viol(id, f string, a ...any) {
	d.Viol = append(d.Viol, reqViolation{id, fmt.Sprintf(f, a...)})
}

type ddbAttr struct {
	B *string `json:"B,omitempty"`
	S *string `json:"S,omitempty"`
}

func (a ddbAttr) bytes() []byte {
	if a.B == nil {
		return nil
	}
	b, _ := base64.StdEncoding.DecodeString(*a.B)
	return b
}

func b64attr(b []byte) ddbAttr {
	s := base64.StdEncoding.EncodeToString(b)
	return ddbAttr{B: &s}
}

func (d *fakeDynamo) handle(w http.ResponseWriter, r *http.Request) {
	body, _ := io.ReadAll(r.Body)
	target := r.Header.Get("X-Amz-Target")
	op := target[strings.LastIndex(target, ".")+1:]
	w.Header().Set("Content-Type", "application/x-amz-json-1.0")
	fail400 := func(typ, msg string) {
		w.WriteHeader(400)
		fmt.Fprintf(w, `{"__type":"com.amazonaws.dynamodb.v20120810#%s","message":%q}`, typ, msg)
	}
	switch op {
	case "GetItem":
		var req struct {
			Key            map[string]ddbAttr
			ConsistentRead *bool
		}
		json.Unmarshal(body, &req)
		delay, _, _ := d.faults.roll()
		time.Sleep(delay)
		d.mu.Lock()
		d.Reqs["GetItem"]++
		id := string(req.Key["logID"].bytes())
		vs := d.items[id]
		var cur []byte
		have := len(vs) > 0
		if have {
			cur = vs[len(vs)-1]
			if req.ConsistentRead == nil || !*req.ConsistentRead {
				// eventually consistent read: may lag by one version
				d.Reqs["GetItem_inconsistent"]++
				if len(vs) >= 2 {
					cur = vs[len(vs)-2]
				} else {
					have = false
				}
			}
		}
		d.mu.Unlock()
		if !have {
			w.Write([]byte(`{}`))
			return
		}
		out, _ := json.Marshal(map[string]any{"Item": map[string]ddbAttr{"logID": b64attr([]byte(id)), "checkpoint": b64attr(cur)}})
		w.Write(out)
	case "PutItem":
		var req struct {
			Item                      map[string]ddbAttr
			ConditionExpression       *string
			ExpressionAttributeValues map[string]ddbAttr
		}
		json.Unmarshal(body, &req)
		delay, fail, apply := d.faults.roll()
		time.Sleep(delay)
		d.mu.Lock()
		d.Reqs["PutItem"]++
		id := string(req.Item["logID"].bytes())
		val := req.Item["checkpoint"].bytes()
		if val == nil {
			val = []byte{}
		}
		vs := d.items[id]
		condOK := true
		switch {
		case req.ConditionExpression == nil:
			d.viol("dynamodb-unconditional-put", "PutItem without a ConditionExpression")
		case strings.TrimSpace(*req.ConditionExpression) == "attribute_not_exists(logID)":
			condOK = len(vs) == 0
		case strings.TrimSpace(*req.ConditionExpression) == "checkpoint = :old":
			old, ok := req.ExpressionAttributeValues[":old"]
			if !ok {
				d.viol("dynamodb-missing-old", "condition refers to :old but no value was sent")
				condOK = false
			} else {
				condOK = len(vs) > 0 && bytes.Equal(vs[len(vs)-1], old.bytes())
			}
		default:
			d.viol("dynamodb-unknown-condition", "unrecognised ConditionExpression %q", *req.ConditionExpression)
		}
		if condOK && apply {
			d.items[id] = append(vs, val)
		}
		d.mu.Unlock()
		switch {
		case fail:
			d.mu.Lock()
			d.Reqs["PutItem_500"]++
			d.mu.Unlock()
			w.WriteHeader(500)
			w.Write([]byte(`{"__type":"com.amazonaws.dynamodb.v20120810#InternalServerError","message":"injected"}`))
		case !condOK:
			fail400("ConditionalCheckFailedException", "The conditional request failed")
		default:
			w.Write([]byte(`{}`))
		}
	default:
		fail400("UnknownOperationException", op)
	}
}

// ---- S3 with ETags ----------------------------------------------------------

type s3Version struct {
	body []byte
	etag string
}

type fakeS3 struct {
	srv    *httptest.Server
	mu     sync.Mutex
	objs   map[string][]s3Version
	n      int
	faults *fakeFaults
	Viol   []reqViolation
	Reqs   map[string]int
}

func newFakeS3(faults *fakeFaults) *fakeS3 {
	s := &fakeS3{objs: map[string][]s3Version{}, faults: faults, Reqs: map[string]int{}}
	s.srv = httptest.NewServer(http.HandlerFunc(s.handle))
	return s
}

func (s *fakeS3) viol(id, f string, a ...any) {
	s.Viol = append(s.Viol, reqViolation{id, fmt.Sprintf(f, a...)})
}

func decodeAWSChunked(b []byte) []byte {
	var out []byte
	rd := bufio.NewReader(bytes.NewReader(b))
	for {
		line, err := rd.ReadString('\n')
		if err != nil {
			return out
		}
		line = strings.TrimSpace(line)
		if i := strings.Index(line, ";"); i >= 0 {
			line = line[:i]
		}
		n, err := strconv.ParseInt(line, 16, 64)
		if err != nil || n == 0 {
			return out
		}
		chunk := make([]byte, n)
		if _, err := io.ReadFull(rd, chunk); err != nil {
			return out
		}
		out = append(out, chunk...)
		rd.ReadString('\n')
	}
}

func (s *fakeS3) handle(w http.ResponseWriter, r *http.Request) {
	key := r.URL.Path
	s3err := func(code int, c, msg string) {
		w.Header().Set("Content-Type", "application/xml")
		w.WriteHeader(code)
		fmt.Fprintf(w, `<?xml version="1.0" encoding="UTF-8"?><Error><Code>%s</Code><Message>%s</Message><Key>%s</Key></Error>`, c, msg, key)
	}
	switch r.Method {
	case "GET":
		delay, _, _ := s.faults.roll()
		time.Sleep(delay)
		s.mu.Lock()
		s.Reqs["GET"]++
		vs := s.objs[key]
		s.mu.Unlock()
		if len(vs) == 0 {
			s3err(404, "NoSuchKey", "The specified key does not exist.")
			return
		}
		v := vs[len(vs)-1]
		w.Header().Set("ETag", v.etag)
		s.mu.Lock()
		s.n++
		streamed := s.n%3 == 0
		s.mu.Unlock()
		if streamed {
			// a streamed answer: chunked transfer encoding, no Content-Length
			// (object stores and the proxies in front of them may do this)
			s.mu.Lock()
			s.Reqs["GET_chunked"]++
			s.mu.Unlock()
			half := len(v.body) / 2
			w.Write(v.body[:half])
			if f, ok := w.(http.Flusher); ok {
				f.Flush()
			}
			w.Write(v.body[half:])
			return
		}
		w.Header().Set("Content-Length", strconv.Itoa(len(v.body)))
		w.Write(v.body)
	case "PUT":
		body, _ := io.ReadAll(r.Body)
		if strings.Contains(r.Header.Get("Content-Encoding"), "aws-chunked") || strings.HasPrefix(r.Header.Get("X-Amz-Content-Sha256"), "STREAMING-") {
			body = decodeAWSChunked(body)
		}
		delay, fail, apply := s.faults.roll()
		time.Sleep(delay)
		s.mu.Lock()
		s.Reqs["PUT"]++
		vs := s.objs[key]
		im, has := r.Header["If-Match"]
		condOK := true
		switch {
		case !has:
			s.viol("s3-unconditional-put", "PutObject without an If-Match header")
		case len(im) > 0 && im[0] == "":
			condOK = len(vs) == 0 // Tigris: empty If-Match = only if the object does not exist
		default:
			condOK = len(vs) > 0 && vs[len(vs)-1].etag == im[0]
		}
		var etag string
		if condOK && apply {
			s.n++
			sum := md5.Sum(body)
			etag = fmt.Sprintf("\"%x-%d\"", sum[:6], s.n)
			s.objs[key] = append(vs, s3Version{body: body, etag: etag})
		}
		s.mu.Unlock()
		switch {
		case fail:
			s.mu.Lock()
			s.Reqs["PUT_500"]++
			s.mu.Unlock()
			s3err(500, "InternalError", "injected")
		case !condOK:
			s3err(412, "PreconditionFailed", "At least one of the pre-conditions you specified did not hold")
		default:
			w.Header().Set("ETag", etag)
			w.WriteHeader(200)
		}
	default:
		s3err(405, "MethodNotAllowed", r.Method)
	}
}
