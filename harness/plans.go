package verifharness

// Fault and crash plans for one sequencing round (or one LoadLog), expressed
// over the mutating storage / lock operations the round issues.

import (
	"archive/tar"
	"bytes"
	"context"
	"fmt"
	"io"
	"strings"
	"sync"
	"sync/atomic"
)

type FaultSpec struct {
	Idx     int  `json:"idx"`     // index among the mutating calls of the round, in issue order
	Applied bool `json:"applied"` // effect applied although an error is returned
	// Kind of error handed back: "" generic, "deadline" (wraps
	// context.DeadlineExceeded), "canceled" (wraps context.Canceled), "eof"
	// (io.ErrUnexpectedEOF), "temporary" (a net.Error with Timeout() == true).
	Kind string `json:"kind,omitempty"`
}

type injectedNetError struct{}

func (injectedNetError) Error() string   { return "verif: injected network timeout" }
func (injectedNetError) Timeout() bool   { return true }
func (injectedNetError) Temporary() bool { return true }

var faultKinds = []string{"", "deadline", "canceled", "eof", "temporary"}

var injectedErrN atomic.Int64

// rotatingInjectedErr hands out the error kinds in turn: a fault site that does
// not choose a kind still exercises all of them over a run.
func rotatingInjectedErr() error {
	return faultErr(faultKinds[int(injectedErrN.Add(1))%len(faultKinds)])
}

func faultErr(kind string) error {
	switch kind {
	case "deadline":
		return fmt.Errorf("verif: injected fault: %w", context.DeadlineExceeded)
	case "canceled":
		return fmt.Errorf("verif: injected fault: %w", context.Canceled)
	case "eof":
		return fmt.Errorf("verif: injected fault: %w", io.ErrUnexpectedEOF)
	case "temporary":
		return fmt.Errorf("verif: injected fault: %w", injectedNetError{})
	}
	return errInjected
}

type CrashSpec struct {
	// Phase: "idx" (die at the Idx-th mutating call), or "tiles" (die inside the
	// parallel tile batch with exactly the uploads in Mask applied).
	Phase   string `json:"phase"`
	Idx     int    `json:"idx,omitempty"`
	Applied bool   `json:"applied,omitempty"`
	Mask    uint64 `json:"mask,omitempty"` // bit i: i-th upload of the bundle (tar order) applied
}

type RoundPlan struct {
	Faults []FaultSpec `json:"faults,omitempty"`
	Crash  *CrashSpec  `json:"crash,omitempty"`
	// BatchKeys pre-populates the tile batch order when the bundle is fetched
	// rather than uploaded (LoadLog recovery).
	BatchKeys []string `json:"-"`
}

func (p *RoundPlan) String() string {
	if p == nil {
		return "clean"
	}
	var s []string
	for _, f := range p.Faults {
		s = append(s, fmt.Sprintf("fault@%d/%v%s", f.Idx, f.Applied, map[bool]string{true: "/" + f.Kind, false: ""}[f.Kind != ""]))
	}
	if c := p.Crash; c != nil {
		if c.Phase == "tiles" {
			s = append(s, fmt.Sprintf("crash@tiles/%b", c.Mask))
		} else {
			s = append(s, fmt.Sprintf("crash@%d/%v", c.Idx, c.Applied))
		}
	}
	if len(s) == 0 {
		return "clean"
	}
	return strings.Join(s, "+")
}

// OpRecord is one mutating call of a recorded round.
type OpRecord struct {
	Kind    string `json:"kind"`
	Key     string `json:"key"`
	Applied bool   `json:"applied"`
	Err     bool   `json:"err"`
}

type planState struct {
	mu         sync.Mutex
	n          int
	stagedKeys []string
	batchSeen  int
	Ops        []OpRecord
	sawLock    bool
}

func bundleKeys(gz []byte) []string {
	raw, err := refGunzip(gz)
	if err != nil {
		return nil
	}
	var keys []string
	tr := tar.NewReader(bytes.NewReader(raw))
	for {
		h, err := tr.Next()
		if err != nil {
			break
		}
		keys = append(keys, h.Name)
		io.Copy(io.Discard, tr)
	}
	return keys
}

// Install sets the plan on the instance and returns the state (recorded ops,
// batch size) and a function giving the number of parked calls that marks the
// crash state as reached.
func (p *RoundPlan) Install(in *Inst) (*planState, func() int) {
	st := &planState{}
	if p != nil {
		st.stagedKeys = p.BatchKeys
	}
	in.Plan = func(c *Call) Decision {
		if !c.isMutating() {
			return decideOK
		}
		st.mu.Lock()
		defer st.mu.Unlock()
		if c.Kind == OpUpload && strings.HasPrefix(c.Key, "staging/") {
			st.stagedKeys = bundleKeys(c.Data)
		}
		d := decideOK
		idx := st.n
		st.n++
		if p != nil {
			for _, f := range p.Faults {
				if f.Idx == idx {
					d = Decision{Apply: f.Applied, Err: faultErr(f.Kind)}
				}
			}
			if cr := p.Crash; cr != nil {
				switch cr.Phase {
				case "idx":
					if idx == cr.Idx {
						d = Decision{Apply: cr.Applied, Park: true}
					}
				case "tiles":
					if c.Kind == OpUpload && strings.HasPrefix(c.Key, "tile/") && st.inBatch(c.Key) {
						bit := st.keyIndex(c.Key)
						d = Decision{Apply: cr.Mask&(1<<uint(bit)) != 0, Park: true}
					}
				}
			}
		}
		if c.Kind == OpLockReplace {
			st.sawLock = true
		}
		st.Ops = append(st.Ops, OpRecord{Kind: c.Kind.String(), Key: opKey(c), Applied: d.Apply, Err: d.Err != nil || d.Park})
		return d
	}
	want := func() int {
		if p != nil && p.Crash != nil && p.Crash.Phase == "tiles" {
			st.mu.Lock()
			defer st.mu.Unlock()
			if n := len(st.stagedKeys); n > 0 {
				return n
			}
		}
		return 1
	}
	return st, want
}

func opKey(c *Call) string {
	switch c.Kind {
	case OpUpload, OpDiscard, OpFetch:
		return c.Key
	}
	return "lock"
}

func (st *planState) keyIndex(key string) int {
	for i, k := range st.stagedKeys {
		if k == key {
			return i % 64
		}
	}
	return 63
}

func (st *planState) inBatch(key string) bool {
	for _, k := range st.stagedKeys {
		if k == key {
			return true
		}
	}
	// LoadLog recovery: the bundle is fetched, not uploaded, so stagedKeys is
	// unknown; every tile upload belongs to the recovery batch.
	return len(st.stagedKeys) == 0
}

func (st *planState) Recorded() []OpRecord {
	st.mu.Lock()
	defer st.mu.Unlock()
	return append([]OpRecord(nil), st.Ops...)
}

func opsShape(ops []OpRecord) string {
	var b strings.Builder
	for _, o := range ops {
		switch {
		case strings.HasPrefix(o.Key, "staging/"):
			b.WriteString(o.Kind[:1] + "S")
		case strings.HasPrefix(o.Key, "tile/"):
			b.WriteString("t")
		case o.Key == "checkpoint":
			b.WriteString("C")
		case o.Key == "lock":
			b.WriteString("L")
		default:
			b.WriteString("?")
		}
		if o.Err {
			b.WriteString("!")
		}
	}
	return b.String()
}
