package verifharness

import (
	"context"
	"fmt"
	"testing"
)

var c01Starts = []int{0, 1, 255, 256, 257, 511, 512, 513, 700}

func runOneHistory(r *Run, bases *baseStates, h *History, finalAudit bool) *histRunner {
	env := bases.envs[h.Start].Fork()
	env.CaseInfo = func() any { return h }
	defer env.Cleanup()
	hr := &histRunner{env: env, rng: NewRng(h.Seed, "entries")}
	hr.run(h)
	hr.drop()
	env.FinalChecks()
	env.CheckAcks()
	if finalAudit && !env.broken {
		if sth := env.PubSTH(); sth != nil {
			for _, p := range env.Audit(sth.Size, sth.Timestamp, 0) {
				env.violate("final-audit:"+p.Class, "final audit at published size %d: %s", sth.Size, p.Msg)
			}
		}
	}
	r.Eval(1)
	r.Count("rounds", int64(hr.Rounds))
	r.Count("round_commits", int64(hr.Commits))
	r.Count("round_crashes", int64(hr.Crashes))
	r.Count("round_fatal", int64(hr.Fatal))
	r.Count("round_nonfatal_failures", int64(hr.NonFatal))
	r.Count("restarts", int64(hr.Restarts))
	r.Count("final_tree_leaves", int64(env.TruthLen()))
	return hr
}

func TestC01Histories(t *testing.T) {
	r := NewRun(t, "C01", "histories")
	r.Rule = "seeded histories over {submit k, duplicate, round(clean|fault|2 faults|crash@op|crash in tile batch with subset) x clock(normal|stall|back|jump|+1), restart, cache loss} forked from pre-built trees; distinct = distinct (start size, op-sequence shape of a round incl. which ops failed)"
	rng := NewRng(r.Seed, "c01")
	bases := buildBases(r, rng, c01Starts)
	defer bases.Cleanup()
	var h History
	if replayCase("C01", "histories", &h) {
		runOneHistory(r, bases, &h, true)
		return
	}
	n := pick(640, 6000)
	for i := 0; i < n; i++ {
		hg := genHistory(rng.Fork(fmt.Sprint("h", i)), c01Starts, 14, true)
		if !mine(i) {
			continue
		}
		hr := runOneHistory(r, bases, hg, true)
		if i < 40 {
			r.Sample(map[string]any{"history": hg.String(), "rounds": hr.Rounds, "commits": hr.Commits, "crashes": hr.Crashes, "fatal": hr.Fatal})
		}
		r.DistinctKey(fmt.Sprintf("start:%d", hg.Start))
	}
	if r.Counter("lock_commits") == 0 || r.Counter("checkpoint_publications") == 0 {
		r.Inconcl("no lock commit or publication observed")
	}
}

// TestC01FaultEnum enumerates every single fault (and, in the thorough tier,
// every ordered pair) of one round at tile-boundary sizes.
func TestC01FaultEnum(t *testing.T) {
	r := NewRun(t, "C01", "faultenum")
	r.Rule = "complete enumeration of single faults (thorough: fault pairs) over the mutating ops of one round x {applied, not applied}, per (start size, pool size), each followed by restart + clean round; distinct = (start, pool, fault positions, applied flags)"
	r.Exhaustive = true
	rng := NewRng(r.Seed, "c01enum")
	starts := []int{0, 255, 256, 511}
	pools := []int{0, 1, 3, 258}
	if thorough() {
		starts = []int{0, 1, 255, 256, 257, 511, 512, 513}
	}
	bases := buildBases(r, rng, starts)
	defer bases.Cleanup()
	caseN := 0
	for _, start := range starts {
		for _, pool := range pools {
			if !thorough() && !(pool == 1 || (start == 255 && pool == 3) || (start == 0 && pool == 258) || (start == 256 && pool == 0)) {
				continue
			}
			// dry run to learn the op count
			m := countRoundOps(r, bases, start, pool)
			var plans []*RoundPlan
			for i := 0; i < m; i++ {
				for _, ap := range []bool{false, true} {
					plans = append(plans, &RoundPlan{Faults: []FaultSpec{{Idx: i, Applied: ap, Kind: faultKinds[(i+len(plans))%len(faultKinds)]}}})
				}
			}
			if thorough() {
				mm := min(m, 7)
				for i := 0; i < mm; i++ {
					for j := i + 1; j < mm+1 && j < m; j++ {
						for _, a1 := range []bool{false, true} {
							for _, a2 := range []bool{false, true} {
								plans = append(plans, &RoundPlan{Faults: []FaultSpec{{Idx: i, Applied: a1, Kind: faultKinds[(i+j)%len(faultKinds)]}, {Idx: j, Applied: a2, Kind: faultKinds[(i*3+j)%len(faultKinds)]}}})
							}
						}
					}
				}
			}
			for _, p := range plans {
				caseN++
				if !mine(caseN) {
					continue
				}
				h := &History{Start: start, Seed: int64(start*1000 + pool), Steps: []Step{
					{Op: "submit", K: pool}, {Op: "round", Clock: "normal", Plan: p},
					{Op: "submit", K: 2}, {Op: "round", Clock: "normal"},
					{Op: "restart"}, {Op: "submit", K: 1}, {Op: "round", Clock: "normal"},
				}}
				runOneHistory(r, bases, h, true)
				r.DistinctKey(fmt.Sprintf("%d/%d/%s", start, pool, p.String()))
				if caseN%37 == 0 {
					r.Sample(map[string]any{"history": h.String()})
				}
			}
		}
	}
}

func countRoundOps(r *Run, bases *baseStates, start, pool int) int {
	env := bases.envs[start].Fork()
	defer env.Cleanup()
	li, err := env.Load("dry", nil)
	if err != nil {
		panic(err)
	}
	rng := NewRng(1, "dry")
	var subs []*Sub
	for i := 0; i < pool; i++ {
		subs = append(subs, li.Submit(genEntry(rng, cheapShape(rng)), false))
	}
	simNow.Add(100)
	ps, want := (&RoundPlan{}).Install(li.In)
	if err, _ := li.Sequence(want); err != nil {
		panic(err)
	}
	for _, s := range subs {
		li.WaitAck(context.Background(), s)
	}
	return len(ps.Recorded())
}
