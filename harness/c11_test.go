package verifharness

import (
	"bytes"
	"crypto"
	"crypto/ecdsa"
	"crypto/elliptic"
	"crypto/rand"
	"crypto/rsa"
	"crypto/sha256"
	"encoding/base64"
	"encoding/binary"
	"fmt"
	"strings"
	"sync"
	"testing"

	"filippo.io/sunlight"
	"filippo.io/sunlight/internal/ctlog"
	"filippo.io/torchwood"
	"golang.org/x/mod/sumdb/note"
)

// refSTHInput is the RFC 6962 3.5 TreeHeadSignature input.
func refSTHInput(size int64, root Hash, ts int64) []byte {
	b := []byte{0, 1}
	b = putU64(b, uint64(ts))
	b = putU64(b, uint64(size))
	return append(b, root[:]...)
}

func refDigitallySigned(key crypto.Signer, msg []byte) []byte {
	h := sha256.Sum256(msg)
	sig, err := key.Sign(rand.Reader, h[:], crypto.SHA256)
	if err != nil {
		panic(err)
	}
	alg := byte(3)
	if _, ok := key.(*rsa.PrivateKey); ok {
		alg = 1
	}
	out := []byte{4, alg}
	out = putU16(out, len(sig))
	return append(out, sig...)
}

var c11RSAKey = sync.OnceValue(func() *rsa.PrivateKey {
	k, err := rsa.GenerateKey(rand.Reader, 2048)
	if err != nil {
		panic(err)
	}
	return k
})

var c11P384Key = sync.OnceValue(func() *ecdsa.PrivateKey {
	k, _ := ecdsa.GenerateKey(elliptic.P384(), rand.Reader)
	return k
})

func sigLineFor(n *RefNote, name string, kh uint32) (RefSig, bool) {
	for _, s := range n.Sigs {
		if s.Name == name && s.KeyHash == kh {
			return s, true
		}
	}
	return RefSig{}, false
}

type c11Case struct {
	Name string `json:"name"`
	Size int64  `json:"size"`
	Root string `json:"root"`
	TS   int64  `json:"timestamp"`
	Key  string `json:"key"`
}

func TestC11Checkpoints(t *testing.T) {
	r := NewRun(t, "C11", "checkpoints")
	r.Rule = "signing: generated (origin, size, root, timestamp) incl. 0, 1, 2^63-1 signed by the real signTreeHead (and by the injected signer with harness-made ECDSA P-256/P-384 and RSA-2048 signatures); each checked with the public verifier, the ML-DSA cosignature verifier, the embedded timestamp, an independent note parser + certificate-transparency-go STH verification, and byte-equal re-signing. verifier: each valid checkpoint mutated (every single-byte text substitution for a sample of positions x values, size/root/origin/extension/trailing edits, every blob byte flip, truncations, extensions, algorithm ids, length and timestamp fields); oracle: accepted by the sunlight verifier => accepted by the independent verifier for the tuple parsed from the mutated input, origin = verifier name, no extension, blob consumed exactly; distinct = (key type, mutation class, accepted?)"
	rng := NewRng(r.Seed, "c11")
	shard, shards := shardInfo()
	rng = rng.Fork(fmt.Sprint(shard))
	n := pick(120, 1600) / shards
	if n < 2 {
		n = 2
	}
	names := []string{"verif.example/log", "example.com/a-b_c.d/2026h1", "l", "日本.example/ログ", "x.example/" + strings.Repeat("n", 200)}
	for i := 0; i < n; i++ {
		cfgKey := detECDSA(rng)
		cfg := &ctlog.Config{Name: pickOne(rng, names), Key: cfgKey, WitnessKey: detMLDSA(rng)}
		size := pickOne(rng, []int64{0, 1, 2, 255, 256, 1 << 32, 1<<40 - 1, 1<<63 - 1, int64(rng.U64() >> 1)})
		ts := pickOne(rng, []int64{0, 1, 1750000000000, 1<<63 - 1, int64(rng.U64() >> 1)})
		var root Hash
		copy(root[:], rng.Bytes(32))
		cc := &c11Case{Name: cfg.Name, Size: size, Root: fmt.Sprintf("%x", root), TS: ts, Key: "ecdsa-p256"}
		cp, err := ctlog.VerifSignTreeHead(cfg, size, root, ts)
		r.Eval(1)
		if err != nil {
			r.Violate("sign-failed", cc, "signTreeHead failed: %v", err)
			continue
		}
		checkSignedCheckpoint(r, cc, cp, cfg.Name, cfg.Key.Public(), cfg, size, root, ts)
		// determinism: sign again, compare the RFC 6962 signature line
		cp2, _ := ctlog.VerifSignTreeHead(cfg, size, root, ts)
		kh, _, _ := refRFC6962KeyHash(cfg.Name, cfg.Key.Public())
		n1, e1 := refParseNote(cp)
		n2, e2 := refParseNote(cp2)
		if e1 == nil && e2 == nil {
			s1, ok1 := sigLineFor(n1, cfg.Name, kh)
			s2, ok2 := sigLineFor(n2, cfg.Name, kh)
			if !ok1 || !ok2 || !bytes.Equal(s1.Blob, s2.Blob) {
				r.Violate("signing-not-deterministic", cc, "signing the same tree head twice gave different RFC 6962 signature bytes")
			}
			r.Count("determinism_checks", 1)
		}
		// injected signer with other key types
		for _, kt := range []string{"ecdsa-p256", "ecdsa-p384", "rsa-2048"} {
			var key crypto.Signer
			switch kt {
			case "ecdsa-p256":
				key = detECDSA(rng)
			case "ecdsa-p384":
				key = c11P384Key()
			case "rsa-2048":
				key = c11RSAKey()
			}
			ic := &c11Case{Name: cfg.Name, Size: size, Root: cc.Root, TS: ts, Key: kt}
			sig := refDigitallySigned(key, refSTHInput(size, root, ts))
			signer, err := sunlight.NewRFC6962InjectedSigner(cfg.Name, key.Public(), sig, ts)
			if err != nil {
				r.Violate("injected-signer-construct", ic, "NewRFC6962InjectedSigner: %v", err)
				continue
			}
			text := refFormatCheckpoint(cfg.Name, size, root)
			signed, err := note.Sign(&note.Note{Text: text}, signer)
			r.Eval(1)
			if err != nil {
				r.Violate("injected-signer-refused-valid", ic, "injected signer refused a valid %s signature: %v", kt, err)
				continue
			}
			checkRFC6962Only(r, ic, signed, cfg.Name, key.Public(), size, root, ts)
			r.DistinctKey("sign/" + kt)
			// a signature over another tree head must be refused by the injected signer
			bad := refDigitallySigned(key, refSTHInput(size+1, root, ts))
			if s2, err := sunlight.NewRFC6962InjectedSigner(cfg.Name, key.Public(), bad, ts); err == nil {
				if _, err := note.Sign(&note.Note{Text: text}, s2); err == nil {
					r.Violate("injected-signer-accepted-invalid", ic, "injected signer accepted a signature over a different tree head")
				}
			}
			if i%4 == 0 || kt != "ecdsa-p256" {
				mutateAndCompare(r, rng, ic, signed, cfg.Name, key.Public(), kt)
			}
		}
	}
}

func checkSignedCheckpoint(r *Run, cc *c11Case, cp []byte, name string, pub crypto.PublicKey, cfg *ctlog.Config, size int64, root Hash, ts int64) {
	checkRFC6962Only(r, cc, cp, name, pub, size, root, ts)
	wv, err := torchwood.NewCosignatureVerifierFromKey(name, cfg.WitnessKey.PublicKey())
	if err != nil {
		r.Violate("cosig-verifier", cc, "cannot build the ML-DSA verifier: %v", err)
		return
	}
	if _, err := note.Open(cp, note.VerifierList(wv)); err != nil {
		r.Violate("mldsa-cosignature-missing", cc, "checkpoint does not open under the log's ML-DSA cosignature verifier: %v", err)
	}
}

func checkRFC6962Only(r *Run, cc *c11Case, cp []byte, name string, pub crypto.PublicKey, size int64, root Hash, ts int64) {
	v, err := sunlight.NewRFC6962Verifier(name, pub)
	if err != nil {
		r.Violate("verifier-construct", cc, "NewRFC6962Verifier: %v", err)
		return
	}
	n, err := note.Open(cp, note.VerifierList(v))
	if err != nil {
		r.Violate("signed-checkpoint-does-not-open", cc, "signed checkpoint does not open with the public verifier: %v", err)
		return
	}
	found := false
	for _, s := range n.Sigs {
		if s.Hash == v.KeyHash() {
			found = true
			got, err := sunlight.RFC6962SignatureTimestamp(s)
			if err != nil || got != ts {
				r.Violate("embedded-timestamp", cc, "RFC6962SignatureTimestamp = %d, %v; signed with %d", got, err, ts)
			}
		}
	}
	if !found {
		r.Violate("signed-checkpoint-does-not-open", cc, "no verified signature by the log key")
	}
	sth, err := refVerifyRFC6962Checkpoint(cp, name, pub)
	if err != nil {
		r.Violate("independent-verifier-rejects", cc, "independent RFC 6962 verification of a freshly signed checkpoint failed: %v", err)
		return
	}
	if sth.Origin != name || sth.Size != size || sth.Root != root || sth.Timestamp != ts {
		r.Violate("independent-tuple-differs", cc, "independent verifier reconstructs (%s,%d,%x,%d)", sth.Origin, sth.Size, sth.Root[:4], sth.Timestamp)
	}
	r.Count("signed_checkpoints_checked", 1)
}

// mutateAndCompare: differential strictness check on mutants of a checkpoint
// that carries only the RFC 6962 signature line.
func mutateAndCompare(r *Run, rng *Rng, cc *c11Case, signed []byte, name string, pub crypto.PublicKey, kt string) {
	v, _ := sunlight.NewRFC6962Verifier(name, pub)
	n, err := refParseNote(signed)
	if err != nil || len(n.Sigs) != 1 {
		return
	}
	sig := n.Sigs[0]
	blob := append(binary.BigEndian.AppendUint32(nil, sig.KeyHash), sig.Blob...)
	build := func(text string, raw []byte) []byte {
		return []byte(text + "\n— " + name + " " + base64.StdEncoding.EncodeToString(raw) + "\n")
	}
	try := func(class string, m []byte) {
		r.Eval(1)
		_, err := note.Open(m, note.VerifierList(v))
		accepted := err == nil
		r.DistinctKey(fmt.Sprintf("%s/%s/accepted=%v", kt, class, accepted))
		if !accepted {
			r.Count("mutants_rejected", 1)
			return
		}
		r.Count("mutants_accepted", 1)
		info := map[string]any{"case": cc, "class": class, "mutant": string(m)}
		rn, err := refParseNote(m)
		if err != nil {
			r.Violate("accepted-unparseable:"+class, info, "sunlight verifier accepted a note the reference parser rejects: %v", err)
			return
		}
		c, err := refParseCheckpointText(rn.Text)
		if err != nil {
			r.Violate("accepted-bad-checkpoint-text:"+class, info, "accepted a checkpoint whose text does not parse: %v", err)
			return
		}
		if c.Ext != "" {
			r.Violate("accepted-extension-line", info, "accepted a checkpoint with an extension line")
		}
		if c.Origin != name {
			r.Violate("accepted-foreign-origin", info, "accepted origin %q under the verifier for %q", c.Origin, name)
		}
		if _, err := refVerifyRFC6962Note(rn, name, pub); err != nil {
			r.Violate("accepted-but-independent-rejects:"+class, info, "sunlight verifier accepted a mutant (%s) that the independent verifier rejects: %v", class, err)
		}
		if !bytes.Equal(m, signed) {
			r.Count("accepted_non_identity_mutants", 1)
		}
	}
	try("identity", signed)
	text := n.Text
	// text: byte substitutions
	for k := 0; k < 60; k++ {
		i := rng.Intn(len(text))
		b := []byte(text)
		b[i] = byte(pickOne(rng, []int{'0', '1', '9', 'A', 'a', '/', '+', '=', '\n', ' ', int(b[i]) ^ 1, int(b[i]) + 1}))
		try("text-byte", build(string(b), blob))
	}
	c, _ := refParseCheckpointText(text)
	var other Hash
	copy(other[:], rng.Bytes(32))
	try("size+1", build(refFormatCheckpoint(c.Origin, c.Size+1, c.Root), blob))
	if c.Size > 0 {
		try("size-1", build(refFormatCheckpoint(c.Origin, c.Size-1, c.Root), blob))
	}
	try("other-root", build(refFormatCheckpoint(c.Origin, c.Size, other), blob))
	try("other-origin", build(refFormatCheckpoint(c.Origin+"x", c.Size, c.Root), blob))
	try("extension-line", build(text+"extension\n", blob))
	try("leading-zero-size", build(c.Origin+"\n0"+fmt.Sprint(c.Size)+"\n"+base64.StdEncoding.EncodeToString(c.Root[:])+"\n", blob))
	// blob: every byte flipped (one bit), truncations, extensions, field edits
	for i := range blob {
		m := bytes.Clone(blob)
		m[i] ^= 1 << uint(rng.Intn(8))
		cls := "blob-sig"
		switch {
		case i < 4:
			cls = "blob-keyhash"
		case i < 12:
			cls = "blob-timestamp"
		case i < 14:
			cls = "blob-alg"
		case i < 16:
			cls = "blob-len"
		}
		try(cls, build(text, m))
	}
	for _, cut := range []int{1, 2, 3, len(blob) / 2} {
		if cut < len(blob) {
			try("blob-truncated", build(text, blob[:len(blob)-cut]))
		}
	}
	for ext := 1; ext <= 3; ext++ {
		try("blob-trailing", build(text, append(bytes.Clone(blob), rng.Bytes(ext)...)))
		// trailing bytes with the length field adjusted to cover them
		m := bytes.Clone(blob)
		l := int(m[14])<<8 | int(m[15])
		l += ext
		m[14], m[15] = byte(l>>8), byte(l)
		try("blob-trailing-in-len", build(text, append(m, rng.Bytes(ext)...)))
	}
	for _, alg := range [][2]byte{{4, 1}, {4, 3}, {4, 0}, {3, 3}, {5, 3}, {4, 2}, {0, 0}} {
		m := bytes.Clone(blob)
		m[12], m[13] = alg[0], alg[1]
		try("blob-algorithm", build(text, m))
	}
	// other name on the signature line
	try("sig-line-other-name", []byte(text+"\n— other.example "+base64.StdEncoding.EncodeToString(blob)+"\n"))
	try("trailing-after-note", append(bytes.Clone(signed), []byte("x\n")...))
}
