package verifharness

import (
	"context"
	"fmt"
	"os"
	"strings"
	"sync"
	"testing"
	"time"

	"crawshaw.io/sqlite"
	"crawshaw.io/sqlite/sqlitex"
	"filippo.io/sunlight/internal/ctlog"
)

type c07Step struct {
	Op    string `json:"op"` // submit | round | restart | cacheloss | cacherollback | legacy | droplegacy
	X     []int  `json:"x,omitempty"`
	Hold  string `json:"hold,omitempty"`  // round: phase to hold the sequencer in while X is submitted
	Fault string `json:"fault,omitempty"` // round: "" | checkpoint | staging | checkpoint-applied
}

func (s c07Step) String() string {
	switch s.Op {
	case "submit":
		return fmt.Sprintf("submit%v", s.X)
	case "round":
		return fmt.Sprintf("round(hold=%s%v fault=%s)", s.Hold, s.X, s.Fault)
	}
	return s.Op
}

type c07Case struct {
	Seed  int64     `json:"seed"`
	Steps []c07Step `json:"steps"`
}

func (c *c07Case) String() string {
	var s []string
	for _, st := range c.Steps {
		s = append(s, st.String())
	}
	return strings.Join(s, " ")
}

var c07Phases = []string{"pause", "staging", "lock", "tile", "checkpoint", "discard", "cachewrite", "none"}

func genC07Case(rng *Rng, u int) *c07Case {
	c := &c07Case{Seed: int64(rng.U64() >> 1)}
	some := func(n int) []int {
		var x []int
		for i := 0; i < n; i++ {
			x = append(x, rng.Intn(u))
		}
		return x
	}
	n := 5 + rng.Intn(8)
	for i := 0; i < n; i++ {
		switch v := rng.Intn(100); {
		case v < 35:
			c.Steps = append(c.Steps, c07Step{Op: "submit", X: some(1 + rng.Intn(4))})
		case v < 75:
			st := c07Step{Op: "round", Hold: pickOne(rng, c07Phases), X: some(1 + rng.Intn(4))}
			if rng.Intn(6) == 0 {
				st.Fault = pickOne(rng, []string{"checkpoint", "staging", "checkpoint-applied"})
			}
			c.Steps = append(c.Steps, st)
		case v < 82:
			c.Steps = append(c.Steps, c07Step{Op: "restart"})
		case v < 87:
			c.Steps = append(c.Steps, c07Step{Op: "cacheloss"})
		case v < 92:
			c.Steps = append(c.Steps, c07Step{Op: "cacherollback"})
		case v < 97:
			c.Steps = append(c.Steps, c07Step{Op: "legacy"})
		default:
			c.Steps = append(c.Steps, c07Step{Op: "droplegacy"})
		}
	}
	c.Steps = append(c.Steps, c07Step{Op: "round", Hold: "none"}, c07Step{Op: "submit", X: some(3)}, c07Step{Op: "round", Hold: "none"})
	return c
}

// c07Universe: distinct entries including the confusable pairs the property
// names: precertificates differing only in issuer key hash, and entries sharing
// the certificate bytes but not the type.
func c07Universe(rng *Rng) []*ctlog.PendingLogEntry {
	var u []*ctlog.PendingLogEntry
	for i := 0; i < 4; i++ {
		u = append(u, genEntry(rng, cheapShape(rng)))
	}
	p1 := genEntry(rng, ShapeBlobPrecert)
	p2 := cloneEntry(p1)
	p2.IssuerKeyHash[31] ^= 1
	x := genEntry(rng, ShapeBlobX509)
	xp := &ctlog.PendingLogEntry{IsPrecert: true, Certificate: x.Certificate, PreCertificate: []byte("\x03pre"), Issuers: x.Issuers}
	copy(xp.IssuerKeyHash[:], rng.Bytes(32))
	// same certificate, different issuer chain: same identity (chain is not part of it)
	y := cloneEntry(u[0])
	y.Issuers = [][]byte{issuerBlob(7)}
	u = append(u, p1, p2, x, xp, y, genEntry(rng, ShapeRealX509))
	return u
}

type idState struct {
	acks      map[string]bool // distinct (index,timestamp) acknowledged in the current epoch
	acked     bool
	pendingN  int // admitted and not yet resolved (round not finished)
	pendRound int // LogInst.Round at the time of that admission
}

type c07Runner struct {
	r     *Run
	env   *LogEnv
	li    *LogInst
	u     []*ctlog.PendingLogEntry
	ids   map[string]*idState
	out   []*Sub // outstanding submissions
	saved string // older cache copy for rollback
	instN int
	held  int
}

func (cr *c07Runner) st(e *ctlog.PendingLogEntry) *idState {
	k := identity(e)
	s := cr.ids[k]
	if s == nil {
		s = &idState{acks: map[string]bool{}}
		cr.ids[k] = s
	}
	return s
}

func (cr *c07Runner) newEpoch() {
	for _, s := range cr.ids {
		s.acks = map[string]bool{}
		s.acked = false
	}
}

func (cr *c07Runner) ensure() bool {
	if cr.li != nil {
		return true
	}
	simNow.Add(5)
	cr.instN++
	li, err := cr.env.Load(fmt.Sprint("i", cr.instN), nil)
	if err != nil {
		cr.env.violate("restart-failed", "LoadLog failed: %v", err)
		return false
	}
	cr.li = li
	return true
}

func (cr *c07Runner) drop() {
	if cr.li != nil {
		cr.li.Abandon()
		cr.li = nil
	}
	// unresolved submissions of a stopped instance are gone
	for _, s := range cr.out {
		cr.st(s.E).pendingN = 0
	}
	cr.out = nil
}

func (cr *c07Runner) submit(x int, phase string) {
	e := cloneEntry(cr.u[x%len(cr.u)])
	st := cr.st(e)
	s := cr.li.Submit(e, false)
	cr.r.Count("submissions_"+s.Source, 1)
	cr.r.DistinctKey(fmt.Sprintf("%s/%s/acked=%v/pending=%v", phase, s.Source, st.acked, st.pendingN > 0))
	if s.Source == "sequencer" {
		if st.acked {
			cr.env.violate("acked-entry-readmitted", "entry %d was acknowledged in this cache epoch, yet a resubmission (during %s) was admitted as a new leaf", x, phase)
		}
		if st.pendingN > 0 {
			cr.env.violate("pending-entry-readmitted", "entry %d is pending or being sequenced, yet a resubmission (during %s) was admitted as a new leaf", x, phase)
		}
		st.pendingN++
		st.pendRound = s.Round
	}
	if s.Source == "pool" && st.pendingN > 0 {
		// a duplicate of a pending entry waits for that entry's pool
		s.Round = st.pendRound
		s.nextPool = true
	}
	if s.Source == "cache" {
		// answered from the cache: the answer exists now and belongs to the
		// current cache epoch (collected later it would be booked to the epoch
		// after a cache loss / legacy-table drop that happened in between)
		ctx, cancel := context.WithTimeout(context.Background(), 5*time.Second)
		a := cr.li.WaitAck(ctx, s)
		cancel()
		if a.OK {
			st.acks[fmt.Sprintf("%d/%d", a.Index, a.Timestamp)] = true
			st.acked = true
			if len(st.acks) > 1 {
				cr.env.violate("different-acks-for-one-entry", "one entry received different acknowledgements within one cache epoch: %v", sortedKeys(st.acks))
			}
		}
		return
	}
	cr.out = append(cr.out, s)
}

// collect waits for every outstanding submission whose pool was sequenced.
func (cr *c07Runner) collect(roundOK bool) {
	var keep []*Sub
	for _, s := range cr.out {
		if (s.Source == "sequencer" || s.nextPool) && s.Round == cr.li.Round {
			keep = append(keep, s) // admitted after the rotation: next round
			continue
		}
		ctx, cancel := context.WithTimeout(context.Background(), 5*time.Second)
		a := cr.li.WaitAck(ctx, s)
		cancel()
		st := cr.st(s.E)
		if s.Source == "sequencer" {
			st.pendingN = 0
		}
		if a.OK {
			st.acks[fmt.Sprintf("%d/%d", a.Index, a.Timestamp)] = true
			st.acked = true
			if len(st.acks) > 1 {
				cr.env.violate("different-acks-for-one-entry", "one entry received different acknowledgements within one cache epoch: %v", sortedKeys(st.acks))
			}
		}
	}
	cr.out = keep
}

func (cr *c07Runner) round(st c07Step) {
	li := cr.li
	simNow.Add(int64(3 + len(st.X)))
	reached := make(chan struct{}, 1)
	release := make(chan struct{})
	var once sync.Once
	hold := func() {
		once.Do(func() {
			reached <- struct{}{}
			<-release
		})
	}
	match := func(c *Call) bool {
		switch st.Hold {
		case "staging":
			return c.Kind == OpUpload && strings.HasPrefix(c.Key, "staging/")
		case "lock":
			return c.Kind == OpLockReplace
		case "tile":
			return c.Kind == OpUpload && strings.HasPrefix(c.Key, "tile/")
		case "checkpoint":
			return c.Kind == OpUpload && c.Key == "checkpoint"
		case "discard":
			return c.Kind == OpDiscard
		}
		return false
	}
	afterPublish := make(chan bool, 1)
	li.In.Plan = func(c *Call) Decision {
		d := decideOK
		switch {
		case st.Fault == "checkpoint" && c.Kind == OpUpload && c.Key == "checkpoint":
			d = Decision{Apply: false, Err: rotatingInjectedErr()}
		case st.Fault == "checkpoint-applied" && c.Kind == OpUpload && c.Key == "checkpoint":
			d = Decision{Apply: true, Err: rotatingInjectedErr()}
		case st.Fault == "staging" && c.Kind == OpUpload && strings.HasPrefix(c.Key, "staging/"):
			d = Decision{Apply: false, Err: rotatingInjectedErr()}
		}
		if match(c) {
			d.Gate = hold
		}
		return d
	}
	li.In.Trace = func(c *Call) {
		if c.Kind == OpUpload && c.Key == "checkpoint" {
			select {
			case afterPublish <- c.Err == nil:
			default:
			}
		}
	}
	var lockConn *sqlite.Conn
	switch st.Hold {
	case "pause":
		ctlog.VerifSetPauseSequencing(hold)
		defer ctlog.VerifSetPauseSequencing(nil)
	case "cachewrite":
		// hold the SQLite write lock so that the round blocks inside its cache write
		if c, err := sqlite.OpenConn(li.Cfg.Cache, 0); err == nil {
			if sqlitex.ExecTransient(c, "BEGIN IMMEDIATE;", nil) == nil {
				lockConn = c
			} else {
				c.Close()
			}
		}
	}
	li.BeginRound()
	done := make(chan error, 1)
	go func() { done <- li.Log.VerifSequence(context.Background()) }()
	phase := st.Hold
	var err error
	finished := false
	switch {
	case lockConn != nil:
		select {
		case ok := <-afterPublish:
			if ok {
				time.Sleep(3 * time.Millisecond) // let the round reach its cache write, where it blocks
			} else {
				err = <-done // the checkpoint upload failed: the round ends without a cache write
				finished = true
				phase = "after-round"
			}
		case err = <-done:
			finished = true
			phase = "after-round"
		}
	case st.Hold == "none":
		err = <-done
		finished = true
	default:
		select {
		case <-reached:
			cr.held++
			cr.r.Count("held_"+st.Hold, 1)
		case err = <-done:
			finished = true
			phase = "after-round"
		}
	}
	if finished && err == nil {
		cr.collect(true) // the round is over: its entries are resolved before the resubmissions
	}
	for _, x := range st.X {
		if finished && err != nil {
			break
		}
		cr.submit(x, phase)
	}
	if lockConn != nil {
		sqlitex.ExecTransient(lockConn, "COMMIT;", nil)
		lockConn.Close()
		cr.r.Count("held_cachewrite", 1)
	}
	close(release)
	if !finished {
		err = <-done
	}
	li.In.Plan, li.In.Trace = nil, nil
	if err != nil {
		// fatal: the instance stops
		cr.r.Count("rounds_fatal", 1)
		cr.collect(false)
		cr.drop()
		return
	}
	cr.r.Count("rounds", 1)
	cr.collect(true)
}

func copyCache(dst, src string) {
	os.Remove(dst)
	if b, err := os.ReadFile(src); err == nil {
		os.WriteFile(dst, b, 0o644)
	}
}

func (cr *c07Runner) toLegacy() {
	// move the current 256-bit cache rows into a legacy 128-bit table
	c, err := sqlite.OpenConn(cr.env.Cache, 0)
	if err != nil {
		return
	}
	defer c.Close()
	sqlitex.ExecScript(c, `
		CREATE TABLE IF NOT EXISTS cache (key BLOB PRIMARY KEY, timestamp INTEGER, leaf_index INTEGER) WITHOUT ROWID;
		INSERT OR IGNORE INTO cache SELECT substr(key, 1, 16), timestamp, leaf_index FROM cache256;
		DELETE FROM cache256;`)
}

func (cr *c07Runner) dropLegacy() {
	c, err := sqlite.OpenConn(cr.env.Cache, 0)
	if err != nil {
		return
	}
	defer c.Close()
	if sqlitex.ExecTransient(c, "DROP TABLE IF EXISTS cache;", nil) == nil {
		cr.newEpoch() // entries only known to the legacy table are forgotten
	}
}

func runC07Case(r *Run, cc *c07Case) {
	rng := NewRng(cc.Seed, "c07")
	env := NewLogEnv(r, rng.Fork("env"))
	env.AuditPub = true
	env.CaseInfo = func() any { return cc }
	defer env.Cleanup()
	r.Eval(1)
	simNow.Add(100)
	if err := env.Create(nil); err != nil {
		panic(err)
	}
	cr := &c07Runner{r: r, env: env, u: c07Universe(rng), ids: map[string]*idState{}}
	cr.saved = env.Cache + ".saved"
	for _, st := range cc.Steps {
		switch st.Op {
		case "submit":
			if !cr.ensure() {
				return
			}
			for _, x := range st.X {
				cr.submit(x, "between-rounds")
			}
		case "round":
			if !cr.ensure() {
				return
			}
			cr.round(st)
			if cr.li != nil && st.Fault == "" {
				copyCache(cr.saved+".next", env.Cache)
			}
		case "restart":
			cr.drop()
		case "cacheloss":
			cr.drop()
			os.Remove(env.Cache)
			cr.newEpoch()
			env.NoDedup = true
		case "cacherollback":
			cr.drop()
			if _, err := os.Stat(cr.saved); err == nil {
				copyCache(env.Cache, cr.saved)
				cr.newEpoch()
			}
			env.NoDedup = true
		case "legacy":
			cr.drop()
			cr.toLegacy()
		case "droplegacy":
			cr.dropLegacy() // while the instance may be running
		}
		if _, err := os.Stat(cr.saved + ".next"); err == nil && (st.Op == "restart" || st.Op == "round") && rng.Intn(3) == 0 {
			os.Rename(cr.saved+".next", cr.saved)
		}
	}
	cr.drop()
	env.FinalChecks()
	env.CheckAcks()
	env.CheckAcksFinal()
	// exactly-once: identities with more than one leaf must be explained by a
	// cache loss / failed round (NoDedup or a fault step); otherwise violation
	counts := map[string]int{}
	env.mu.Lock()
	for _, l := range env.Truth {
		h := "x"
		if l.IsPrecert {
			h = "p" + string(l.IssuerKeyHash[:])
		}
		counts[h+string(l.Cert)]++
	}
	env.mu.Unlock()
	faulty := env.NoDedup
	for _, st := range cc.Steps {
		if st.Fault != "" || st.Op == "droplegacy" {
			faulty = true
		}
	}
	for _, n := range counts {
		if n > 1 && !faulty {
			env.violate("duplicate-leaf-without-cause", "an entry has %d leaves although no cache loss, legacy-table drop or failed round occurred", n)
			break
		}
	}
	r.Count("final_tree_leaves", int64(len(counts)))
}

func TestC07Phases(t *testing.T) {
	r := NewRun(t, "C07", "phases")
	r.Rule = "seeded histories over a universe of 10 entries (incl. precertificates differing only in issuer key hash, same bytes with different entry type, same certificate with another chain): submissions between rounds and while the sequencer is held in each phase (pause hook, staging upload, lock CAS, tile upload, checkpoint upload, staging discard, inside the cache write via a held SQLite write lock), failed rounds, restarts, cache loss, cache rollback, legacy 128-bit table and its removal while running; distinct = (phase, source label, acked?, pending?)"
	rng := NewRng(r.Seed, "c07")
	var rc c07Case
	if replayCase("C07", "phases", &rc) {
		runC07Case(r, &rc)
		return
	}
	n := pick(160, 4000)
	for i := 0; i < n; i++ {
		cc := genC07Case(rng.Fork(fmt.Sprint(i)), 10)
		if !mine(i) {
			continue
		}
		runC07Case(r, cc)
		if i < 40 {
			r.Sample(cc.String())
		}
	}
	for k := 0; k < pick(9, 90); k++ {
		if !mine(k) {
			continue
		}
		runC07IssuerHold(r, rng.Fork(fmt.Sprint("issuerhold", k)), []string{"b-acknowledged", "b-pending", "b-being-sequenced"}[k%3], k)
	}
	for _, ph := range c07Phases {
		if ph != "none" && r.Counter("held_"+ph) == 0 {
			if s, n := shardInfo(); n == 1 || s == 0 {
				r.Notes["phase_"+ph] = "not held in this shard"
			}
		}
	}
}

// checkDedupFinal: without cache loss or failed rounds, all acknowledgements of
// one identity are equal and the identity has exactly one leaf in the final
// stored tree.
func checkDedupFinal(env *LogEnv) {
	env.mu.Lock()
	acks := append([]*Ack(nil), env.Acks...)
	env.mu.Unlock()
	byID := map[string]map[string]bool{}
	for _, a := range acks {
		if !a.OK || a.Zombie {
			continue
		}
		k := identity(a.Sub.E)
		if byID[k] == nil {
			byID[k] = map[string]bool{}
		}
		byID[k][fmt.Sprintf("%d/%d", a.Index, a.Timestamp)] = true
	}
	for _, m := range byID {
		if len(m) > 1 {
			env.violate("different-acks-for-one-entry", "one entry received different acknowledgements: %v", sortedKeys(m))
			break
		}
	}
	sth := env.PubSTH()
	if sth == nil {
		return
	}
	counts := map[string]int{}
	for n := int64(0); n*256 < sth.Size; n++ {
		w := int(min(256, sth.Size-n*256))
		b, ok := env.W.Get(refTilePath(TileCoord{-1, n, w}))
		if !ok {
			return
		}
		es, err := decodeDataTileCached(b, w)
		if err != nil {
			return
		}
		for _, l := range es {
			h := "x"
			if l.IsPrecert {
				h = "p" + string(l.IssuerKeyHash[:])
			}
			counts[h+string(l.Cert)]++
		}
	}
	for _, n := range counts {
		if n > 1 {
			env.violate("duplicate-leaf-without-cause", "an entry has %d leaves although no cache loss or failed round occurred", n)
			break
		}
	}
	env.R.Count("identities_checked", int64(len(counts)))
}

func TestC07Stress(t *testing.T) {
	r := NewRun(t, "C07", "stress")
	r.Rule = "free-running RunSequencer against 8-24 concurrent submitters drawing from a shared growing universe (one third duplicates, racing the pool rotation, the in-sequencing map and the cache write); all acknowledgements of one entry must be equal, every entry has exactly one leaf, every acknowledgement names its leaf; run under the race detector as well; distinct = (source label, index mod 256)"
	rng := NewRng(r.Seed, "c07s")
	reps, per := pick(3, 8), pick(250, 400)
	if raceEnabled {
		reps, per = pick(1, 3), pick(80, 120)
	}
	shard, _ := shardInfo()
	for rep := 0; rep < reps; rep++ {
		runStress(r, rng.Fork(fmt.Sprint(rep, "/", shard)), 8+rng.Intn(17), per, "C07")
	}
}

// runC07IssuerHold: submission A of an entry whose chain carries a NEW issuer
// is held inside that issuer's upload (a gate in the backend call, the real
// suspension point) while submission B of the same entry (chain of known
// issuers) is admitted and, depending on the variant, still pending, being
// sequenced, or already acknowledged when A goes on. One leaf, one answer.
func runC07IssuerHold(r *Run, rng *Rng, variant string, n int) {
	env := NewLogEnv(r, rng.Fork("env"))
	env.NoTruth = true
	env.AuditPub = true
	info := map[string]any{"workload": "issuer-upload-held", "variant": variant}
	env.CaseInfo = func() any { return info }
	defer env.Cleanup()
	simNow.Add(1000)
	if err := env.Create(nil); err != nil {
		panic(err)
	}
	li, err := env.Load("H", nil)
	if err != nil {
		panic(err)
	}
	defer li.Abandon()
	r.Eval(1)
	ctx := context.Background()
	// a first round makes issuerBlob(1) a known issuer
	known := genEntry(rng, ShapeBlobX509)
	known.Issuers = [][]byte{issuerBlob(1)}
	s0 := li.SubmitConcurrent(known, false)
	simNow.Add(10)
	li.Log.VerifSequence(ctx)
	li.WaitAck(ctx, s0)
	x := genEntry(rng, pickOne(rng, []int{ShapeBlobX509, ShapeBlobPrecert}))
	fresh := []byte(fmt.Sprintf("\x01fresh-issuer-%d-%d", n, rng.Intn(1<<30)))
	a := cloneEntry(x)
	a.Issuers = [][]byte{fresh}
	// B carries no chain certificates: the issuer bookkeeping is serialised by
	// its own mutex, so a submission WITH issuers would queue behind A's upload
	b := cloneEntry(x)
	b.Issuers = nil
	freshKey := fmt.Sprintf("issuer/%x", refSHA(fresh))
	reachedA, releaseA := make(chan struct{}, 1), make(chan struct{})
	reachedR, releaseR := make(chan struct{}, 1), make(chan struct{})
	holdRoundAt := ""
	if variant == "b-being-sequenced" {
		holdRoundAt = "checkpoint"
	}
	var onceA, onceR sync.Once
	li.In.Plan = func(c *Call) Decision {
		if c.Kind == OpUpload && c.Key == freshKey {
			return Decision{Apply: true, Gate: func() { onceA.Do(func() { reachedA <- struct{}{}; <-releaseA }) }}
		}
		if holdRoundAt != "" && c.Kind == OpUpload && c.Key == holdRoundAt {
			return Decision{Apply: true, Gate: func() { onceR.Do(func() { reachedR <- struct{}{}; <-releaseR }) }}
		}
		return decideOK
	}
	var sa *Sub
	doneA := make(chan struct{})
	go func() {
		defer close(doneA)
		sa = li.SubmitConcurrent(a, false)
	}()
	select {
	case <-reachedA:
	case <-doneA:
		// the issuer upload was not reached before admission (nothing held)
		r.Count("issuer_hold_not_reached", 1)
	case <-time.After(10 * time.Second):
		r.Inconcl("issuer upload gate not reached")
		close(releaseA)
		close(releaseR)
		return
	}
	var sb *Sub
	doneB := make(chan struct{})
	go func() { defer close(doneB); sb = li.SubmitConcurrent(b, false) }()
	select {
	case <-doneB:
	case <-time.After(5 * time.Second):
		// B queued behind A after all: let A go on, nothing to judge
		r.Count("issuer_hold_b_blocked", 1)
		close(releaseA)
		close(releaseR)
		<-doneA
		<-doneB
		return
	}
	var acks []*Ack
	switch variant {
	case "b-acknowledged":
		simNow.Add(10)
		li.Log.VerifSequence(ctx)
		acks = append(acks, li.WaitAck(ctx, sb))
		close(releaseA)
		<-doneA
	case "b-pending":
		close(releaseA)
		<-doneA
	case "b-being-sequenced":
		simNow.Add(10)
		roundDone := make(chan struct{})
		go func() { defer close(roundDone); li.Log.VerifSequence(ctx) }()
		select {
		case <-reachedR:
		case <-time.After(10 * time.Second):
			r.Inconcl("round gate not reached")
		}
		close(releaseA)
		<-doneA
		close(releaseR)
		<-roundDone
		acks = append(acks, li.WaitAck(ctx, sb))
	}
	li.In.Plan = nil
	// whatever is still pending is sequenced now
	for i := 0; i < 2; i++ {
		simNow.Add(10)
		li.Log.VerifSequence(ctx)
	}
	if variant == "b-pending" {
		acks = append(acks, li.WaitAck(ctx, sb))
	}
	acks = append(acks, li.WaitAck(ctx, sa))
	r.DistinctKey(fmt.Sprintf("issuer-hold/%s/a=%s/b=%s", variant, sa.Source, sb.Source))
	info["source_a"], info["source_b"] = sa.Source, sb.Source
	seen := map[string]bool{}
	for _, k := range acks {
		if k.OK {
			seen[fmt.Sprintf("%d/%d", k.Index, k.Timestamp)] = true
		}
	}
	if len(seen) > 1 {
		env.violate("different-acks-for-one-entry", "one entry submitted twice (one submission held inside its issuer upload, %s) received different acknowledgements: %v", variant, sortedKeys(seen))
	}
	// exactly one leaf holds the entry
	if sth := env.PubSTH(); sth != nil {
		leaves := 0
		id := identity(x)
		for nn := int64(0); nn*256 < sth.Size; nn++ {
			w := int(min(256, sth.Size-nn*256))
			if tb, ok := env.W.Get(refTilePath(TileCoord{-1, nn, w})); ok {
				if es, err := decodeDataTileCached(tb, w); err == nil {
					for _, l := range es {
						if identity(&ctlog.PendingLogEntry{Certificate: l.Cert, IsPrecert: l.IsPrecert, IssuerKeyHash: l.IssuerKeyHash}) == id {
							leaves++
						}
					}
				}
			}
		}
		if leaves != 1 {
			env.violate("duplicate-leaf-without-cause", "an entry submitted twice (one submission held inside its issuer upload, %s; no cache loss) has %d leaves in the tree of size %d", variant, leaves, sth.Size)
		}
		r.Count("issuer_hold_cases", 1)
	}
	env.CheckAcks()
	env.FinalChecks()
}
