package verifharness

// Fixture for C19/C20: real directories + the built skylight binary in plain
// HTTP mode on a loopback port.

import (
	"bufio"
	"bytes"
	"context"
	"crypto/sha256"
	"encoding/json"
	"fmt"
	"io"
	"net"
	"net/http"
	"os"
	"os/exec"
	"path/filepath"
	"strings"
	"time"

	"filippo.io/sunlight/internal/ctlog"
)

type skyLog struct {
	Short   string
	Prefix  string // https://host[/path]
	Host    string
	Path    string // "" or "/b2026"
	D       *DiskLog
	Staging bool
}

type skyFixture struct {
	Base       string
	Port       int
	Logs       []*skyLog
	WitDir     string
	WitHost    string
	WitPath    string
	Wit        *WitEnv
	WitLogs    []*WitLog
	WitRun     *c15Run
	WitRun2    *c15Run
	Canary     string
	cmd        *exec.Cmd
	logf       *os.File
	WitStaging bool
}

func freePort() int {
	l, err := net.Listen("tcp", "127.0.0.1:0")
	if err != nil {
		panic(err)
	}
	defer l.Close()
	return l.Addr().(*net.TCPAddr).Port
}

// freshCheckpoint re-signs the log's current tree head with a timestamp
// relative to the wall clock (health freshness is wall-clock based).
func (d *DiskLog) freshCheckpoint(offset time.Duration) []byte {
	sth := d.PublishedSTH()
	if sth == nil {
		panic("no published checkpoint")
	}
	cp, err := ctlog.VerifSignTreeHead(d.Cfg, sth.Size, sth.Root, time.Now().Add(offset).UnixMilli())
	if err != nil {
		panic(err)
	}
	return cp
}

func writeFileForce(path string, data []byte) {
	exec.Command("chattr", "-i", path).Run()
	os.Remove(path)
	os.MkdirAll(filepath.Dir(path), 0o755)
	if err := os.WriteFile(path, data, 0o644); err != nil {
		panic(err)
	}
}

func newSkyFixture(r *Run, rng *Rng, logSizes []int) *skyFixture {
	f := &skyFixture{}
	f.Base, _ = os.MkdirTemp(scratchRoot(), "sky-")
	simAuto.Store(true)
	defer simAuto.Store(false)
	specs := []struct{ short, host, path string }{{"alpha", "a.verif.test", ""}, {"beta2026", "logs.verif.test", "/beta2026"}, {"gamma", "logs.verif.test", "/gamma/deep"}}
	for i, sz := range logSizes {
		sp := specs[i%len(specs)]
		dir := filepath.Join(f.Base, "log-"+sp.short)
		d := newDiskLog(rng.Fork(sp.short), dir, "verif.example/"+sp.short)
		d.GrowTo(rng, sz)
		d.Close()
		writeFileForce(filepath.Join(dir, "checkpoint"), d.freshCheckpoint(time.Hour))
		f.Logs = append(f.Logs, &skyLog{Short: sp.short, Prefix: "https://" + sp.host + sp.path, Host: sp.host, Path: sp.path, D: d})
	}
	// witness with one plain and one mirrored log
	f.WitDir = filepath.Join(f.Base, "witness")
	os.MkdirAll(f.WitDir, 0o755)
	f.WitHost, f.WitPath = "w.verif.test", "/wit"
	e := NewWitEnv(r, rng.Fork("wit"), true)
	lb, err := ctlog.NewLocalBackend(context.Background(), f.WitDir, discardLogger)
	if err != nil {
		panic(err)
	}
	e.BackendOverride = lb
	if err := e.Start(); err != nil {
		panic(err)
	}
	plain := newWitLog(rng.Fork("plain"), "verif.example/witnessed-plain", 40, nil, 0)
	mirrored := newWitLog(rng.Fork("mirrored"), "verif.example/witnessed-mirrored", 700, nil, 0)
	if err := e.AddLogs(false, plain); err != nil {
		panic(err)
	}
	if err := e.AddLogs(true, mirrored); err != nil {
		panic(err)
	}
	pow2 := newWitLog(rng.Fork("pow2"), "verif.example/witnessed-pow2", 400, nil, 0)
	if err := e.AddLogs(true, pow2); err != nil {
		panic(err)
	}
	f.Wit, f.WitLogs = e, []*WitLog{plain, mirrored, pow2}
	cr := &c15Run{r: r, e: e, l: plain, rng: rng, tickets: map[int][]byte{}, noStoreAudit: true}
	cr.addCheckpoint(17)
	cr.addCheckpoint(33)
	cm := &c15Run{r: r, e: e, l: mirrored, rng: rng, tickets: map[int][]byte{}, noStoreAudit: true}
	for _, sz := range []int{100, 300, 530} {
		cm.addCheckpoint(sz)
		cm.wellBehavedClient("fixture")
	}
	cm.addCheckpoint(600) // pending ahead of the mirror
	f.WitRun = cm
	// a mirror whose size is a power of two (a single right-edge hash)
	cp2 := &c15Run{r: r, e: e, l: pow2, rng: rng, tickets: map[int][]byte{}, noStoreAudit: true}
	for _, sz := range []int{100, 256} {
		cp2.addCheckpoint(sz)
		cp2.wellBehavedClient("fixture")
	}
	f.WitRun2 = cp2
	wj, _ := json.Marshal(map[string]any{"name": e.Name, "verifier_keys": e.Wit.VerifierKeys()})
	writeFileForce(filepath.Join(f.WitDir, "witness.v0.json"), wj)
	mk, _ := e.Wit.MirrorVerifierKey()
	mj, _ := json.Marshal(map[string]any{"name": e.MirrorName, "verifier_keys": []string{mk}})
	writeFileForce(filepath.Join(f.WitDir, "mirror", "mirror.v0.json"), mj)
	// canaries: files no prefix configures
	f.Canary = filepath.Join(f.Base, "canary")
	os.MkdirAll(filepath.Join(f.Canary, "tile", "0"), 0o755)
	os.WriteFile(filepath.Join(f.Canary, "checkpoint"), []byte("CANARY checkpoint\n"), 0o644)
	os.WriteFile(filepath.Join(f.Canary, "tile", "0", "000"), []byte("CANARY tile"), 0o644)
	os.WriteFile(filepath.Join(f.Base, "secret.txt"), []byte("CANARY secret"), 0o644)
	// symbolic links planted inside a served directory that point out of it
	d0 := f.Logs[0].D.Dir
	os.Symlink(filepath.Join(f.Base, "secret.txt"), filepath.Join(d0, "issuer", strings.Repeat("ab", 32)))
	os.Symlink(filepath.Join(f.Canary, "tile", "0", "000"), filepath.Join(d0, "tile", "0", "777"))
	os.Symlink("../canary/checkpoint", filepath.Join(d0, "linked-checkpoint"))
	os.Symlink(f.Canary, filepath.Join(d0, "linkdir"))
	os.Symlink(f.Canary, filepath.Join(f.WitDir, strings.Repeat("cd", 32)))
	return f
}

func (f *skyFixture) writeConfig() string {
	var b strings.Builder
	f.Port = freePort()
	fmt.Fprintf(&b, "listen:\n  - \"127.0.0.1:%d\"\nlogs:\n", f.Port)
	for _, l := range f.Logs {
		fmt.Fprintf(&b, "  - shortname: %s\n    monitoringprefix: %s\n    localdirectory: %s\n    staging: %v\n", l.Short, l.Prefix, l.D.Dir, l.Staging)
	}
	fmt.Fprintf(&b, "witnesses:\n  - monitoringprefix: https://%s%s\n    localdirectory: %s\n    staging: %v\n", f.WitHost, f.WitPath, f.WitDir, f.WitStaging)
	p := filepath.Join(f.Base, "skylight.yaml")
	os.WriteFile(p, []byte(b.String()), 0o644)
	return p
}

func (f *skyFixture) Start() error {
	var lastLog string
	for attempt := 0; attempt < 3; attempt++ {
		cfg := f.writeConfig() // picks a fresh port
		f.logf, _ = os.Create(filepath.Join(f.Base, "skylight.log"))
		f.cmd = exec.Command(verifBin("skylight"), "-c", cfg)
		f.cmd.Stdout, f.cmd.Stderr = f.logf, f.logf
		f.cmd.Dir = f.Base
		if err := f.cmd.Start(); err != nil {
			return err
		}
		exited := make(chan struct{})
		go func(c *exec.Cmd) { c.Wait(); close(exited) }(f.cmd)
		for i := 0; i < 600; i++ {
			if resp, err := f.Get("any.verif.test", "/health", "verif@harness.test"); err == nil && resp.Status != 0 {
				// the answer must come from OUR process (the port may have been
				// taken by another shard's server if ours failed to bind)
				select {
				case <-exited:
					i = 600
					continue
				case <-time.After(30 * time.Millisecond):
					return nil
				}
			}
			select {
			case <-exited:
				i = 600
			case <-time.After(50 * time.Millisecond):
			}
		}
		b, _ := os.ReadFile(filepath.Join(f.Base, "skylight.log"))
		lastLog = string(b)
		f.cmd.Process.Kill()
		<-exited
		f.logf.Close()
		if !strings.Contains(lastLog, "address already in use") && !strings.Contains(lastLog, "failed to listen") {
			break
		}
	}
	f.cmd = nil
	return fmt.Errorf("skylight did not come up: %s", truncateStr(lastLog, 400))
}

func (f *skyFixture) Stop() {
	if f.cmd != nil && f.cmd.Process != nil {
		f.cmd.Process.Kill()
		f.cmd.Wait() // already reaped by the watcher goroutine: returns an error at once
	}
	if f.logf != nil {
		f.logf.Close()
	}
	if f.Wit != nil {
		f.Wit.Cleanup()
	}
	unlockTree(f.Base)
	os.RemoveAll(f.Base)
}

type rawResp struct {
	Status int
	Header http.Header
	Body   []byte
}

// Get sends a raw HTTP/1.1 request so that nothing normalises the target.
func (f *skyFixture) Get(host, target, ua string) (*rawResp, error) {
	return f.GetH(host, target, ua, "")
}

// GetH is Get with extra raw header lines ("Name: value\r\n...").
func (f *skyFixture) GetH(host, target, ua, extra string) (*rawResp, error) {
	c, err := net.DialTimeout("tcp", fmt.Sprintf("127.0.0.1:%d", f.Port), 10*time.Second)
	if err != nil {
		return nil, err
	}
	defer c.Close()
	c.SetDeadline(time.Now().Add(30 * time.Second))
	fmt.Fprintf(c, "GET %s HTTP/1.1\r\nHost: %s\r\nUser-Agent: %s\r\n%sConnection: close\r\n\r\n", target, host, ua, extra)
	resp, err := http.ReadResponse(bufio.NewReader(c), nil)
	if err != nil {
		return nil, err
	}
	defer resp.Body.Close()
	body, _ := io.ReadAll(resp.Body)
	return &rawResp{Status: resp.StatusCode, Header: resp.Header, Body: body}, nil
}

// dirIndex maps content hashes of the regular files of dir to relative paths.
func dirIndex(dir string) map[[32]byte]string {
	idx := map[[32]byte]string{}
	for p, fi := range snapshotDir(dir) {
		if !fi.Dir {
			b, _ := os.ReadFile(filepath.Join(dir, p))
			idx[sha256.Sum256(b)] = p
		}
	}
	return idx
}

var _ = bytes.Equal
