# Per-property check definitions, read by ./check and ./mkmanifest.py.
# P(name, test-regex, race=False, shards=(quick, thorough), timeout=(quick, thorough), bins=(), tiers=(...))

CHECKS["C01"] = dict(
    level="fault_enumeration",
    technique="online AppendOnly monitor on every lock commit and checkpoint publication + offline prefix-root check with an independent RFC 6962 tree, over seeded histories and a complete single-fault (thorough: fault-pair) enumeration of a round",
    text="Every lock-store commit and every applied checkpoint upload of ~640 (thorough ~6000) generated histories (faults applied/not, crashes, restarts, clock stall/backwards/jump, cache loss) is judged online (signature via certificate-transparency-go, size, strictly increasing timestamp, published subset of committed, root = reference MTH of the harness-known leaves) and every checkpoint ever seen is re-checked against the stored leaves at the end. Fault positions of one round are enumerated completely at tile-boundary sizes. Held-on-observed-executions, not a proof.",
    note="Trusted: harness stores (in-memory object store and CAS register with S3-like semantics), reference Merkle/TLS encoders in harness/ref.go, certificate-transparency-go signature verifier. Faults are injected at the Backend/LockBackend interface only.",
    design_ref="DESIGN.md section 3, C01",
    parts=[P("histories", "^TestC01Histories$", shards=(12, 16)), P("faultenum", "^TestC01FaultEnum$", shards=(4, 16))],
    floor=50,
)

CHECKS["C03"] = dict(
    level="fault_enumeration",
    technique="crash-point enumeration at the Backend/LockBackend boundary (calls park forever; tile-batch subsets) incl. crashes inside recovery, judged by restart + byte-exact storage audit at the lock checkpoint + further round; online staging-discard monitor",
    text="For each tile-boundary (start size, pool size) the op sequence of the round is learnt from a recorded run and every crash point is enumerated (each sequential op applied/not; every subset of the parallel tile batch when it has <=6 uploads, else seeded subsets incl. all single-missing/single-present), each followed by recoveries that are themselves crashed inside their re-upload batch; after the final clean restart LoadLog must succeed, every tile of the lock-committed tree must exist with exactly the prescribed bytes, a further round must commit and publish, and every earlier acknowledgement must still hold. A second workload kills the instance right after acknowledgements. Online: a staging bundle may only be discarded once the published checkpoint covers it. System level: the built cmd/sunlight binary on LocalBackend + SQLite lock + SQLite cache under HTTP load is killed with SIGKILL by timer or on the N-th fsync/rename/write/unlink/... (strace signal injection, i.e. at system-call granularity, also during the recovery start), then restarted: start-up must succeed, the lock-committed tree must be completely in storage after an idle restart, every 200-acknowledged entry must be at its index, sequencing must continue and every checkpoint ever observed must be a prefix of the final tree.",
    note="Crash model: the process stops at a storage/lock call boundary, the in-flight call applied or not (as the property states); nothing of the dead instance runs afterwards. Trusted: harness stores, reference renderer of the Static CT layout.",
    design_ref="DESIGN.md section 3, C03",
    parts=[P("crashenum", "^TestC03CrashEnum$", shards=(16, 16)), P("ackcrash", "^TestC03AckThenCrash$", shards=(4, 16)),
           P("syscrash", "^TestSysCrash$", shards=(4, 12), bins=("sunlight",), env={"VERIF_SYS_PROPERTY": "C03"})],
    floor=500,
)

CHECKS["C04"] = dict(
    level="exploration",
    technique="online StorageAudit monitor at every checkpoint publication (byte-exact reference rendering of hash/data/names tiles and issuers, restricted to uploads completed before the checkpoint upload was issued) + Immutable and DiscardOnlyStaging monitors on every call",
    text="At the instant each checkpoint upload takes effect, every object the Static CT layout requires for that size must exist among uploads that had returned earlier, with bytes equal to an independent rendering of the harness-known leaf sequence (hash tiles, gunzipped data tiles, names tiles line by line, issuers by fingerprint; leaf i carries index i and a timestamp <= the tree head's). Every Upload is checked against earlier versions of immutable keys and every Discard must name a staging bundle. ~500 (thorough ~5000) histories with all entry shapes and fault/crash plans plus long growth runs across tile boundaries.",
    note="Trusted: harness object store (S3-like blind overwrite so that a rewrite is observable), reference encoders, crypto/x509 for the names-tile expectation. Entries whose certificate cannot be DER are required to contribute no names line; lenient-parser cases are not judged.",
    design_ref="DESIGN.md section 3, C04",
    parts=[P("audit", "^TestC04Audit$", shards=(12, 16)), P("growth", "^TestC04Growth$", shards=(4, 4)),
           P("issuerrace", "^TestC04IssuerRace$", shards=(2, 8)), P("issuerrace-race", "^TestC04IssuerRace$", race=True, shards=(1, 4), tiers=("thorough",)),
           P("level2boundary", "^TestC04Level2Boundary$", shards=(1, 1))],
    floor=100,
)

CHECKS["C02"] = dict(
    level="exploration",
    technique="acknowledgement ledger: every wait-function return is stamped with the store's logical sequence number and judged offline against the object-store versions readable at that instant, the committed tree and the final stored leaves; fault placements of the serving round enumerated; race detector on the free-running workload",
    text="Waiters block concurrently in their wait functions while the round runs with the checkpoint upload delayed inside the backend call; each acknowledgement is stamped with the world sequence number at return and then checked: a verified checkpoint readable at that instant covers the index, the data tile readable at that instant holds exactly the submitted entry with that timestamp, and the same holds in the lock-committed tree and in the final stored tree after fault placements (every op x applied/not), crashes at every op of the following round, and restart. A free-running RunSequencer with 8-24 concurrent submitters (new + duplicate entries; pool, in-sequencing and cache paths) is judged the same way, also under -race. The HTTP/SCT clause is exercised by the C09 workload and by a system-level workload: the built cmd/sunlight binary under 12 concurrent HTTP submitters, each 200 answer judged against the checkpoint file readable at that moment and the SCT verified over the independently derived leaf; the same workload also runs against the server binary built with the race detector (reports with repository frames are violations).",
    note="Trusted: harness stores and their sequence numbers (ack instant is read under the store mutex), reference decoder, ct-go signature verifier. Crash after acknowledgement is modelled at storage-call boundaries.",
    design_ref="DESIGN.md section 3, C02",
    parts=[P("phases", "^TestC02Phases$", shards=(8, 16)), P("stress", "^TestC02Stress$", shards=(2, 4)),
           P("stress-race", "^TestC02Stress$", race=True, shards=(1, 4)),
           P("sysacks", "^TestSysAcks$", shards=(2, 6), bins=("sunlight",), env={"VERIF_SYS_PROPERTY": "C02"}),
           P("sysacks-race", "^TestSysAcks$", shards=(1, 4), bins=("sunlight.race",), env={"VERIF_SYS_PROPERTY": "C02", "VERIF_SYS_RACE": "1"})],
    floor=200,
)

CHECKS["C08"] = dict(
    level="exploration",
    technique="tamper generator over the object store + online monitor on every later lock commit: root must equal the reference RFC 6962 hash of the harness-held committed leaves extended by exactly the round's pool",
    text="Object storage is tampered (per class: checkpoint, hash tiles incl. right edge, data, names, staging bundle, issuer, roots; per kind: delete, empty, truncate, bit flip raw or inside the gunzipped payload, swap, rollback, validly signed fork/older/larger checkpoint, bad gzip, gzip bomb; singles per class/kind at each size, seeded pairs/triples) before load, between a crash and its recovery, and under a live instance. The outcome (load refused / round error / continues) is recorded, not judged; every lock-store commit that follows is judged online: size = committed truth + pool of that round and root = reference MTH of exactly those leaves; acknowledgements are judged against the truth. Objects may also change between two reads of the same key while the server starts (served altered from the k-th fetch on, or at the first fetch only).",
    note="The ground truth (committed leaves) is held by the harness outside the tampered store; the lock store is not tampered (the property trusts it). Trusted: reference Merkle tree and encoders.",
    design_ref="DESIGN.md section 3, C08",
    parts=[P("tamper", "^TestC08Tamper$", shards=(12, 16))],
    floor=300,
)

CHECKS["C06"] = dict(
    level="exploration",
    technique="controlled schedules: every backend call of 2-3 real Log instances passes a central gate; interleavings enumerated for small rounds and seeded for larger ones; lock-history, acknowledgement and storage monitors; generated start-up state matrix with byte-identical-stores check",
    text="Two or three instances loaded from the same lock checkpoint (private caches, shared object store) run one round each while a scheduler releases one backend call at a time: all interleavings for pool sizes (0,0), (0,1) and all merges of the first 4-5 calls for (1,1), seeded schedules for larger/multi-tile pools and three instances. Oracle: at most one lock commit per starting checkpoint, each non-committing instance returns the fatal sequencing error and acknowledges nothing, stays unable to commit afterwards, the winner continues, the lock-committed tree is fully and exactly rendered in storage, append-only monitors hold. Start-up matrix: 15 generated states x 5 sizes must be refused by LoadLog/CreateLog with both stores unchanged; two concurrent CreateLogs under all 70 interleavings of their first four calls: exactly one succeeds. Misconfigured object storage: a second instance with the same key and lock store but ANOTHER bucket (exact copy, copy taken between lock commit and publication, copy 1-3 rounds behind, copy without checkpoint / tiles, empty): refused LoadLog/CreateLog leave lock store and first bucket untouched; when both load they race one round under seeded gate schedules: one commit, loser fatal and silent, whatever either publishes was lock-committed first, the winner's bucket is complete, a restarted loser never loads a bucket that lacks the committed tree. System level: two real cmd/sunlight processes with the same key on one SQLite lock database and one LocalBackend directory under HTTP load: never two processes that both keep acknowledging, a stopped one exits with an error, every acknowledgement of either is at its index in the final tree, every observed checkpoint is a prefix of it.",
    note="Interleavings are controlled at Backend/LockBackend call granularity (as the property states). The second bucket is a key namespace of the same in-memory store. Trusted: harness CAS store, gate scheduler, reference renderer.",
    design_ref="DESIGN.md section 3, C06",
    parts=[P("schedules", "^TestC06Schedules$", shards=(8, 16)), P("startup", "^TestC06Startup$", shards=(2, 4)),
           P("secondbucket", "^TestC06SecondBucket$", shards=(4, 16)),
           P("processes", "^TestSysTwoProcesses$", shards=(3, 8), bins=("sunlight",), env={"VERIF_SYS_PROPERTY": "C06"})],
    floor=150,
)

CHECKS["C07"] = dict(
    level="exploration",
    technique="unambiguous submission/acknowledgement ledger checked offline (equal acknowledgements per entry within a cache epoch, no re-admission of pending/acknowledged entries, exactly-once between admissions and leaves via the commit monitor, every acknowledgement names its leaf) with the sequencer held in each phase; race detector on the concurrent workload; real recompute-cache binary checked against an independent key derivation",
    text="A universe of 10 entries with the confusable pairs the property names is submitted between rounds and while the sequencer is held in each of its phases (pause hook, staging upload, lock CAS, tile upload, checkpoint upload, staging discard, inside the cache write via a held SQLite write lock), with failed rounds, restarts, cache loss, cache rollback, a legacy 128-bit table and its removal while running. Oracle: acknowledgements of one entry are identical within a cache epoch; an entry that is pending, being sequenced or acknowledged is never admitted as a new leaf; lock commits equal truth + admitted pool (exactly-once); every acknowledgement names a stored leaf with its identity and timestamp. A free-running concurrent workload (also under -race) checks the same without epochs. The built recompute-cache binary rebuilds the cache of real LocalBackend logs; rows are compared with an independent key derivation and resubmissions are judged against storage. A further scenario holds one submission inside the upload of a NEW issuer (gate in the backend call) while the same entry, submitted without chain certificates, is pending, being sequenced or already acknowledged: one leaf, one answer.",
    note="Phases are reached through backend-call gates, the existing pause hook (behind the verif tag) and a SQLite write lock; interleavings inside a phase are left to the Go scheduler and the race detector. Trusted: harness stores, reference decoder.",
    design_ref="DESIGN.md section 3, C07",
    parts=[P("phases", "^TestC07Phases$", shards=(8, 16)), P("stress", "^TestC07Stress$", shards=(2, 4)),
           P("stress-race", "^TestC07Stress$", race=True, shards=(1, 4)),
           P("recompute", "^TestC07Recompute$", shards=(1, 4), bins=("recompute-cache",))],
    floor=100,
)

CHECKS["C17"] = dict(
    level="exploration",
    technique="virtual-time executions (testing/synctest) of the real RunSequencer with an online reference model of pool occupancy and priority, settle-point outcome accounting per submitter, lock-history monitor after stops",
    text="Arrival scripts (15-90 submissions: high/low priority, duplicates, cancelled contexts, bursts) over 3-7 sequencing periods run inside synctest bubbles against the real RunSequencer (ticker, read-only switch and request contexts all on virtual time). Each admission decision is compared with a model of the pool at that instant (room => admitted; full: low => rate-limited; high with a pending low => admitted and exactly one pending low-priority entry receives the eviction outcome; high with none => rate-limited), occupancy never exceeds the pool size, rounds add at most pool-size leaves, every submitter has exactly one outcome by the settle point after its pool's tick (bounded progress in virtual time), evicted entries never appear in the tree, and after a stop (fatal lock error, cancellation, read-only date) every later submission fails with the right error kind and the lock history never grows. 1000 (thorough 15000) scripts. A panic inside a wait function is a violation; submissions made after the sequencer stopped, including resubmissions of acknowledged entries, must fail.",
    note="'Promptly' is restated as: outcome present at the settle point 4 ms of virtual time before the next tick (rounds take no virtual time on the in-memory stores). An evicted victim whose request context was already cancelled is unobservable and accepted as the victim. The HTTP status mapping (503 + Retry-After for rate-limited and evicted submissions, 410 after the read-only date) is checked by a small real-time scenario on the real handler (part http); if a sequencer tick overtakes the scenario on a loaded machine the scenario is skipped, not judged. Trusted: synctest virtual time, harness stores.",
    design_ref="DESIGN.md section 3, C17",
    parts=[P("scripts", "^TestC17Scripts$", shards=(8, 16)), P("http", "^TestC17HTTP$", shards=(2, 6))],
    floor=100,
)

CHECKS["C10"] = dict(
    level="exploration",
    technique="oracles wrapped around the exported codec functions (round trip, canonical-prefix re-encoding, no panic under recover) fed by boundary-biased generators and mutation of valid encodings, differentially against an independent TLS-presentation encoder/strict decoder and an independent tile-path renderer/parser; built with -race (checkptr) for one pass",
    text="~150k (thorough ~3M) generated entries are encoded and compared bytewise with an independent encoder (TileLeaf and RFC 6962 MerkleTreeLeaf), decoded back, and their encodings mutated (bit flips, truncation at every offset, trailing bytes, length +-1, double/unknown/short/long extensions, entry type, timestamp overflow, odd fingerprint length, concatenation) and decoded with the oracle 'error, or the consumed prefix re-encodes to exactly the same bytes and equals the reference decoder's result'; random strings likewise. Leaf-index extension round trip over all bit lengths and refusal at -1, 2^40, 2^63-1 etc.; tile paths forward (vs. reference renderer, parse back) and backward (mutated strings: accept/reject agreement with the reference parser and canonical re-rendering). Every call runs under recover. Tile-path mutations include other spellings of the level directory (tile/entries, case variants, numeric aliases) and of the top-level directory.",
    note="Trusted: harness/ref.go encoders, decoder and path code (written from the RFC/c2sp specs). Levels above 63 in tile paths are not demanded to be rejected (the property asks for canonical round trips only). The Go native fuzz engine is not used (generator + mutation suffices and is seed-deterministic).",
    design_ref="DESIGN.md section 3, C10",
    parts=[P("codec", "^TestC10Codec$", shards=(8, 16)), P("codec-checkptr", "^TestC10Codec$", race=True, shards=(4, 8), tiers=("thorough",))],
    floor=10000,
)

CHECKS["C11"] = dict(
    level="exploration",
    technique="differential runtime oracles around the real signer and verifier: every signed checkpoint is re-verified by an independent note parser + certificate-transparency-go STH verifier (+ cosignature verifier, embedded timestamp, byte-equal re-signing); every accept decision of the sunlight verifier on ~600 mutants per checkpoint must be matched by the independent verifier",
    text="Generated (origin, size, root, timestamp) tuples incl. 0, 1, 2^63-1 and unusual names are signed by the real signTreeHead (hook) and by the injected signer with ECDSA P-256/P-384 and RSA-2048 signatures made by the harness. Each checkpoint must open with the public verifier, carry a verifying ML-DSA cosignature, embed the timestamp, verify independently with the same tuple, and re-sign to identical RFC 6962 signature bytes; the injected signer must refuse a signature over another tree head. Each checkpoint is then mutated (text byte substitutions, size/root/origin/extension/leading-zero edits, every blob byte flipped, truncations, trailing bytes with and without length fix-up, algorithm ids, foreign signer name, trailing note bytes): accepted by sunlight => accepted by the independent verifier on the tuple parsed from the mutant, origin = verifier name, no extension line, blob consumed exactly.",
    note="Independent side: harness note/checkpoint parser and blob parser, certificate-transparency-go SignatureVerifier (standard-library ECDSA/RSA for P-384, which ct-go refuses). ECDSA signature malleability is outside both verifiers' control and not judged.",
    design_ref="DESIGN.md section 3, C11",
    parts=[P("checkpoints", "^TestC11Checkpoints$", shards=(4, 16))],
    floor=1000,
)

CHECKS["C09"] = dict(
    level="exploration",
    technique="differential monitor on the real HTTP handler: expected accept/reject computed from the chain generator's knobs; accepted submissions checked by independent SCT verification, an independent raw-ASN.1 precertificate defanger and the stored leaf/issuer objects; get-roots compared with the installed set after every reload incl. failing ones",
    text="~3000 (thorough ~30000) generated chains (root accepted / unknown / accepted after a reload, 0-3 intermediates, chain order faults, NotAfter at both window boundaries +-1 s, EKU variants, final / precertificate / malformed poison, precertificate signing certificate, matching or wrong endpoint, malformed bodies) are posted to the real handler with a running sequencer. Rejections must be 4xx and leave no leaf and no issuer object; acceptances must return an SCT that verifies (certificate-transparency-go tls verifier) over the leaf the harness derives independently from the submitted chain (entry type, DER or defanged TBS built by a raw-ASN.1 defanger, issuer key hash of the true issuer also behind a signing certificate), the stored leaf must equal that derivation incl. pre_certificate and chain fingerprints, every chain certificate must be retrievable as an issuer, the checkpoint published at response time must cover the index, and resubmission returns the byte-identical response. get-roots is compared with the installed set after creation, reloads, an unparsable reload and reloads whose upload fails (applied or not) followed by a retry. A transient failure of a NEW issuer's upload (generic / timeout / cancelled / EOF error kinds, applied or not) may refuse the submission, but the chain must be accepted on resubmission and then every chain certificate must be retrievable.",
    note="Leaf without any EKU: recorded, not judged. Oversized bodies are not generated (the handler answers 500 for a body over 128 KiB; the statement is about chains). Trusted: crypto/x509 certificate creation, harness defanger and encoders, ct-go signature verification.",
    design_ref="DESIGN.md section 3, C09",
    parts=[P("chains", "^TestC09Chains$", shards=(8, 16))],
    floor=300,
)

CHECKS["C12"] = dict(
    level="exploration",
    technique="adversarial tile server in front of the unmodified sunlight.Client; every yielded/returned entry, confirmed SCT and returned checkpoint is compared with the harness's ground truth / independent verifiers",
    text="Logs of sizes {1,2,255,256,257,511,513,700} are rendered by the real sequencer; the harness keeps the leaf list and the verified tree head. An in-process HTTP server serves a copy with one tampering per case (17 kinds over hash and data tiles, incl. edits of non-Merkle-covered fields that must be allowed to pass, and edits with a recomputed level-0 tile) and the client is driven through Entries/AllEntries from start in {0,1,255,256,N-1,N}, Entry(i), CheckInclusion with a valid SCT and 9 altered ones (log id, timestamp, signature, index of another entry, SCT of another entry with this index, extra/absent extension, trailing byte, version) and Checkpoint() over 9 served variants. Oracle: every entry handed to the caller equals the truth in all Merkle-covered fields; a confirmed SCT matches the authentic leaf under independent signature verification; a returned checkpoint verifies independently under the configured key; untampered logs must be fully readable (so refusing everything cannot pass). Tamper kind data-retype serves a leaf re-encoded under the other entry type with the same certificate bytes (forged issuer key hash, empty or non-empty pre_certificate).",
    note="One known finding (F3): a consistent edit of a full data tile and its level-0 hash tile is not detected because of a defect in golang.org/x/mod's verifying tile reader; it is reported as KNOWN-FINDING, all other violation ids still fail the check. Gzip-level corruption costs a client timeout per case and is sampled sparsely. Trusted: harness truth, reference encoders, ct-go verifier.",
    design_ref="DESIGN.md section 3, C12",
    parts=[P("client", "^TestC12Client$", shards=(8, 8), timeout=(1200, 14400)), P("indexmismatch", "^TestC12IndexMismatch$", shards=(1, 4))],
    floor=500,
)

CHECKS["C05"] = dict(
    level="exploration",
    technique="recorded histories at the LockBackend boundary (CLOCK_MONOTONIC call/return times, unique values) checked offline with porcupine against a nondeterministic compare-and-swap register model partitioned by log ID, plus exact uniqueness monitors and a request monitor on protocol-level fakes; race detector on the in-process workloads",
    text="SQLite: the real NewSQLiteBackend on real files under goroutines on one handle, several handles on one file, reopen between phases, and 2-5 separate OS processes (the harness binary re-executed as lock client). DynamoDB and ETag: the real backends through the real AWS SDK against protocol-level fakes that honour ConditionExpression / If-Match (incl. the empty If-Match create convention), answer non-consistent reads with a stale version, delay, and answer 500 with the write applied or not. Each history (150-600 ops, 1-3 log IDs, unique values incl. NUL bytes, long and one empty value) must be linearizable as a CAS register where a failed write may or may not have taken effect; at most one successful Replace per predecessor and one successful Create per ID; every PutItem/PutObject must carry its condition and every GetItem ConsistentRead. Sequential sanity per backend: missing log => ErrLogNotFound, Create never overwrites, Replace with the fetched value succeeds, stale Replace fails, values survive reopen.",
    note="DynamoDB, S3 and Tigris themselves are not available: the fakes define their semantics (recorded as an assumption). porcupine timeouts are reported as inconclusive. Fixed defect F2 (ETag Fetch did not return ErrLogNotFound) is covered by the sequential sanity check.",
    design_ref="DESIGN.md section 3, C05",
    parts=[P("sqlite", "^TestC05SQLite$", shards=(4, 16)), P("sqlite-processes", "^TestC05SQLiteProcesses$", shards=(2, 8)),
           P("dynamodb", "^TestC05Dynamo$", shards=(2, 16)), P("etag", "^TestC05ETag$", shards=(2, 16)),
           P("inprocess-race", "^TestC05(SQLite|Dynamo|ETag)$", race=True, shards=(2, 8))],
    floor=20,
)

CHECKS["C13"] = dict(
    level="fault_enumeration",
    technique="offline crash-consistency checker over a recorded strace log of a helper process (every rename and every upload return judged against an fsync-based durability model), reader/writer monitor for atomic visibility (also under -race), differential immutability monitor with a non-termination watchdog, hostile-key confinement monitor with a canary tree",
    text="(1) A helper process performs seeded LocalBackend uploads (new nested and existing directories, mutable overwrites, immutable keys, partial-tile directories, empty/16 KiB/4 MiB bodies, the concurrent batch shape) under strace -f -y -ttt -T; the trace is replayed: at every rename the file's data is complete and covered by a finished fsync that started after the last write; at every upload return every directory entry from the backend root to the object (incl. freshly made directories) is covered by an fsync of its parent directory that started after the entry was made; no final name is written in place; the real files equal the uploaded bodies; the same under injected system-call errors (the tracer fails the K-th write/fsync/renameat/openat/fchmod/close with ENOSPC/EIO/EMFILE/EPERM): an Upload that still reports success must be complete and durable and a key never holds a torn object. (2) Writers overwrite mutable keys with self-describing bodies while readers fetch: every read is one complete body. (3) For lengths {0,1,16383,16384,16385,32768,1 MiB,5 MiB,...}: identical re-upload of an immutable object succeeds; first/middle/last byte changed, shorter, longer, empty, first-chunk-only are refused with bytes, mode and inode immutable flag unchanged; every call under a watchdog that reports non-termination from three equal stack samples. (4) ~130 (thorough ~2000) hostile keys through Upload/Fetch/Discard with a canary tree around the backend directory.",
    note="Durability is decided against a crash model replayed over a real syscall trace (file data durable after fsync(file); directory entry durable after fsync of that directory; everything else may be lost or reordered), not by cutting power. Symlinks planted inside the backend directory are outside the statement (keys, not the directory's contents, are the input). Fixed defect F1 (empty content never returned) stays covered by (3).",
    design_ref="DESIGN.md section 3, C13",
    parts=[P("durability", "^TestC13Durability$", shards=(3, 12)), P("atomic", "^TestC13Atomic$", shards=(1, 2)), P("atomic-race", "^TestC13Atomic$", race=True, shards=(1, 1)),
           P("immutable", "^TestC13Immutable$", shards=(1, 4)), P("confinement", "^TestC13Confinement$", shards=(1, 4))],
    floor=100,
)

CHECKS["C14"] = dict(
    level="exploration",
    technique="model-based runtime monitoring: every add-checkpoint response of the real witness is compared with a sequential reference model; every lock-store commit is checked online against ground-truth chains (one append-only history); concurrent races with injected lock/storage faults and restarts; race detector",
    text="A real witness (logs installed through PullLogList) is driven over logs with two forks whose leaves the harness holds. Sequential histories vary old/new sizes around the recorded size, proofs (correct, empty, flipped, truncated, extended, proof of the fork), signatures (valid, corrupted, unknown key, other origin) and malformed bodies, with restarts: the status must be one of the statuses of the faults present (200 only when there is none), 409 bodies carry the recorded size, 200 bodies are exactly the two witness cosignatures verifying over the re-encoded (origin, size, root), and the lock store already holds that checkpoint. Concurrently, 8-24 goroutines race main-chain and fork updates from the same recorded size under injected lock Replace and upload failures (applied or not) and restarts: at most one 200 per recorded size and no 200 for a checkpoint that was never recorded. A monitor on every lock commit requires the log's signature, non-decreasing sizes and that all recorded checkpoints lie on one ground-truth chain. Signatures are also made with the keys of OTHER logs the witness knows (three logs installed), and two overlapping witness processes on one lock store are driven so that the stale one is asked for a fork, an older size, the same or a larger size: the recorded history must stay one chain of non-decreasing size and every 200 must name a recorded checkpoint. System level: the built cmd/sunlight binary configured as a witness (SQLite lock database, LocalBackend) under 6 HTTP clients racing main-chain and fork updates is killed with SIGKILL (timer, or strace signal injection on the N-th write/fsync/fcntl/... of a thread) and restarted: every released cosignature verifies over the re-encoded checkpoint, all cosigned checkpoints of the whole history lie on one chain, and after each restart the lock database records at least the largest size a cosignature was released for.",
    note="Proof generation uses x/mod tlog (generator side only); the oracle is the reference RFC 6962 tree over the known leaves. Multi-fault requests are judged by membership in the set of allowed statuses, not by a precedence order.",
    design_ref="DESIGN.md section 3, C14",
    parts=[P("sequential", "^TestC14Sequential$", shards=(4, 16)), P("concurrent", "^TestC14Concurrent$", shards=(4, 16)), P("concurrent-race", "^TestC14Concurrent$", race=True, shards=(2, 8)),
           P("syswitness", "^TestSysWitnessCrash$", shards=(2, 6), bins=("sunlight",), env={"VERIF_SYS_PROPERTY": "C14"})],
    floor=500,
)

CHECKS["C16"] = dict(
    level="exploration",
    technique="exhaustive small-scope request generation against the real sign-subtree handler with an online oracle: every returned line is verified as a subtree cosignature (public verifier) and admitted only for a valid in-range subtree with the reference subtree hash and a key whose valid cosignature is on the presented checkpoint; valid requests must get exactly the expected lines",
    text="All (start, end) pairs 0 <= start < end <= size+2 for tree sizes 1..40 (thorough 1..80 plus sampled sizes up to 3000), each once with a productive signer set and once with a seeded deviation: signer sets on the presented checkpoint {none, witness ML-DSA, mirror, both, Ed25519 only, foreign witness, forged witness line with the right name and key hash, valid cosignature of another checkpoint pasted in, witness+Ed25519+foreign}, hash {correct, other subtree, flipped}, proof {correct, flipped, truncated, extended}, malformed bodies. Signature lines imply: status 200, valid subtree with end <= size, supplied hash = reference hash of the ground-truth leaves, proof equal to the correct proof, each line verifies with CosignatureVerifier.VerifySubtree under the witness ML-DSA or mirror key and that key's cosignature on the checkpoint verifies independently; no Ed25519 line; no signature text in error responses. Valid requests must be answered with exactly the expected set of lines. Half of the deviating requests present combined signer sets: per own key at most one line that is valid / forged / pasted from another checkpoint / the other key's valid cosignature relabelled with this key's name and key hash (after the genuine lines were verified by the server in an earlier request), plus Ed25519, foreign and name-only lines in seeded order.",
    note="Subtree proofs are generated with torchwood.ProveSubtree (generator side); the oracle uses the reference Merkle tree and torchwood's public subtree verifier.",
    design_ref="DESIGN.md section 3, C16",
    parts=[P("subtrees", "^TestC16Subtrees$", shards=(4, 16))],
    floor=1000,
)

CHECKS["C15"] = dict(
    level="exploration",
    technique="model-based runtime monitoring of the real witness+mirror: a serving-invariant monitor fires on every lock-store write under the mirror-checkpoint key (while it is in flight) and on every 200 answer, auditing public storage byte-exactly against the ground-truth log; bounded-progress check with a well-behaved client; request interleaving through the two existing add-entries hooks (behind the verif tag)",
    text="Seeded histories of 20-60 operations: add-checkpoint to growing pending sizes; add-entries with start in {next entry, mirror size, next-d, next+d, mid-tile, beyond, 0}, end in {pending, mirror size, an older pending size with / without its ticket, forged, bit-flipped and other-origin tickets, a size never cosigned}, bodies {canonical, first k packages, cut at an arbitrary byte, gzip, wrong entry, entries of a fork, proof flipped / missing / extra hash, 64 hashes, empty}; requests interleaved inside another upload through the before-package / before-commit hooks; single lock or storage faults (applied or not) on chosen call classes; restarts; a well-behaved client loop. On every mirror-checkpoint write and every 200: the note carries the log's signature and a verifying mirror cosignature and no witness line, size N is monotone and <= the pending checkpoint in the lock store, every full hash tile and entry bundle of the size-N tree exists, each right-edge partial tile or the full tile extending it exists, bundle contents equal the log's first N entries and the reference root equals the note's root. Public checkpoint objects must already be recorded. After faults stop / after a restart the client must converge within 5 + N/256 requests. Overlapping mirror processes: one process is held between the packages and the commit of an upload while a second process on the same stores cosigns and mirrors further; the mirror size must never go back; convergence is demanded after a restart.",
    note="'Uploads can resume' is restated as bounded progress of a client that only follows mirror-info answers. The upload frontier (next entry) is learnt from mirror-info answers, not from internal state. Trusted: harness stores, reference tlog-tiles renderer.",
    design_ref="DESIGN.md section 3, C15",
    parts=[P("mirror", "^TestC15Mirror$", shards=(8, 16)), P("mirror-race", "^TestC15Mirror$", race=True, shards=(4, 8), tiers=("thorough",))],
    floor=300,
)

CHECKS["C18"] = dict(
    level="exploration",
    technique="the built cmd/partial-aftersun binary run as a child process on real directories written by the real sequencer / witness on LocalBackend; before/after snapshots (path, content hash, mode, inode flags) judged by an independent path parser and edge computation; independent audit of the remaining files; restart and further sequencing",
    text="Log directories of sizes around 255-257, 511-513, 767-769 (+ seeded) are produced by the real sequencer on LocalBackend in rounds of varied size (stale partials at data/names/0/1), mirror directories by the real witness on LocalBackend with commits at several mid-tile sizes; hazards are planted (partial without its full tile, empty full tile, partial right of the edge, temp-file leftovers in and next to a partial directory, unrelated files, partial for a tile beyond the tree) a full tile left of the edge is emptied or replaced by a directory while a partial of it survives (a damaged directory: only the removals are judged), and in half of the cases the lock store is ahead of the published checkpoint: either the process died right after the lock commit (no tile of the next tree on disk), or the lock commit and every tile of the next tree were written and only the checkpoint upload did not happen (the next tree crossing a tile boundary, so that the full sibling of the published right-edge partial exists; three such cases at sizes 255, 510, 767 are in every run); mirror directories likewise get uploads whose tiles were written across the next tile boundary while the commit failed. After the tool ran: every removed path must be a partial tile file (or its emptied directory) whose full tile existed as a non-empty regular file and whose index is < floor(size / 256^(level+1)) for the published checkpoint size, computed by the harness from the path; nothing else differs in content, mode or inode flags; the tree at the published checkpoint (and at the lock checkpoint after recovery) is completely readable with reference bytes; LoadLog succeeds and a further round commits; the mirror tree is still completely served and a client can resume; a second run removes nothing forbidden. The tool's exit status is recorded, not judged. A further hazard removes a full tile left of the edge altogether while its partial and the same-named tiles of the sibling levels remain.",
    note="Needs root with CAP_LINUX_IMMUTABLE to observe the inode-flag handling (present in this sandbox). Directories across the 65536 boundary (first level-1 full tile) are part of the workload (two in the quick tier).",
    design_ref="DESIGN.md section 3, C18",
    parts=[P("cleanup", "^TestC18Cleanup$", shards=(6, 16), bins=("partial-aftersun",)), P("mirror", "^TestC18Mirror$", shards=(2, 8), bins=("partial-aftersun",))],
    floor=10,
)

CHECKS["C19"] = dict(
    level="exploration",
    technique="the built cmd/skylight binary (plain HTTP, loopback) queried with raw HTTP/1.1 requests; every 200 body is looked up by content hash in a precomputed index of the directory the addressed prefix is configured for (canary files outside), layout URLs are compared with the exact file and prescribed headers; an unmodified sunlight.Client verifies whole logs through the server",
    text="Real directories (three logs of different sizes on a host-only, a path-prefixed and a deep path prefix; a witness directory with a plain and a mirrored origin incl. mirror tiles) are written by the real sequencer/witness on LocalBackend; canary files sit outside every configured directory. Requests: every existing file through its layout URL under the right and a wrong host, non-layout files (dot-file), layout URLs of non-existing coordinates, ~45 traversal/confusion targets per prefix (.., %2e%2e, %2f, %5c, //, /./, trailing slash, directories, tile/00, .p/0, .p/256, other log's directory, NUL, case, query, 6000-byte paths), origin confusion on the witness routes (.., mirror, encoded separators), absolute-form targets, meta endpoints, 200 anonymous requests for the 429 path. 200 => body is bytewise a regular file inside the directory configured for the addressed prefix, never canary content or a listing, for layout URLs exactly the named file with Content-Type, Content-Encoding, Cache-Control and CORS as prescribed. End to end, an unmodified client reads the checkpoint and all entries of each log through the server and the yielded entries equal the ground truth. Layout URLs that name no file although a sibling exists (the partial of a full tile, another width, the full tile of a partial) must not be answered 200/206; range requests on layout files must return that range with the same content type, encoding and cache policy.",
    note="TLS/ACME mode is not exercised (plain HTTP mode of the same handlers). Trusted: raw HTTP client of the harness, content index.",
    design_ref="DESIGN.md section 3, C19",
    parts=[P("serve", "^TestC19Serve$", shards=(1, 4), bins=("skylight",))],
    floor=300,
)

CHECKS["C20"] = dict(
    level="exploration",
    technique="one running cmd/skylight binary polled on /health while the harness mutates its real directories; expected status from a reference predicate over the injected breaks; every condition must flip the answer alone",
    text="Directories as in C19 (one log marked staging). Freshness is wall-clock-proof: fresh checkpoints are signed by the harness one hour ahead, stale ones one hour behind; the read-only branch uses an end date 30 days in the past. Each condition is broken alone and in seeded pairs/triples, then restored: log checkpoint missing / truncated / foreign key / other origin / stale, metadata missing / unparsable, read-only with no final tree / wrong root / size / timestamp / correct final tree (must report read-only, not failure); witness checkpoint missing / truncated / foreign key / checkpoint of another origin under this hash; mirror checkpoint missing / truncated / foreign key, right-edge tile missing / flipped, mirror ahead of pending, pending unverifiable; witness.v0.json and mirror.v0.json missing / no keys / foreign keys / unparsable. Expected status = 200 iff no non-staging condition is broken; for a single break the body must name the entry (short name, origin or origin hash) as failing; healthy logs still report OK; staging breaks are reported as ignored; restoring returns to 200.",
    note="The staging flag of witnesses is not varied. In break combinations only the status is judged (a broader failure may mask per-log lines).",
    design_ref="DESIGN.md section 3, C20",
    parts=[P("health", "^TestC20Health$", shards=(1, 8), bins=("skylight",))],
    floor=60,
)
