# Per-property check definitions, read by ./check and ./mkmanifest.py.
# P(name, test-regex, race=False, shards=(quick, thorough), timeout=(quick, thorough), bins=(), tiers=(...))

CHECKS["C01"] = dict(
    level="fault_enumeration",
    technique="online AppendOnly monitor on every lock commit and checkpoint publication + offline prefix-root check with an independent RFC 6962 tree, over seeded histories and a complete single-fault (thorough: fault-pair) enumeration of a round",
    text="Every lock-store commit and every applied checkpoint upload of ~300 (thorough ~6000) generated histories (faults applied/not, crashes, restarts, clock stall/backwards/jump, cache loss) is judged online (signature via certificate-transparency-go, size, strictly increasing timestamp, published subset of committed, root = reference MTH of the harness-known leaves) and every checkpoint ever seen is re-checked against the stored leaves at the end. Fault positions of one round are enumerated completely at tile-boundary sizes. Held-on-observed-executions, not a proof.",
    note="Trusted: harness stores (in-memory object store and CAS register with S3-like semantics), reference Merkle/TLS encoders in harness/ref.go, certificate-transparency-go signature verifier. Faults are injected at the Backend/LockBackend interface only.",
    design_ref="DESIGN.md section 3, C01",
    parts=[P("histories", "^TestC01Histories$", shards=(12, 16)), P("faultenum", "^TestC01FaultEnum$", shards=(4, 16))],
    floor=50,
)

CHECKS["C03"] = dict(
    level="fault_enumeration",
    technique="crash-point enumeration at the Backend/LockBackend boundary (calls park forever; tile-batch subsets) incl. crashes inside recovery, judged by restart + byte-exact storage audit at the lock checkpoint + further round; online staging-discard monitor",
    text="For each tile-boundary (start size, pool size) the op sequence of the round is learnt from a recorded run and every crash point is enumerated (each sequential op applied/not; every subset of the parallel tile batch when it has <=6 uploads, else seeded subsets incl. all single-missing/single-present), each followed by recoveries that are themselves crashed inside their re-upload batch; after the final clean restart LoadLog must succeed, every tile of the lock-committed tree must exist with exactly the prescribed bytes, a further round must commit and publish, and every earlier acknowledgement must still hold. A second workload kills the instance right after acknowledgements. Online: a staging bundle may only be discarded once the published checkpoint covers it.",
    note="Crash model: the process stops at a storage/lock call boundary, the in-flight call applied or not (as the property states); nothing of the dead instance runs afterwards. Trusted: harness stores, reference renderer of the Static CT layout.",
    design_ref="DESIGN.md section 3, C03",
    parts=[P("crashenum", "^TestC03CrashEnum$", shards=(16, 16)), P("ackcrash", "^TestC03AckThenCrash$", shards=(4, 16))],
    floor=500,
)

CHECKS["C04"] = dict(
    level="exploration",
    technique="online StorageAudit monitor at every checkpoint publication (byte-exact reference rendering of hash/data/names tiles and issuers, restricted to uploads completed before the checkpoint upload was issued) + Immutable and DiscardOnlyStaging monitors on every call",
    text="At the instant each checkpoint upload takes effect, every object the Static CT layout requires for that size must exist among uploads that had returned earlier, with bytes equal to an independent rendering of the harness-known leaf sequence (hash tiles, gunzipped data tiles, names tiles line by line, issuers by fingerprint; leaf i carries index i and a timestamp <= the tree head's). Every Upload is checked against earlier versions of immutable keys and every Discard must name a staging bundle. ~260 (thorough ~5000) histories with all entry shapes and fault/crash plans plus long growth runs across tile boundaries.",
    note="Trusted: harness object store (S3-like blind overwrite so that a rewrite is observable), reference encoders, crypto/x509 for the names-tile expectation. Entries whose certificate cannot be DER are required to contribute no names line; lenient-parser cases are not judged.",
    design_ref="DESIGN.md section 3, C04",
    parts=[P("audit", "^TestC04Audit$", shards=(12, 16)), P("growth", "^TestC04Growth$", shards=(4, 4))],
    floor=100,
)
