# Per-property check definitions, read by ./check and ./mkmanifest.py.
# P(name, test-regex, race=False, shards=(quick, thorough), timeout=(quick, thorough), bins=(), tiers=(...))

CHECKS["C01"] = dict(
    level="fault_enumeration",
    technique="online AppendOnly monitor on every lock commit and checkpoint publication + offline prefix-root check with an independent RFC 6962 tree, over seeded histories and a complete single-fault (thorough: fault-pair) enumeration of a round",
    text="Every lock-store commit and every applied checkpoint upload of ~300 (thorough ~6000) generated histories (faults applied/not, crashes, restarts, clock stall/backwards/jump, cache loss) is judged online (signature via certificate-transparency-go, size, strictly increasing timestamp, published subset of committed, root = reference MTH of the harness-known leaves) and every checkpoint ever seen is re-checked against the stored leaves at the end. Fault positions of one round are enumerated completely at tile-boundary sizes. Held-on-observed-executions, not a proof.",
    note="Trusted: harness stores (in-memory object store and CAS register with S3-like semantics), reference Merkle/TLS encoders in harness/ref.go, certificate-transparency-go signature verifier. Faults are injected at the Backend/LockBackend interface only.",
    design_ref="DESIGN.md section 3, C01",
    parts=[P("histories", "^TestC01Histories$", shards=(12, 16)), P("faultenum", "^TestC01FaultEnum$", shards=(4, 16))],
    floor=50,
)
