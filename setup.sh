#!/bin/sh
# Offline setup: warm the Go build cache for the harness (plain and -race) and
# the repository commands the checks run.
set -e
cd "$(dirname "$0")"
. ./goenv.sh
./tools/patch-sqlite.sh
T=$(mktemp -d /var/tmp/verif-setup-XXXXXX)
trap 'rm -rf "$T"' EXIT
(cd harness && $GO test -c -tags verif -o "$T/h.test" . && $GO test -c -race -tags verif -o "$T/h.race.test" .)
(cd /repo && for c in skylight partial-aftersun recompute-cache sunlight; do $GO build -o "$T/$c" ./cmd/$c; done; $GO build -race -o "$T/sunlight.race" ./cmd/sunlight)
echo setup ok
